"""C04 - Secure Binary 2.0 / 2.1: an independent model of the boot ROM decodes exactly the command list that was given.

spec/C04/Sb2Rom.tla       R-spec: the ROM's acceptance automaton over a file of 16-byte blocks (block cursor = AES-CTR counter
                          offset, header MAC, RFC 3394 key blob, certificate block, signature [+ SHA-256], per section: encrypted
                          tag, tag HMAC, HMAC table over ciphertext chunks, commands with checksum / CRC), coverage bookkeeping
spec/C04/Sb2RomMC.tla     MC + GEN: an ideal writer lays out every small shape, the automaton must walk it to Accepted with
                          full coverage and never accept a file with one corrupted block; accepted shapes are printed (GEN)
spec/C04/Sb2RomTrace.tla  TV: traces of the independent executor (c04_rom.py) on bytes exported by BootImageV20 / BootImageV21,
                          bound to the builder input (header fields, section ids, HMAC-table sizes, command for command);
                          traces of SPSDK's own parse() as second observer (clean, tampered, wrong KEK)

spec/C04/Sb2Operands.tla  the operands of the boot commands: 32-bit words and their width classes, pattern replication of FILL, memory-id flags,
                          Matches(raw header, abstract command) used by the trace form, Encode (ideal writer)
spec/C04/Sb2OperandsMC.tla  MC + GEN of the operand case space: every command kind x every numeric operand x the boundaries of every width class
                          (one operand at a time, diagonal; thorough: pairs), header words (build number, section id); lemmas OneClass /
                          RepAgree / Encodable / WidthSensitive / FieldSensitive; every emitted case is built in EVERY run (operand lane)

spec/C04/Sb2Hist.tla      the HISTORY of one live builder object: queries (str / update), mutators (add a section, append / replace a command,
                          set a section id) and exports in any order; MC: every export of every history describes the content at that moment
                          (with a refutation run of the accumulating variant); GEN: all histories up to MaxLen calls.  HISTORY LANE: every
                          history is replayed on a real BootImageV20 / V21 object, EVERY export is walked by the executor, and the whole history
                          is one trace of Sb2RomTrace (kind "hist": the content is state of the spec, every export is bound to it)
spec/C04/Sb2Own.tla       OWNERSHIP of what is handed over: where the API admits a caller-owned mutable buffer (a bytearray as LOAD data), what is
                          given is what the buffer holds WHEN the command is made; the caller goes on modifying its buffer (in place / shorter /
                          longer) after the construction and before the first export that carries the command; the same object may be put
                          twice.  MC: every export carries what was given (refutation runs: a builder that keeps a reference, a builder that
                          copies when the command is put).  OWNERSHIP LANE: every selected history is replayed with a real bytearray; the
                          buffer is state of Sb2RomTrace (HBuf / HTouch / HMake / HPut), so TLC computes what was given from the caller's steps
spec/C04/Sb2Config.tla    the CONFIGURATION PATH (BootImageV21.load_from_config / SB21Helper, what `nxpimage sb21 export` runs on a BD / YAML
                          file): statement kind x memory-option class (absent, internal, name, number of a named memory, number without a name
                          incl. group bits; integers and strings) x data source (file, blob, words, pattern), Expected(statement) = abstract
                          command; lemmas Encodable / MemVisible / SameMemory / BlobNeutral; CONFIGURATION LANE: every case is built through
                          load_from_config in every run and decided by the ROM automaton + Matches like a file of the class path

spec/C04/Sb2Time.tla     the header TIME STAMP: what is supplied is a calendar value (naive, or aware with a UTC offset), the header carries the
                          supplied INSTANT in whole seconds since 2000-01-01 UTC (limb arithmetic, HeaderCarries used by the trace form)
spec/C04/Sb2TimeMC.tla   MC + GEN of the time-stamp case space: form x UTC offset (whole / half / quarter hours, east / west, +-23:59) x wall-clock
                          digits (first seconds of the epoch, leap day, 2^31 / 2^32 seconds since 1970 / 2000, far future) x microseconds x local
                          zone of the building process; lemmas LimbsExact / SameInstant / ZoneFree / OffsetMatters / NextSecond; TIME LANE: a file
                          is built for EVERY emitted case in every run
CORRUPTION CLASSES of the tamper lane: one flipped bit per field class, a forged command with a repaired checksum, a wrong KEK, and TRUNCATION /
EXTENSION (Sb2RomMC: tamper kinds cut / stream / ext; Sb2Rom!BoundsOf = the structural boundaries of a layout).  CUT LANE: fixed small files of
every version x 1..3 sections are cut at EVERY structural boundary (the trace form checks that no boundary was left out: CutsOk) and inside the
parts, and extended; the automaton must refuse each variant, parse() must raise or return the reference content.

Python only drives SPSDK's public classes, runs the executor, projects parse() results and hands traces to TLC.
"""
import hashlib
import json
import os
import signal
import multiprocessing as mp
import time
from concurrent.futures import ProcessPoolExecutor

from lib import tlc
from lib.common import ROOT, Machinery, import_spsdk, rng, say, scratch
from lib.par import pmap
from lib.verdict import Verdict

import c04_rom as rom

PROP = "C04"
K21 = os.path.join(ROOT, "keys", "sb21")
KC = os.path.join(ROOT, "keys", "c04")
ANCHORS = os.path.join(ROOT, "anchors", "C04")
ANCHOR_KEK = bytes.fromhex("AC701E99BD3492E419B756EADC0985B3D3D0BC0FDB6B057AA88252204C2DA732")
EPOCH2000 = 946684800

# certificate chains of the key pool: id -> (certificate files root..leaf, private key of the leaf)
CHAINS = {
    "k0": ([os.path.join(K21, "root_k0_signed_cert0_noca.der.cert")], os.path.join(K21, "k0_cert0_2048.pem")),
    "ss2048": ([os.path.join(KC, "selfsign_2048_v3.der.crt")], os.path.join(KC, "selfsign_privatekey_rsa2048.pem")),
    "ss3072": ([os.path.join(KC, "selfsign_3072_v3.der.crt")], os.path.join(KC, "private_rsa3072.pem")),
    "ss4096": ([os.path.join(KC, "selfsign_4096_v3.der.crt")], os.path.join(KC, "private_rsa4096.pem")),
    "ch2": ([os.path.join(KC, "ca0_v3.der.crt"), os.path.join(KC, "crt_v3.der.crt")], os.path.join(KC, "crt_privatekey_rsa2048.pem")),
    "ch3": ([os.path.join(KC, "ca0_v3.der.crt"), os.path.join(KC, "ch3_crt_v3.der.crt"), os.path.join(KC, "ch3_crt2_v3.der.crt")],
            os.path.join(KC, "crt2_privatekey_rsa2048.pem")),
}
# the same numbers as ChainTab in Sb2RomMC.tla: certificates, table length, signature length
CHAIN_TAB = {"k0": (1, 1121, 256), "ss2048": (1, 1062, 256), "ss3072": (1, 1046, 384), "ss4096": (1, 1302, 512), "ch2": (2, 1562, 256), "ch3": (3, 2341, 256)}
OTHER_ROOTS = [os.path.join(K21, f"root_k{i}_signed_cert0_noca.der.cert") for i in (1, 2, 3)]

limbs = rom.limbs


def rkh_of(cert_path):
    """SHA-256 of modulus || exponent of the certificate's RSA key (independent of spsdk.crypto)."""
    from cryptography import x509

    pn = x509.load_der_x509_certificate(open(cert_path, "rb").read()).public_key().public_numbers()
    return hashlib.sha256(pn.n.to_bytes((pn.n.bit_length() + 7) // 8, "big") + pn.e.to_bytes((pn.e.bit_length() + 7) // 8, "big")).digest()


def check_key_pool():
    from cryptography import x509

    for cid, (files, _key) in CHAINS.items():
        n, tl, sl = CHAIN_TAB[cid]
        sizes = [os.path.getsize(f) for f in files]
        leaf = x509.load_der_x509_certificate(open(files[-1], "rb").read())
        if (len(files), sum(4 + s for s in sizes), leaf.public_key().key_size // 8) != (n, tl, sl):
            raise Machinery(f"key pool does not match ChainTab of Sb2RomMC.tla for chain {cid}")


# ------------------------------------------------------------------ concretisation of a shape
W32 = [0, 1, 4, 0xFFFF, 0x10000, 0x7FFFFFFF, 0x80000000, 0xFFFFFFFC, 0xFFFFFFFF, 0x20000000, 0x1000, 0x12345678]
MEMS = [0, 0, 1, 8, 9, 16, 0xFF, 0x100, 0x101, 0x110, 0x120, 0x121, 0xF00, 0xFFF, 0x309]  # group << 8 | device
PLAIN_VARIANTS = ["nop", "reset", "call", "jump", "jump_sp", "jump_sp0", "erase", "erase_mem", "erase_all", "erase_unsecure", "enable", "enable_grp",
                  "prog4", "prog8", "vercheck_sec", "vercheck_nsec", "ks_to_nv", "ks_from_nv", "fill1", "fill2", "fill3", "fill4", "fill0", "fill_len"]


def w32(r):
    return r.choice(W32) if r.random() < 0.5 else r.getrandbits(32)


def memsplit(m):
    return [(m >> 8) & 0xF, m & 0xFF]


def acmd(k, a=0, n=0, x=0, f=0, m=0, d=b""):
    return {"k": k, "a": limbs(a), "n": limbs(n), "x": limbs(x), "f": f, "m": memsplit(m), "d": list(d)}


def mk_plain(variant, r, ks_ids):
    """-> (abstract command, constructor description)"""
    a, n, x = w32(r), w32(r), w32(r)
    if variant == "nop":
        return acmd("nop"), ("CmdNop",)
    if variant == "reset":
        return acmd("reset"), ("CmdReset",)
    if variant == "call":
        return acmd("call", a=a, x=x), ("CmdCall", a, x)
    if variant == "jump":
        return acmd("jump", a=a, x=x), ("CmdJump", a, x, None)
    if variant in ("jump_sp", "jump_sp0"):
        sp = 0 if variant == "jump_sp0" else n
        return acmd("jump", a=a, x=x, f=1, n=sp), ("CmdJump", a, x, sp)
    if variant in ("erase", "erase_mem", "erase_all", "erase_unsecure"):
        m = 0 if variant == "erase" else r.choice(MEMS)
        f = {"erase_all": 1, "erase_unsecure": 2}.get(variant, 0)
        return acmd("erase", a=a, n=n, f=f, m=m), ("CmdErase", a, n, f, m)
    if variant in ("enable", "enable_grp"):
        m = r.choice([1, 8, 9, 0xFF]) if variant == "enable" else r.choice([0x100, 0x101, 0x120, 0xF00, 0xFFF])
        return acmd("enable", a=a, n=n, m=m), ("CmdMemEnable", a, n, m)
    if variant in ("prog4", "prog8"):
        m = r.choice([0, 4, 0xFF, r.randrange(256)])
        w2 = 0 if variant == "prog4" else (r.getrandbits(32) or 1)
        return acmd("prog", a=a, n=n, x=w2, m=m), ("CmdProg", a, m, n, w2)
    if variant in ("vercheck_sec", "vercheck_nsec"):
        t = 0 if variant == "vercheck_sec" else 1
        return acmd("vercheck", f=t, n=n), ("CmdVersionCheck", t, n)
    if variant in ("ks_to_nv", "ks_from_nv"):
        cid = r.choice(ks_ids)
        return acmd(variant, a=a, m=cid), ("CmdKeyStoreRestore" if variant == "ks_to_nv" else "CmdKeyStoreBackup", a, cid)
    if variant.startswith("fill"):
        p = {"fill1": r.randrange(1, 256), "fill2": r.randrange(0x100, 0x10000), "fill3": r.randrange(0x10000, 0x1000000),
             "fill4": r.randrange(0x1000000, 2**32), "fill0": 0, "fill_len": r.choice([0xAB, 0x1234, 0xDEADBEEF])}[variant]
        ln = None if variant != "fill_len" and r.random() < 0.5 else 4 * r.choice([1, 2, 3, 0x100, 0x3FFFFFFF, r.randrange(1, 2**30)])
        return acmd("fill", a=a, n=ln or 4, x=p), ("CmdFill", a, p, ln)
    raise Machinery(f"no variant {variant}")


def unl(p):
    return (p[0] << 16) | p[1]


def mk_case(c, ks_id, zero_filling):
    """Operand case emitted by TLC (Sb2OperandsMC) -> (abstract command = the case itself, constructor description).
    Python derives only the constructor arguments; the expectation handed to the trace form is the record TLC emitted."""
    k, opt = c["k"], c["opt"]
    a, n, x, f = unl(c["a"]), unl(c["n"]), unl(c["x"]), c["f"]
    m = (c["m"][0] << 8) | c["m"][1]
    given = {key: c[key] for key in ("k", "a", "n", "x", "f", "m", "d")}
    if opt == "ksid":
        given["m"] = [0, ks_id]       # a key-store memory id of the implementation's enumeration (ExtMemId, 1..0xFF)
    if (opt == "nosp") != (k == "jump" and f == 0) or (opt == "nolen" and (k != "fill" or n != 4)) or (opt == "ksid") != k.startswith("ks_"):
        raise Machinery(f"operand case with an option the driver does not know: {c}")
    if k == "fill":
        return given, ("CmdFill", a, x, None if opt == "nolen" else n)
    if k == "jump":
        return given, ("CmdJump", a, x, None if opt == "nosp" else n)
    if k == "call":
        return given, ("CmdCall", a, x)
    if k == "erase":
        return given, ("CmdErase", a, n, f, m)
    if k == "enable":
        return given, ("CmdMemEnable", a, n, m)
    if k == "prog":
        return given, ("CmdProg", a, m, n, x)
    if k == "vercheck":
        return given, ("CmdVersionCheck", f, n)
    if k in ("ks_to_nv", "ks_from_nv"):
        return given, ("CmdKeyStoreRestore" if k == "ks_to_nv" else "CmdKeyStoreBackup", a, ks_id)
    if k == "load":
        return given, ("CmdLoad", a, bytes(c["d"]).hex(), m, zero_filling)
    raise Machinery(f"operand case of an unknown command kind: {c}")


def case_label(c):
    """Name of an operand case for finding keys: the varied operand and its value(s)."""
    if c["slot"] == "m":
        val = f"f{c['f']}m{(c['m'][0] << 8) | c['m'][1]:03X}"
    elif c["slot"] == "len":
        val = f"{len(c['d'])}"
    elif c["slot"] == "diag":
        val = f"{unl(c['a']):X}"
    elif len(c["slot"]) == 3:          # pair "pxq"
        val = f"{unl(c[c['slot'][0]]):X},{unl(c[c['slot'][2]]):X}"
    else:
        val = f"{unl(c[c['slot']]):X}"
    return f"{c['slot']}={val}" + (f"/{c['opt']}" if c["opt"] in ("nolen", "nosp") else "")


CTR0S = [0, 1, 0xFF, 0x100, 0xFFFF, 0x10000, 0x7FFFFFFF, 0x80000000, 0xFFFF0000, 0xFFFFFFFF - 70000]
LANE_VERSIONS = [("21", True), ("20u", False), ("21", False), ("20s", False)]


def concretise(shape, idx, r, plain_tour, residue_tour, ks_ids, big_loads, lane=None):
    """Abstract shape (TLC) -> builder input: header values, keys, sections with abstract commands and how to construct them."""
    ver = shape["ver"]
    chain = shape["chain"]
    secs = []
    uids = set()
    for s in shape["secs"]:
        cmds = []
        labs = []
        for blocks in s["cmds"]:
            labs.append(case_label(blocks) if isinstance(blocks, dict) else None)
            if isinstance(blocks, dict):     # operand lane: a case emitted by TLC
                cmds.append(mk_case(blocks, ks_ids[(idx + len(cmds)) % len(ks_ids)], r.random() < 0.5))
            elif blocks == 0:
                v = plain_tour[0]
                plain_tour.append(plain_tour.pop(0))
                cmds.append(mk_plain(v, r, ks_ids))
            else:
                res = residue_tour[0]
                residue_tour.append(residue_tour.pop(0))
                extra = r.choice(big_loads) if (blocks == 2 and r.random() < 0.25) else 0   # some longer loads (several HMAC chunks)
                ln = (blocks - 1 + extra) * 16 + (res if res else 16)
                data = bytes(r.getrandbits(8) for _ in range(ln))
                a, m = w32(r), r.choice(MEMS)
                zf = r.random() < 0.5
                cmds.append((acmd("load", a=a, m=m, d=data), ("CmdLoad", a, data.hex(), m, zf)))
        uid = w32(r)
        if lane and lane.get("hdr") and not secs:
            uid = unl(lane["hdr"]["n"])
        while uid in uids:
            uid = r.getrandbits(32)
        uids.add(uid)
        secs.append({"uid": uid, "hmacReq": s["hm"], "zero": r.random() < 0.5, "cmds": cmds, "labs": labs})
    pv = [r.choice([0, 1, 9, 10, 99, 999, 1234, 9999]) for _ in range(3)]
    cv = list(pv) if r.random() < 0.3 else [r.choice([0, 1, 2, 10, 123, 9999, 4567]) for _ in range(3)]
    build = w32(r)
    ts = r.choice([0, 1, 633744000, 2**31 - 1, r.randrange(2**31)])
    nonce = bytearray(r.getrandbits(8) for _ in range(16))
    ctr0 = r.choice([0, 1, 0x7FFFFFFF, 0x80000000, 0xFFFF0000, r.getrandbits(32) & 0xFFFEFFFF, 0xFFFFFFFF - 70000])
    if lane:
        ctr0 = CTR0S[lane["no"] % len(CTR0S)]
        if lane.get("hdr"):
            build = unl(lane["hdr"]["a"])
    nonce[12:16] = ctr0.to_bytes(4, "little")
    g = {
        "idx": idx, "ver": ver, "sha": shape["sha"], "chain": chain, "pv": pv, "cv": cv, "build": build, "ts": ts, "nonce": bytes(nonce).hex(),
        "dek": bytes(r.getrandbits(8) for _ in range(32)).hex(), "mac": bytes(r.getrandbits(8) for _ in range(32)).hex(),
        "kek": bytes(r.getrandbits(8) for _ in range(32)).hex(),
        "hdr_pad": None if r.random() < 0.4 else bytes(r.getrandbits(8) for _ in range(8)).hex(),
        "exp_pad": None if r.random() < 0.5 else bytes(r.getrandbits(8) for _ in range(8)).hex(),
        "root_idx": r.randrange(4) if chain != "none" else -1,
        "others": [r.random() < 0.5 for _ in range(3)],
        "rkh_as_cert": r.random() < 0.5,
        "secs": secs,
    }
    if lane:
        g["lane"] = {"no": lane["no"], "hdr": case_label(lane["hdr"]) if lane.get("hdr") else None}
    return g


def lane_shapes(cases, r):
    """The operand cases of Sb2OperandsMC -> (shape, lane) pairs: one-section files that carry EVERY command case once and every header
    case once; version / SHA flag / chain / HMAC-table request rotate over the files."""
    key = lambda c: json.dumps(c, sort_keys=True)  # noqa: E731
    hdrs = sorted((c for c in cases if c["k"] == "hdr"), key=key)
    cmds = sorted((c for c in cases if c["k"] != "hdr"), key=key)
    r.shuffle(hdrs)
    r.shuffle(cmds)
    n_files = max(len(hdrs), -(-len(cmds) // 16), 1)
    signed = [c for c in CHAIN_TAB]
    out = []
    for i in range(n_files):
        ver, sha = LANE_VERSIONS[i % len(LANE_VERSIONS)]
        mine = cmds[i::n_files]
        if not mine:
            mine = [cmds[i % len(cmds)]]
        shape = {"ver": ver, "sha": sha, "chain": "none" if ver == "20u" else signed[(i // len(LANE_VERSIONS)) % len(signed)],
                 "secs": [{"hm": 1 + i % 3, "cmds": mine}]}
        out.append((shape, {"no": i, "hdr": hdrs[i] if i < len(hdrs) else None}))
    return out



# ------------------------------------------------------------------ history lane (Sb2Hist): one live object, many calls
HIST_VERS = {"21": ("21", False), "21sha": ("21", True), "20s": ("20s", False), "20u": ("20u", False)}


def hist_select(hists, quick):
    """Every call sequence shorter than the longest enumerated length for every version (initial content in rotation; thorough: every initial
    content as well); of the longest length one (version, initial content) combination per call sequence, in rotation (deterministic)."""
    seqs = {}
    for h in hists:
        seqs.setdefault(tuple(a["a"] for a in h["acts"]), []).append(h)
    top = max(len(q) for q in seqs)
    out = []
    for i, (seq, hs) in enumerate(sorted(seqs.items())):
        hs.sort(key=lambda h: (h["ver"], h["init"]))
        if len(seq) == top:
            out.append(hs[i % len(hs)])
        elif not quick:
            out += hs
        else:
            vers = sorted({h["ver"] for h in hs})
            for k, ver in enumerate(vers):
                mine = [h for h in hs if h["ver"] == ver]
                out.append(mine[(i + k) % len(mine)])
    return out


def shape_cmd(blocks, r, plain_tour, residue_tour, ks_ids):
    """One command of a shape (payload blocks; 0 = a command without payload) with seeded values -> (abstract command, constructor description)."""
    if blocks == 0:
        v = plain_tour[0]
        plain_tour.append(plain_tour.pop(0))
        return mk_plain(v, r, ks_ids)
    res = residue_tour[0]
    residue_tour.append(residue_tour.pop(0))
    data = bytes(r.getrandbits(8) for _ in range((blocks - 1) * 16 + (res if res else 16)))
    a, m = w32(r), r.choice(MEMS)
    return acmd("load", a=a, m=m, d=data), ("CmdLoad", a, data.hex(), m, r.random() < 0.5)


def concretise_hist(h, idx, r, plain_tour, residue_tour, ks_ids):
    """History emitted by TLC (Sb2Hist) -> builder input for the constructor + the calls with seeded values."""
    ver, sha = HIST_VERS[h["ver"]]
    signed = list(CHAIN_TAB)
    shape = {"ver": ver, "sha": sha, "chain": "none" if ver == "20u" else signed[idx % len(signed)],
             "secs": [{"hm": s["hm"], "cmds": s["cmds"]} for s in h["content0"]]}
    g = concretise(shape, idx, r, plain_tour, residue_tour, ks_ids, [0])
    uids = {s["uid"] for s in g["secs"]}

    def fresh():
        u = w32(r)
        while u in uids:
            u = r.getrandbits(32)
        uids.add(u)
        return u

    calls = []
    for a in h["acts"]:
        k = a["a"]
        if k == "AddSection":
            calls.append({"a": k, "sec": {"uid": fresh(), "hmacReq": a["sec"]["hm"], "zero": r.random() < 0.5,
                                          "cmds": [shape_cmd(b, r, plain_tour, residue_tour, ks_ids) for b in a["sec"]["cmds"]]}})
        elif k in ("AppendCmd", "ReplaceCmd"):
            calls.append({"a": k, "cmd": shape_cmd(a["p"], r, plain_tour, residue_tour, ks_ids)})
        elif k == "SetUid":
            calls.append({"a": k, "uid": fresh()})
        else:
            calls.append({"a": k})
    g["hist"] = calls
    g["hist_name"] = ">".join(c["a"].lower() for c in calls)
    return g


# ------------------------------------------------------------------ ownership lane (Sb2Own): the caller's mutable buffer, handed over and modified afterwards
OWN_COMBOS = [(v, lc) for lc in ("ragged", "aligned") for v in ("21", "20u", "21sha", "20s")]


def own_exposed(acts):
    """Does the history modify the buffer while an object made from the buffer ITSELF exists (the class a referencing builder gets wrong)?"""
    held = False
    for a in acts:
        held = held or (a["a"] == "Make" and a["form"] == "buf")
        if a["a"] == "Touch" and held:
            return True
    return False


def own_select(hists, quick, top_quota):
    """Histories of Sb2Own -> [(history, version, length class)].  Every call sequence shorter than the longest enumerated length is replayed
    (up to 4 calls: for every version x length class if the buffer is modified while a command made from the buffer itself is held, else for
    two; longer ones: one combination in rotation, thorough: two for 5 calls); of the longest length `top_quota` sequences at a fixed stride over the
    sorted list (deterministic - nothing about the selection is random)."""
    hs = sorted(hists, key=lambda h: json.dumps(h["acts"], sort_keys=True))
    top = max(len(h["acts"]) for h in hs)
    longest = [h for h in hs if len(h["acts"]) == top]
    stride = max(1, len(longest) // top_quota)
    out = []
    for i, h in enumerate([h for h in hs if len(h["acts"]) < top] + longest[::stride]):
        n = len(h["acts"])
        k = (len(OWN_COMBOS) if own_exposed(h["acts"]) else 2) if n <= 4 else 2 if (n == 5 and not quick) else 1
        out += [(h, *OWN_COMBOS[(i + j) % len(OWN_COMBOS)]) for j in range(k)]
    return out


def call_name(c):
    a = c["a"].lower()
    return {"make": f"make:{c.get('form')}", "put": f"put:{c.get('place')}", "touch": f"touch:{c.get('kind')}"}.get(a, a)


def concretise_own(h, ver_name, lenc, idx, r, plain_tour, residue_tour, ks_ids):
    """History emitted by TLC (Sb2Own) -> constructor input + calls with seeded values.  The caller's buffer is simulated here only to choose
    positions that exist (what the buffer holds is logged by the worker from the real bytearray and re-computed by TLC)."""
    ver, sha = HIST_VERS[ver_name]
    signed = list(CHAIN_TAB)
    shape = {"ver": ver, "sha": sha, "chain": "none" if ver == "20u" else signed[idx % len(signed)], "secs": [{"hm": 1, "cmds": [0]}]}
    g = concretise(shape, idx, r, plain_tour, residue_tour, ks_ids, [0])
    uids = {s["uid"] for s in g["secs"]}
    res = residue_tour[0]
    residue_tour.append(residue_tour.pop(0))
    n0 = 16 * r.choice([1, 2, 3]) + (0 if lenc == "aligned" else (res or 7))
    buf = bytearray(r.randrange(1, 256) for _ in range(n0))
    calls = [{"a": "Buf", "content": bytes(buf).hex()}]
    for a in h["acts"]:
        k = a["a"]
        if k == "Make":
            calls.append({"a": k, "form": a["form"], "addr": w32(r), "mem": r.choice(MEMS), "zf": r.random() < 0.5})
        elif k == "Put":
            u = w32(r)
            while u in uids:
                u = r.getrandbits(32)
            uids.add(u)
            calls.append({"a": k, "place": a["place"], "uid": u, "hmacReq": r.choice([1, 2]), "zero": r.random() < 0.5})
        elif k == "Touch":
            n = len(buf)
            kind = a["kind"] if n > 4 or a["kind"] != "shrink" else "grow"      # (a buffer that has become very short grows again)
            if kind == "poke":      # one byte at either end, the four bytes of a marker, the whole buffer (refilled with the next chunk)
                at, ln = r.choice([(0, 1), (n - 1, 1), (r.randrange(n), 1), (r.randrange(max(1, n - 3)), min(4, n)), (0, n)])
                new = bytes(b ^ r.randrange(1, 256) for b in buf[at:at + ln])
                buf[at:at + ln] = new
            elif kind == "shrink":  # by at least 4 bytes (what is cut off must not be mistaken for padding), sometimes over a block boundary, sometimes to one byte
                at, new = r.choice([n - 4, max(1, n - 16), max(1, n - 17), 1, r.randrange(1, n - 3)]), b""
                del buf[at:]
            else:                   # by at least one cipher block (a few more bytes inside the last block are indistinguishable from padding)
                at, new = 0, bytes(r.randrange(1, 256) for _ in range(r.choice([16, 17, 32, 40])))
                buf += new
            calls.append({"a": k, "kind": kind, "at": at, "bytes": new.hex()})
        else:
            calls.append({"a": k})
    g["hist"] = calls
    g["own"] = {"lenc": lenc, "model": h["acts"]}
    g["hist_name"] = ">".join(call_name(c) for c in calls[1:])
    return g


def process_hist(sp, job):
    """One history on one live object: every call is logged as one event, every export is followed by the executor's walk of the bytes it returned."""
    g = job["g"]
    idx, ver = g["idx"], g["ver"]
    out = {"idx": idx, "traces": [], "build": "ok", "len": 0, "exports": 0, "shas": []}
    kek = bytes.fromhex(g["kek"])
    evs, act_of = [], []

    def log(k, e):
        evs.append(e)
        act_of.append(k)

    k = -1
    bufs, objs = [], []        # ownership lane: the caller's buffers (real bytearrays) and the command objects made from them
    mine = [None]              # what the caller last left in its buffer

    def converse(where):       # OBSERVATION only (no verdict): did anything but the caller change the caller's buffer?
        if bufs and mine[0] is not None and bytes(bufs[-1]) != mine[0] and "buffer_modified_by_spsdk" not in out:
            out["buffer_modified_by_spsdk"] = where

    try:
        img = sp.make_image(g)
        for k, c in enumerate(g["hist"]):
            a = c["a"]
            if a == "Buf":
                bufs.append(bytearray.fromhex(c["content"]))
                mine[0] = bytes(bufs[-1])
                log(k, {"ev": "HBuf", "content": list(bufs[-1])})
            elif a == "Touch":          # the caller modifies ITS buffer, in place (the same bytearray object all along)
                converse(k)
                buf, new = bufs[-1], bytes.fromhex(c["bytes"])
                if c["kind"] == "poke":
                    buf[c["at"]:c["at"] + len(new)] = new
                elif c["kind"] == "shrink":
                    del buf[c["at"]:]
                else:
                    buf += new
                mine[0] = bytes(buf)
                log(k, {"ev": "HTouch", "buf": len(bufs), "kind": c["kind"], "at": c["at"], "bytes": list(new)})
            elif a == "Make":           # what is given: the buffer itself, or a copy made by the caller (control)
                data = bufs[-1] if c["form"] == "buf" else bytes(bufs[-1])
                objs.append(sp.C.CmdLoad(address=c["addr"], data=data, mem_id=c["mem"], zero_filling=c["zf"]))
                log(k, {"ev": "HMake", "buf": len(bufs), "form": c["form"], "a": limbs(c["addr"]), "m": memsplit(c["mem"])})
            elif a == "Put":
                if c["place"] == "append":
                    img[len(img) - 1].append(objs[-1])
                else:
                    img.add_boot_section(sp.Section(c["uid"], objs[-1], hmac_count=c["hmacReq"], zero_filling=c["zero"]))
                log(k, {"ev": "HPut", "obj": len(objs), "place": c["place"], "uid": limbs(c["uid"]), "hmacReq": c["hmacReq"]})
            elif a == "Query":
                str(img), repr(img), img.raw_size, len(img)
                log(k, {"ev": "HDescribe"})
                img.update()
                log(k, {"ev": "HUpdate"})
            elif a == "Export":
                log(k, {"ev": "HExport"})
                data = img.export(padding=bytes.fromhex(g["exp_pad"]) if g["exp_pad"] else None)
                out["len"] += len(data)
                out["exports"] += 1
                out["shas"].append(hashlib.sha256(data).hexdigest()[:16])
                walk = with_markers(rom.run(data, kek))
                for e in walk:
                    log(k, e)
                if walk[-1]["ev"] != "Accept":
                    break
            elif a == "Describe":
                str(img), repr(img), img.raw_size, len(img)
                log(k, {"ev": "HDescribe"})
            elif a == "Update":
                img.update()
                log(k, {"ev": "HUpdate"})
            elif a == "AddSection":
                img.add_boot_section(sp.make_section(c["sec"]))
                log(k, {"ev": "HAddSection", "sec": {"uid": limbs(c["sec"]["uid"]), "hmacReq": c["sec"]["hmacReq"], "cmds": [x[0] for x in c["sec"]["cmds"]]}})
            elif a == "AppendCmd":
                img[len(img) - 1].append(sp.make_cmd(c["cmd"][1]))
                log(k, {"ev": "HAppendCmd", "c": c["cmd"][0]})
            elif a == "ReplaceCmd":
                sec = img[len(img) - 1]
                sec[len(sec) - 1] = sp.make_cmd(c["cmd"][1])
                log(k, {"ev": "HReplaceCmd", "c": c["cmd"][0]})
            elif a == "SetUid":
                img[0].uid = c["uid"]
                log(k, {"ev": "HSetUid", "uid": limbs(c["uid"])})
            else:
                raise Machinery(f"history call {a} unknown to the driver")
    except Machinery:
        raise
    except Exception as x:  # noqa: BLE001  a call the object refuses: no step of the history spec matches this event
        out["build"] = f"{type(x).__name__}: {x}"[:200]
        log(max(k, 0), {"ev": "CallFailed", "exc": out["build"]})
    converse(len(g["hist"]))
    out["traces"].append(mk_trace(f"hist-{idx}", "hist", "clean", evs, given=given_record(g), idx=idx, ver=ver, act_of=act_of))
    return out


def hist_key(t, g, ev_index, clause):
    """Finding key of a history: version, the calls up to and including the one that failed, the clause."""
    k = t["act_of"][min(ev_index, len(t["act_of"]) - 1)] if t["act_of"] else 0
    if g.get("own"):        # ownership lane: the calls (the creation of the buffer is not named), length class of the buffer at the start
        calls = ">".join(call_name(c) for c in g["hist"][1:k + 1])
        return f"C04/own/{vname(t['ver'])}/{g['own']['lenc']}/{calls}/{clause}"
    calls = ">".join(c["a"].lower() for c in g["hist"][:k + 1])
    return f"C04/hist/{vname(t['ver'])}/{calls}/{clause}"


# ------------------------------------------------------------------ configuration lane (Sb2Config): BootImageV21.load_from_config
def render_stmt(st, d, name):
    """Statement case of Sb2Config -> one entry of a section's command list as the BD parser / a YAML file hands it to load_from_config."""
    num = hex if st["num"] == "str" else int
    a, n, x = unl(st["a"]), unl(st["n"]), unl(st["x"])
    mem = st["mem"]
    mid = (mem["id"][0] << 8) | mem["id"][1]
    opt = {"none": None, "name": mem["name"], "int": mid, "str": hex(mid)}[mem["form"]]
    k = st["kind"]
    c = {}
    if k == "load":
        if opt is not None:
            c["load_opt"] = opt
        if st["src"] == "file":
            with open(os.path.join(d, name + ".bin"), "wb") as f:
                f.write(bytes(st["d"]))
            c["file"] = name + ".bin"
        elif st["src"] == "blob":       # the BD parser hands a blob over as its hex digits
            c["values"] = bytes(st["d"]).hex() if st["d"] else f"{n:08x}" + (f"{x:08x}" if x else "")
        elif st["src"] == "words":      # YAML: 32-bit values, comma separated
            data = bytes(st["d"])
            c["values"] = ", ".join("0x" + data[i:i + 4].hex() for i in range(0, len(data), 4))
        elif st["src"] == "pattern":
            c["pattern"] = num(n)
        else:
            raise Machinery(f"configuration case with a data source the driver does not know: {st}")
        c["address"] = num(a)
    elif k == "fill":
        c = {"pattern": num(x), "address": num(a)}
        if st["opt"] != "nolen":
            c["length"] = num(n)
    elif k == "erase":
        c = {"address": num(a)}
        if st["opt"] != "nolen":
            c["length"] = num(n)
        if st["f"]:
            c["flags"] = st["f"]
        if opt is not None:
            c["mem_opt"] = opt
    elif k == "enable":
        c = {"address": num(a)}
        if opt is not None:
            c["mem_opt"] = opt
        if st["opt"] != "nolen":
            c["size"] = n
    elif k in ("keystore_to_nv", "keystore_from_nv"):
        c = {"mem_opt": opt, "address": num(a)}
    elif k == "version_check":
        c = {"ver_type": st["f"], "fw_version": n}
    elif k == "jump":
        c = {"address": num(a)}
        if st["opt"] != "noarg":
            c["argument"] = x
        if st["f"] == 1:
            c["spreg"] = n
    elif k == "call":
        c = {"address": num(a)}
        if st["opt"] != "noarg":
            c["argument"] = x
    elif k == "reset":
        c = {}
    else:
        raise Machinery(f"configuration case of a kind the driver does not know: {st}")
    return {k: c}


def render_config(g, d):
    """Builder input of the configuration lane -> configuration dictionary (options block with the test settings, sections, statements)."""
    ver = lambda v: ".".join(str(x) for x in v)  # noqa: E731
    flags = 0x8008 if g["sha"] else 0x0008
    opts = {"flags": hex(flags) if g["cfg"]["numstr"] else flags, "buildNumber": g["build"], "productVersion": ver(g["pv"]), "componentVersion": ver(g["cv"]),
            "dek": g["dek"], "mac": g["mac"], "nonce": g["nonce"], "timestamp": EPOCH2000 + g["ts"], "zeroPadding": g["cfg"]["zero"]}
    secs = []
    for si, s in enumerate(g["secs"]):
        secs.append({"section_id": s["uid"], "options": {}, "commands": [render_stmt(c[1][1], d, f"s{si}c{j}") for j, c in enumerate(s["cmds"])]})
    return {"options": opts, "sections": secs}


def cfg_label(st):
    mem = st["mem"]
    what = mem["name"] if mem["form"] == "name" else (f"{(mem['id'][0] << 8) | mem['id'][1]:#x}" + ("(str)" if mem["form"] == "str" else "")) if mem["form"] != "none" else ""
    return f"config/{st['kind']}/{st['src']}/mem={mem['class']}" + (f":{what}" if what else "") + (f"/{st['opt']}" if st["opt"] else "")


def cfg_files(cases, r, first_idx):
    """The statement cases of Sb2Config -> configurations that carry EVERY case once (about 16 statements per file, every second file with
    two sections); header values seeded."""
    key = lambda c: json.dumps(c, sort_keys=True)  # noqa: E731
    cases = sorted(cases, key=key)
    r.shuffle(cases)
    n_files = -(-len(cases) // 16)
    kek = open(os.path.join(K21, "SBkek_PUF.txt")).read().strip()
    out = []
    for i in range(n_files):
        mine = [(c["exp"], ("cfg", c["st"])) for c in cases[i::n_files]]
        cut = len(mine) // 2 if i % 2 else len(mine)
        parts = [p for p in (mine[:cut], mine[cut:]) if p]
        uids = r.sample([0, 1, 5, 0xFFFF, 0x10000, 0x7FFFFFFF, 0x80000000, 0xFFFFFFFF], len(parts))
        secs = [{"uid": u, "hmacReq": 1, "zero": False, "cmds": p, "labs": [cfg_label(c[1][1]) for c in p]} for u, p in zip(uids, parts)]
        nonce = bytearray(r.getrandbits(8) for _ in range(16))
        nonce[12:16] = CTR0S[i % len(CTR0S)].to_bytes(4, "little")
        pv = [r.choice([0, 1, 9, 10, 99, 999]) for _ in range(3)]
        out.append({"idx": first_idx + i, "ver": "21", "sha": i % 2 == 0, "chain": "k0", "pv": pv, "cv": [r.choice([0, 1, 2, 10, 123, 999]) for _ in range(3)],
                    "build": w32(r), "ts": r.choice([1, 633744000, 2**31 - 1, r.randrange(1, 2**31)]), "nonce": bytes(nonce).hex(),
                    "dek": bytes(r.getrandbits(8) for _ in range(32)).hex(), "mac": bytes(r.getrandbits(8) for _ in range(32)).hex(), "kek": kek,
                    "hdr_pad": None, "exp_pad": None, "root_idx": 0, "others": [True, True, True], "rkh_as_cert": True, "secs": secs,
                    "cfg": {"numstr": i % 3 == 1, "zero": i % 2 == 1}})
    return out


def tsc_of(g):
    """The time stamp as supplied, in the vocabulary of Sb2Time: a case of the time lane, else the naive value the other lanes hand over
    (g["ts"] seconds after 2000-01-01, digits read in the UTC zone of the run)."""
    if g.get("tsc"):
        return {k: g["tsc"][k] for k in ("form", "off", "days", "sod", "us", "zone")}
    return {"form": "naive", "off": 0, "days": g["ts"] // 86400, "sod": g["ts"] % 86400, "us": 0, "zone": 0}


def supplied_datetime(g):
    """The datetime object handed to SBV2xAdvancedParams."""
    from datetime import datetime, timedelta, timezone

    c = g.get("tsc")
    if not c:
        return datetime.fromtimestamp(EPOCH2000 + g["ts"])
    wall = datetime(2000, 1, 1) + timedelta(days=c["days"], seconds=c["sod"], microseconds=c["us"])
    return wall.replace(tzinfo=timezone(timedelta(minutes=c["off"]))) if c["form"] == "aware" else wall


def off_name(m):
    return f"utc{'+' if m >= 0 else '-'}{abs(m) // 60:02d}:{abs(m) % 60:02d}"


def time_label(c):
    """Name of a time-stamp case for finding keys: form, offset, whether microseconds / another local zone are involved."""
    return (c["form"] + (f"/{off_name(c['off'])}" if c["form"] == "aware" else "") + ("/us" if c["us"] else "")
            + (f"/local={off_name(c['zone'])}" if c["zone"] else ""))


class local_zone:
    """The local zone of the building process for the duration of one job (fixed offset, POSIX TZ string: the sign is inverted there)."""

    def __init__(self, minutes):
        self.m = minutes

    def __enter__(self):
        if self.m:
            os.environ["TZ"] = f"VRF{'-' if self.m > 0 else '+'}{abs(self.m) // 60:02d}:{abs(self.m) % 60:02d}"
            time.tzset()

    def __exit__(self, *a):
        if self.m:
            os.environ["TZ"] = "UTC"
            time.tzset()


def given_record(g):
    """The builder input in the vocabulary of Sb2RomTrace (type-stable, all numbers < 2^31)."""
    chain = g["chain"]
    rkth, slots = "", []
    if chain != "none":
        slots = root_slots(g)
        rkth = hashlib.sha256(b"".join(h or bytes(32) for h in slots)).hexdigest()
    flags = {"20u": 4, "20s": 8}.get(g["ver"], 0x8008 if g["sha"] else 0x0008)
    return {
        "ver": 1 if g["ver"] == "21" else 0, "flags": flags, "pv": g["pv"], "cv": g["cv"], "build": limbs(g["build"]),
        "tsc": tsc_of(g), "nonceCtr": limbs(int.from_bytes(bytes.fromhex(g["nonce"])[12:], "little")), "nonce": g["nonce"],
        "keys": hashlib.sha256(bytes.fromhex(g["dek"]) + bytes.fromhex(g["mac"])).hexdigest()[:32],
        "sigLen": CHAIN_TAB[chain][2] if chain != "none" else 0, "chain": CHAIN_TAB[chain][0] if chain != "none" else 0,
        "rootIdx": g["root_idx"], "rkth": rkth,
        "secs": [{"uid": limbs(s["uid"]), "hmacReq": s["hmacReq"], "cmds": [c[0] for c in s["cmds"]]} for s in g["secs"]],
    }


def root_slots(g):
    """Root-key-hash table as supplied: the used root at root_idx, some of the other roots in the remaining slots."""
    files = CHAINS[g["chain"]][0]
    slots = [None] * 4
    slots[g["root_idx"]] = rkh_of(files[0])
    others = [p for p, use in zip(OTHER_ROOTS, g["others"]) if use]
    for i in range(4):
        if slots[i] is None and others:
            slots[i] = rkh_of(others.pop(0))
    return slots


# ------------------------------------------------------------------ the real code
class Spsdk:
    def __init__(self):
        import_spsdk()
        from spsdk.crypto.certificate import Certificate
        from spsdk.crypto.signature_provider import get_signature_provider
        from spsdk.mboot.memories import ExtMemId
        from spsdk.sbfile.sb2 import commands as C
        from spsdk.sbfile.sb2.images import BootImageV20, BootImageV21, BootSectionV2, SBV2xAdvancedParams
        from spsdk.utils.crypto.cert_blocks import CertBlockV1

        self.C, self.Certificate, self.gsp, self.ExtMemId = C, Certificate, get_signature_provider, ExtMemId
        self.V20, self.V21, self.Section, self.Adv, self.CertBlock = BootImageV20, BootImageV21, BootSectionV2, SBV2xAdvancedParams, CertBlockV1
        self.ks_ids = sorted({m.tag for m in ExtMemId if 0 < m.tag <= 0xFF})
        # loading a PEM key costs ~50 ms (key check): one signature provider per chain, created before the workers are forked
        self.providers = {cid: get_signature_provider(local_file_key=key) for cid, (_files, key) in CHAINS.items()}

    def make_cmd(self, d):
        C = self.C
        n = d[0]
        if n == "CmdNop":
            return C.CmdNop()
        if n == "CmdReset":
            return C.CmdReset()
        if n == "CmdCall":
            return C.CmdCall(d[1], d[2])
        if n == "CmdJump":
            return C.CmdJump(d[1], d[2], d[3])
        if n == "CmdErase":
            return C.CmdErase(address=d[1], length=d[2], flags=d[3], mem_id=d[4])
        if n == "CmdMemEnable":
            return C.CmdMemEnable(d[1], d[2], d[3])
        if n == "CmdProg":
            return C.CmdProg(address=d[1], mem_id=d[2], data_word1=d[3], data_word2=d[4])
        if n == "CmdVersionCheck":
            return C.CmdVersionCheck(C.VersionCheckType.from_tag(d[1]), d[2])
        if n in ("CmdKeyStoreRestore", "CmdKeyStoreBackup"):
            return getattr(C, n)(d[1], self.ExtMemId.from_tag(d[2]))
        if n == "CmdFill":
            return C.CmdFill(d[1], d[2]) if d[3] is None else C.CmdFill(d[1], d[2], d[3])
        if n == "CmdLoad":
            # (the constructor admits bytes and bytearray: both forms are handed over, chosen by the length of the data - a property of the case, not of the run)
            data = bytes.fromhex(d[2])
            return C.CmdLoad(address=d[1], data=bytearray(data) if len(data) % 3 == 1 else data, mem_id=d[3], zero_filling=d[4])
        raise Machinery(f"no constructor {n}")

    def make_section(self, s):
        return self.Section(s["uid"], *[self.make_cmd(c[1]) for c in s["cmds"]], hmac_count=s["hmacReq"], zero_filling=s["zero"])

    def build(self, g):
        """Builder input -> exported bytes, through the public classes only (or, for a configuration, through load_from_config)."""
        if g.get("cfg"):
            return self.build_cfg(g)
        return self.make_image(g).export(padding=bytes.fromhex(g["exp_pad"]) if g["exp_pad"] else None)

    def build_cfg(self, g):
        """Configuration lane: the same call sequence as `nxpimage sb21 export` after the BD / YAML file has been read."""
        d = os.path.join(scratch(), "c04cfg", str(g["idx"]))
        os.makedirs(d, exist_ok=True)
        conf = render_config(g, d)
        img = self.V21.load_from_config(
            config=conf, key_file_path=os.path.join(K21, "SBkek_PUF.txt"), signature_provider=self.providers["k0"],
            signing_certificate_file_paths=[CHAINS["k0"][0][0]], root_key_certificate_paths=[CHAINS["k0"][0][0]] + OTHER_ROOTS,
            rkth_out_path=os.path.join(d, "hash.bin"), search_paths=[d])
        return img.export()

    def make_image(self, g):
        """Builder input -> live image object, through the public classes only."""
        sections = [self.make_section(s) for s in g["secs"]]
        adv = self.Adv(dek=bytes.fromhex(g["dek"]), mac=bytes.fromhex(g["mac"]), nonce=bytes.fromhex(g["nonce"]),
                       timestamp=supplied_datetime(g), padding=bytes.fromhex(g["hdr_pad"]) if g["hdr_pad"] else None)
        ver = lambda v: ".".join(str(x) for x in v)  # noqa: E731
        kw = dict(product_version=ver(g["pv"]), component_version=ver(g["cv"]), build_number=g["build"], advanced_params=adv)
        kek = bytes.fromhex(g["kek"])
        if g["ver"] == "21":
            img = self.V21(kek, *sections, flags=0x8008 if g["sha"] else 0x0008, **kw)
        else:
            img = self.V20(g["ver"] == "20s", kek, *sections, **kw)
        if g["chain"] != "none":
            files, key = CHAINS[g["chain"]]
            cb = self.CertBlock()
            for f in files:
                cb.add_certificate(self.Certificate.load(f))
            slots = root_slots(g)
            paths = [None] * 4
            paths[g["root_idx"]] = files[0]
            others = [p for p, use in zip(OTHER_ROOTS, g["others"]) if use]
            for i in range(4):
                if paths[i] is None and others:
                    paths[i] = others.pop(0)
            for i in range(4):
                if slots[i] is not None:
                    cb.set_root_key_hash(i, self.Certificate.load(paths[i]) if g["rkh_as_cert"] else slots[i])
            img.cert_block = cb
            img.signature_provider = self.providers[g["chain"]]
        return img

    def parse(self, ver, data, kek):
        cls = self.V21 if ver == "21" else self.V20
        return cls.parse(data, kek=kek)

    def project_cmd(self, cmd):
        """Parsed command object -> abstract command (public attributes only)."""
        C = self.C
        t = type(cmd)
        try:
            if t is C.CmdNop:
                return acmd("nop")
            if t is C.CmdReset:
                return acmd("reset")
            if t is C.CmdLoad:
                return acmd("load", a=cmd.address, m=cmd.mem_id, d=cmd.data)
            if t is C.CmdFill:
                return acmd("fill", a=cmd.address, n=cmd.header.count, x=int.from_bytes(cmd.pattern, "big"), f=1)
            if t is C.CmdJump:
                return acmd("jump", a=cmd.address, x=cmd.argument, f=0 if cmd.spreg is None else 1, n=cmd.spreg or 0)
            if t is C.CmdCall:
                return acmd("call", a=cmd.address, x=cmd.argument)
            if t is C.CmdErase:
                return acmd("erase", a=cmd.address, n=cmd.length, f=cmd.flags & 3, m=cmd.mem_id)
            if t is C.CmdMemEnable:
                return acmd("enable", a=cmd.address, n=cmd.size, m=cmd.mem_id)
            if t is C.CmdProg:
                return acmd("prog", a=cmd.address, n=cmd.data_word1, x=cmd.data_word2, m=cmd.mem_id & 0xFF)
            if t is C.CmdVersionCheck:
                return acmd("vercheck", f=cmd.type.tag, n=cmd.version)
            if t is C.CmdKeyStoreRestore:
                return acmd("ks_to_nv", a=cmd.address, m=cmd.controller_id)
            if t is C.CmdKeyStoreBackup:
                return acmd("ks_from_nv", a=cmd.address, m=cmd.controller_id)
        except Exception as x:  # noqa: BLE001
            return acmd(f"unprojectable:{t.__name__}:{type(x).__name__}")
        return acmd(f"other:{t.__name__}")


class _Timeout(Exception):
    pass


def _alarm(_s, _f):
    raise _Timeout()


def observe_parse(sp, ver, data, kek):
    """SPSDK's parse() as second observer -> list of events (ParseOutcome, PField*, (PSection, PCmd*, PSectionEnd)*, PEnd)."""
    old = signal.signal(signal.SIGALRM, _alarm)
    signal.alarm(20)
    try:
        img = sp.parse(ver, data, kek)
    except _Timeout:
        return [{"ev": "ParseOutcome", "outcome": "timeout", "exc": ""}]
    except Exception as x:  # noqa: BLE001  the property only asks for an error
        return [{"ev": "ParseOutcome", "outcome": "raised", "exc": type(x).__name__}]
    finally:
        signal.alarm(0)
        signal.signal(signal.SIGALRM, old)
    evs = [{"ev": "ParseOutcome", "outcome": "returned", "exc": ""}]
    try:
        h = img.header

        def bcd(v):
            try:
                return [int(x) for x in str(v).split(".")]
            except Exception:  # noqa: BLE001
                return [-1, -1, -1]

        us = int(round((h.timestamp.timestamp() - EPOCH2000) * 1000000))
        sec_, us_ = divmod(us, 1000000)
        for name, got in (("product_version", bcd(h.product_version)), ("component_version", bcd(h.component_version)),
                          ("build_number", limbs(h.build_number)), ("timestamp", [sec_ >> 16, sec_ & 0xFFFF, us_]), ("flags", int(h.flags))):
            evs.append({"ev": "PField", "name": name, "got": got})
        n = 0
        for s in img:
            evs.append({"ev": "PSection", "uid": limbs(s.uid)})
            k = 0
            for c in s:
                evs.append({"ev": "PCmd", "c": sp.project_cmd(c)})
                k += 1
            evs.append({"ev": "PSectionEnd", "ncmds": k})
            n += 1
        evs.append({"ev": "PEnd", "nsec": n})
    except Exception as x:  # noqa: BLE001
        evs.append({"ev": "ProjectionFailed", "exc": f"{type(x).__name__}: {x}"[:100]})
    return evs


def with_markers(evs):
    """Insert the clause markers the trace spec asks for (one 'header field carries the supplied value' clause each)."""
    out = []
    for e in evs:
        out.append(e)
        if e["ev"] == "ParseHeader":
            out += [{"ev": "Field", "name": n} for n in ("version", "flags", "product_version", "component_version", "build_number", "timestamp", "nonce")]
        elif e["ev"] == "SectionTag" and not e.get("cert"):
            out += [{"ev": "Field", "name": n} for n in ("section_id", "hmac_count")]
    return out


def ref_of(evs):
    """What the executor decoded, as reference content for the second observer."""
    h = evs[0]
    ref = {"pv": h["pv"], "cv": h["cv"], "build": h["build"], "ts": h["ts"], "flags": h["flags"], "secs": []}
    for e in evs:
        if e["ev"] == "SectionTag" and not e.get("cert"):
            ref["secs"].append({"uid": e["uid"], "cmds": []})
        elif e["ev"] == "Cmd":
            ref["secs"][-1]["cmds"].append({k: e[k] for k in ("tag", "flags", "addr", "cnt", "dat", "payload", "payloadLen")})
    return ref


def regions(data, evs):
    """Byte ranges of the file by field class, derived from the executor's walk of the clean file: {class: [(lo, hi), ...]}."""
    h = evs[0]
    reg = {"header": [(0, 96)], "header_mac": [(96, 128)], "key_blob": [(128, 200)]}
    signed = h["flags"] & 8
    if signed:
        reg["key_blob_filler"] = [(200, 208)]      # covered by the signature in signed files
    else:
        reg["dontcare_filler"] = [(200, 208)]      # unsigned SB 2.0: filler behind the wrapped keys, covered by nothing
    for e in evs:
        if e["ev"] == "ParseCertBlock":
            reg.setdefault("cert_block", []).append((e["at"], e["endOff"]))
        elif e["ev"] == "CheckSha":
            reg["sha"] = [(e["at"], e["at"] + 32)]
        elif e["ev"] == "VerifySignature":
            reg["signature"] = [(e["sigAt"], e["sigAt"] + e["sigLen"])]
        elif e["ev"] == "SectionTag":
            c = "cert_section_tag" if e.get("cert") else "section_tag"
            reg.setdefault(c, []).append((e["at"] * 16, e["at"] * 16 + 16))
            reg.setdefault("tag_hmac", []).append((e["at"] * 16 + 16, e["at"] * 16 + 48))
        elif e["ev"] == "SectionHmac":
            reg.setdefault("hmac_table", []).append((e["entryAt"] * 16, e["entryAt"] * 16 + 32))
            if e["sec"] >= 0:
                reg.setdefault("section_body", []).append((e["firstBlk"] * 16, (e["firstBlk"] + e["nBlk"]) * 16))
    return reg


def bounds_of(evs):
    """The structural boundaries (block positions) of a walked file - the driver's copy of Sb2Rom!BoundsOf.  TLC re-computes the set from the
    events it consumed and checks that the driver cut at every one of them (clause CutsOk of the trace form)."""
    b = set()
    for e in evs:
        k = e["ev"]
        if k == "ParseHeader":
            b |= {0, e["hdrBlocks"], e["kbBlock"], e["kbBlock"] + e["kbCount"], e["imageBlocks"]}
        elif k == "CheckHeaderMac":
            b |= {e["over"][0] // 16, e["over"][1] // 16}
        elif k == "ParseCertBlock":
            b |= {e["at"] // 16, e["endOff"] // 16}
        elif k == "CheckSha":
            b |= {e["at"] // 16, e["at"] // 16 + 2}
        elif k == "VerifySignature":
            b |= {e["sigAt"] // 16, (e["sigAt"] + e["sigLen"]) // 16}
        elif k == "SectionTag":
            b |= {e["at"], e["at"] + 1, e["at"] + 3}
        elif k == "SectionHmac":
            b |= {e["entryAt"], e["entryAt"] + 2, e["firstBlk"], e["firstBlk"] + e["nBlk"]}
        elif k == "Cmd":
            b |= {e["at"], e["at"] + 1, e["at"] + e["nBlk"]}
        elif k == "SectionEnd":
            b.add(e["next"])
    return b


def where_is(pos, reg, n):
    """Name of a cut position for finding keys: behind which part of the file it lies, or inside which."""
    if pos == 0:
        return "empty-file"
    behind = sorted(c for c, spans in reg.items() for lo, hi in spans if hi == pos)
    if behind:
        return "behind-" + behind[-1]
    inside = sorted(c for c, spans in reg.items() for lo, hi in spans if lo < pos < hi)
    return "inside-" + (inside[-1] if inside else "file")


def length_variants(data, evs, reg, mode, r):
    """Corruption classes TRUNCATION and EXTENSION of one walked file.  mode "all": a cut at every structural boundary and inside every part
    (one block-aligned, one not); mode n: n boundaries, one aligned and one unaligned interior cut (seeded).  Appended: one byte, one block,
    a whole copy of the last boot section (a replay), zeros.  -> (cut positions, [(class, where, bytes)])"""
    n = len(data)
    bnd = sorted(16 * b for b in bounds_of(evs) if 0 <= 16 * b < n)
    spans = sorted({(lo, hi) for sp in reg.values() for lo, hi in sp if hi <= n})
    inside = []
    for lo, hi in spans:
        if hi - lo > 16:
            inside.append(lo + 16 * r.randrange(1, (hi - lo) // 16))
        pos = r.randrange(lo + 1, hi)
        inside.append(pos if pos % 16 else pos - 1)
    if mode == "all":
        cuts = sorted(set(bnd) | set(inside))
    else:
        al, un = [c for c in inside if c % 16 == 0], [c for c in inside if c % 16]
        cuts = sorted(set(r.sample(bnd, min(mode, len(bnd))) + r.sample(al, min(1, len(al))) + r.sample(un, 1)))
    out = [("truncated", where_is(c, reg, n), data[:c]) for c in cuts]
    last = max((lo for lo, hi in reg.get("section_tag", [(0, 0)])), default=0)
    tails = [("1-byte", bytes([r.getrandbits(8)])), ("1-block", bytes(r.getrandbits(8) for _ in range(16))), ("last-section-again", data[last:] if last else b"\0" * 32),
             ("zeros", bytes(48))]
    if mode != "all":
        tails = r.sample(tails, 1)
    out += [("extended", name, data + tail) for name, tail in tails]
    return cuts, out


def mk_trace(tid, kind, mode, ev, given=None, ref=None, **extra):
    t = {"id": tid, "kind": kind, "mode": mode, "given": given or {}, "ref": ref or {}, "ev": ev}
    t.update(extra)
    return t


def process(sp, job):
    """One file: build through SPSDK, walk with the executor, parse with SPSDK, tamper. Runs in a worker process."""
    with local_zone(job["g"]["tsc"]["zone"] if job["g"].get("tsc") else 0):
        return _process(sp, job)


def _process(sp, job):
    g, tamper_n, all_bits, cut_mode = job["g"], job["tamper"], job.get("all_bits"), job.get("cuts")
    r = rng(PROP, "proc", g["idx"])
    idx, ver = g["idx"], g["ver"]
    out = {"idx": idx, "traces": [], "build": "ok", "len": 0}
    given = given_record(g)
    try:
        data = sp.build(g)
    except Exception as x:  # noqa: BLE001
        out["build"] = f"{type(x).__name__}: {x}"[:200]
        # a builder that refuses an in-domain input produced no file the ROM could accept
        out["traces"].append(mk_trace(f"rom-{idx}", "rom", "clean", [{"ev": "BuildFailed", "exc": out["build"]}], given=given, idx=idx, ver=ver))
        return out
    out["len"] = len(data)
    out["sha"] = hashlib.sha256(data).hexdigest()[:16]
    kek = bytes.fromhex(g["kek"])
    evs = rom.run(data, kek, max_payload_log=job.get("max_payload", 4096))
    walked = evs[-1]["ev"] == "Accept"
    ref = ref_of(evs) if walked else None
    lv = []
    if walked and cut_mode:
        cuts, lv = length_variants(data, evs, regions(data, evs), cut_mode, rng(PROP, "cuts", idx))
        if cut_mode == "all":      # the trace form checks that no structural boundary was left out
            given = dict(given, cuts=cuts)
    out["traces"].append(mk_trace(f"rom-{idx}", "rom", "clean", with_markers(evs), given=given, idx=idx, ver=ver))
    if ref is not None:
        out["traces"].append(mk_trace(f"parse-{idx}", "parse", "clean", observe_parse(sp, ver, data, kek), ref=ref, idx=idx, ver=ver))

    def slim(pev):      # the reference content is only looked at when parse() returned something
        return ref if pev[0]["outcome"] == "returned" else {}

    # TRUNCATION / EXTENSION: the automaton alone must refuse the file (kind "anchor": no builder input is needed for that), parse() must raise
    # or return the reference content
    for c, where, d2 in lv:
        tid = f"{idx}@{c}@{where}@{len(d2)}"
        out["traces"].append(mk_trace("tamper-rom-" + tid, "anchor", "tamper", rom.run(d2, kek, max_payload_log=0), idx=idx, ver=ver, cls=f"{c}/{where}", of=f"rom-{idx}"))
        pev = observe_parse(sp, ver, d2, kek)
        out["traces"].append(mk_trace("tamper-parse-" + tid, "parse", "tamper", pev, ref=slim(pev), idx=idx, ver=ver, cls=f"{c}/{where}", of=f"parse-{idx}"))
    if walked and (tamper_n or all_bits):
        reg = regions(data, evs)
        if all_bits:
            flips = [(c, p, b) for c, spans in sorted(reg.items()) for lo, hi in spans for p in range(lo, hi) for b in range(8)]
            flips = flips[all_bits[0]::all_bits[1]]
        else:
            flips = []
            for c, spans in sorted(reg.items()):
                for _ in range(tamper_n):
                    lo, hi = r.choice(spans)
                    flips.append((c, r.randrange(lo, hi), r.randrange(8)))
        variants = []
        for c, p, b in flips:
            d2 = bytearray(data)
            d2[p] ^= 1 << b
            variants.append((c, p, b, bytes(d2)))
        # CTR malleability: change one address bit of a command AND repair the command's checksum byte in the ciphertext, so that only the
        # section HMAC stands between the forged command and the loader
        cmds = [e for e in evs if e["ev"] == "Cmd"]
        for e in r.sample(cmds, min(len(cmds), 2 if not all_bits else len(cmds))):
            import struct

            pt = bytearray(struct.pack("<2BH3L", 0, e["tag"], e["flags"], e["addr"][0] << 16 | e["addr"][1], e["cnt"][0] << 16 | e["cnt"][1],
                                       e["dat"][0] << 16 | e["dat"][1]))
            pt[0] = rom._chk(pt)
            j, b = 4 + r.randrange(4), r.randrange(8)
            pt2 = bytearray(pt)
            pt2[j] ^= 1 << b
            pt2[0] = rom._chk(pt2)
            d2 = bytearray(data)
            for k in range(16):
                d2[e["at"] * 16 + k] ^= pt[k] ^ pt2[k]
            variants.append(("forged_command", e["at"] * 16 + j, b, bytes(d2)))
        for c, p, b, d2 in variants:
            tid = f"{idx}@{c}@{p}.{b}"
            out["traces"].append(mk_trace("tamper-rom-" + tid, "rom", "tamper", with_markers(rom.run(d2, kek)), given=given, idx=idx, ver=ver, cls=c,
                                          of=f"rom-{idx}"))
            if not all_bits or c == "forged_command" or r.random() < 0.05:
                pev = observe_parse(sp, ver, d2, kek)
                out["traces"].append(mk_trace("tamper-parse-" + tid, "parse", "tamper", pev, ref=slim(pev), idx=idx, ver=ver, cls=c, of=f"parse-{idx}"))
        # wrong KEK: one flipped bit, and an unrelated key
        for name, k2 in (("bit", bytes([kek[0] ^ (1 << r.randrange(8))]) + kek[1:]), ("other", bytes(r.getrandbits(8) for _ in range(32)))):
            tid = f"{idx}@kek-{name}"
            out["traces"].append(mk_trace("wrongkek-rom-" + tid, "rom", "wrongkek", with_markers(rom.run(data, k2)), given=given, idx=idx, ver=ver, cls="kek",
                                          of=f"rom-{idx}"))
            pev = observe_parse(sp, ver, data, k2)
            out["traces"].append(mk_trace("wrongkek-parse-" + tid, "parse", "wrongkek", pev, ref=slim(pev), idx=idx, ver=ver, cls="kek", of=f"parse-{idx}"))
    return out


# ------------------------------------------------------------------ verdict helpers
TV_KEYS = ("id", "kind", "mode", "given", "ref", "ev")


def _strip(t):
    return {k: t[k] for k in TV_KEYS}


def vname(g_or_ver):
    return {"21": "v2.1", "20s": "v2.0-signed", "20u": "v2.0-unsigned"}[g_or_ver]


def key_of(t, matched, ver, g=None):
    ev = t["ev"][min(matched, len(t["ev"]) - 1)]
    k = ev["ev"]
    if t["kind"] == "rom":
        if k == "Field":
            return f"C04/{'section' if ev['name'] in ('section_id', 'hmac_count') else 'header'}/{ev['name']}"
        if k == "Cmd":
            secs = t["given"]["secs"]
            s, i = ev.get("sec", 0), ev.get("i", 0)
            kind = secs[s]["cmds"][i]["k"] if 0 <= s < len(secs) and i < len(secs[s]["cmds"]) else "extra-command"
            labs = g["secs"][s].get("labs") if g and 0 <= s < len(g["secs"]) else None
            lab = labs[i] if labs and i < len(labs) and kind != "extra-command" else None      # operand / configuration lane: the case that failed
            if lab and lab.startswith("config/"):
                return f"C04/{lab}/cmd/{kind}"
            return f"C04/cmd/{kind}" + (f"/{lab}" if lab else "")
        if k == "BuildFailed":
            if g and g.get("cfg"):
                labs = [lab for s in g["secs"] for lab in s["labs"]]
                if len(labs) == 1:       # a configuration taken apart: the statement that is refused
                    return f"C04/{labs[0]}/build/{ev['exc'].split(':')[0]}"
                return f"C04/config/build/{ev['exc'].split(':')[0]}"
            return f"C04/build/{vname(ver)}/{ev['exc'].split(':')[0]}"
        return f"C04/rom/{vname(ver)}/{k}"
    mode = "" if t["mode"] == "clean" else f"{t['mode']}/"
    if k == "ParseOutcome":
        return f"C04/parse/{vname(ver)}/{mode}{ev['outcome']}" + (f":{ev['exc']}" if ev["exc"] else "")
    if k == "PField":
        return f"C04/parse/{vname(ver)}/{mode}field/{ev['name']}"
    if k == "PCmd":
        return f"C04/parse/{vname(ver)}/{mode}cmd/{ev['c']['k']}"
    if k == "PEnd":
        n_ref = len(t["ref"]["secs"])
        return f"C04/parse/{vname(ver)}/{mode}" + ("sections-dropped" if ev["nsec"] < n_ref else "sections-extra")
    return f"C04/parse/{vname(ver)}/{mode}{k}"


def soft_key(t, name):
    """Finding key of a failed soft clause (the numbers in it are read from the trace for NAMING only - the clause was evaluated by TLC)."""
    ver = t["ver"]
    h = t["ev"][0]
    if name in ("image_blocks", "first_boot_tag_block"):
        sha = "+sha" if h.get("flags", 0) & 0x8000 else ""
        if name == "image_blocks":
            delta = h["imageBlocks"] - h["fileBlocks"]
        else:
            sig = next((e for e in t["ev"] if e["ev"] == "VerifySignature"), None)
            delta = h["firstTag"] - (sig["sigAt"] + sig["sigLen"]) // 16 if sig else 0
        return f"C04/header/{name}/{vname(ver)}{sha}/{delta:+d}"
    if name.startswith("parse:"):
        mode = "" if t["mode"] == "clean" else f"{t['mode']}/"
        return f"C04/parse/{vname(ver)}/{mode}field/{name[6:]}"
    if name == "timestamp" and t.get("given", {}).get("tsc"):
        return f"C04/header/timestamp/{time_label(t['given']['tsc'])}"
    return f"C04/{'section' if name in ('section_id', 'hmac_count') else 'header'}/{name}"


_pool = None
_base = [0]


def pool():
    """TLC runs that may overlap are started from forked children: every child numbers its TLC scratch files from its own base."""
    global _pool
    if _pool is None:
        scratch()
        _pool = ProcessPoolExecutor(max_workers=10, mp_context=mp.get_context("fork"))
    return _pool


def _child(base, fn, *args):
    tlc._counter[0] = base
    return fn(*args)


def submit(fn, *args):
    _base[0] += 1000
    return pool().submit(_child, _base[0], fn, *args)


def _tv_chunk(chunk, heap, timeout):
    rej, res = tlc.tv("C04", "Sb2RomTrace", chunk, heap=heap, timeout=timeout)
    return rej, res.tuples("SOFT")


def validate(traces, heap="6g", timeout=1500, chunk=None):
    """Batch TV (chunks of `chunk` traces, up to 4 TLC runs side by side).
    -> (rej: {id: (matched, length, evname)} traces not consumed to their end (a HARD clause failed at that event),
        soft: {id: [names]} soft clauses TLC evaluated to FALSE)"""
    return validate_end(validate_start(traces, heap, timeout, chunk))


def validate_start(traces, heap="6g", timeout=1500, chunk=None, parts=3):
    if not traces:
        return [], []
    chunk = chunk or min(6000, max(300, -(-len(traces) // parts)))
    ids = [t["id"] for t in traces]
    numbered = [dict(_strip(t), id=i) for i, t in enumerate(traces)]
    return ids, [submit(_tv_chunk, numbered[k:k + chunk], heap, timeout) for k in range(0, len(numbered), chunk)]


def validate_end(handle):
    ids, futs = handle
    rej, soft = {}, {}
    for f in futs:
        rej_n, soft_n = f.result()
        rej.update({ids[i]: x for i, x in rej_n.items()})
        for i, name in soft_n:
            soft.setdefault(ids[i], []).append(name)
    return rej, {k: sorted(x) for k, x in soft.items()}


def anchors():
    """The golden files of the reference tool (elftosb), walked by the executor: the automaton must accept every one of them."""
    tr = []
    for fn in sorted(os.listdir(ANCHORS)):
        if fn.endswith(".sb2") or fn.endswith(".bin"):
            data = open(os.path.join(ANCHORS, fn), "rb").read()
            kek = bytes.fromhex(open(os.path.join(K21, "SBkek_PUF.txt")).read().strip()) if fn.startswith("legacy_") else ANCHOR_KEK
            tr.append(mk_trace("anchor-" + fn, "anchor", "clean", rom.run(data, kek, max_payload_log=0), ver="21"))
    if len(tr) < 12:
        raise Machinery("anchor files missing")
    return tr


def canary(v):
    """Known-good traces (goldens of the reference tool - independent of the tree under test) must be accepted, the same traces with one
    corrupted field must be rejected."""
    tr = anchors()
    good_ids = [t["id"] for t in tr]
    name = "expected_sb2_1_newcommands_signed2048.sb2"
    src = mk_trace("src", "anchor", "clean", rom.run(open(os.path.join(ANCHORS, name), "rb").read(), ANCHOR_KEK), ver="21")
    bad = []

    def ev_of(t, name):
        return next(e for e in t["ev"] if e["ev"] == name)

    def corrupt(name, fn):
        t = json.loads(json.dumps(src))
        t["id"] = "canary-" + name
        fn(t)
        bad.append(t)

    corrupt("hmac-range", lambda t: ev_of(t, "SectionHmac").__setitem__("firstBlk", ev_of(t, "SectionHmac")["firstBlk"] + 1))
    corrupt("sig-false", lambda t: ev_of(t, "VerifySignature").__setitem__("ok", False))
    corrupt("ctr-offset", lambda t: ev_of(t, "SectionTag").__setitem__("ctrOff", ev_of(t, "SectionTag")["ctrOff"] + 1))
    corrupt("skipped-check", lambda t: t["ev"].remove(ev_of(t, "CheckHeaderMac")))
    corrupt("image-blocks", lambda t: ev_of(t, "ParseHeader").__setitem__("imageBlocks", ev_of(t, "ParseHeader")["imageBlocks"] - 1))
    # bound canary: the same golden with the builder input of the repository's test that produced it
    evs = src["ev"]
    load = next(e for e in evs if e["ev"] == "Cmd" and e["tag"] == 2)
    cert = ev_of(src, "ParseCertBlock")
    given = {"ver": 1, "flags": 8, "pv": [1, 0, 0], "cv": [1, 0, 0], "build": [0, 1],
             "tsc": {"form": "naive", "off": 0, "days": 633744000 // 86400, "sod": 633744000 % 86400, "us": 0, "zone": 0}, "nonceCtr": [0, 0],
             "sigLen": 256, "chain": 1, "rootIdx": 0, "rkth": cert["rkth"], "nonce": evs[0]["nonce"], "keys": ev_of(src, "UnwrapKeyBlob")["keys"],
             "secs": [{"uid": [0, 0], "hmacReq": 1, "cmds": [
                 acmd("vercheck", f=0, n=0x16), acmd("vercheck", f=1, n=15263), acmd("erase", a=0, n=0x2800),
                 acmd("load", a=0, d=bytes(load["payload"])), acmd("ks_from_nv", a=0x12345678, m=3), acmd("ks_to_nv", a=0x12345678, m=3), acmd("reset")]}]}
    bound = mk_trace("canary-bound-good", "rom", "clean", with_markers(evs), given=given, ver="21")

    def variant(base, tid, fn):
        t = json.loads(json.dumps(base))
        t["id"] = tid
        fn(t)
        return t

    b2 = variant(bound, "canary-bound-addr", lambda t: t["given"]["secs"][0]["cmds"][4].__setitem__("a", limbs(0x12345679)))
    b3 = variant(bound, "canary-bound-data", lambda t: t["given"]["secs"][0]["cmds"][3]["d"].__setitem__(5, t["given"]["secs"][0]["cmds"][3]["d"][5] ^ 1))
    b4 = variant(bound, "canary-bound-cv", lambda t: t["given"].__setitem__("cv", [4, 5, 6]))
    b5 = variant(bound, "canary-bound-hmacreq", lambda t: t["given"]["secs"][0].__setitem__("hmacReq", 2))
    b6 = variant(bound, "canary-bound-keys", lambda t: t["given"].__setitem__("keys", "00" * 16))
    b7 = variant(bound, "canary-bound-mem", lambda t: t["given"]["secs"][0]["cmds"][3].__setitem__("m", [1, 32]))     # the load was asked to go to the SD card
    # time-stamp canary (the golden carries 2020-01-31 00:00:00 UTC): the same instant written with an offset is accepted; the same DIGITS with an
    # offset are another instant (a builder that drops the zone information); a naive value in a process whose zone is not UTC is not asserted
    def tsc(**kw):
        return lambda t: t["given"].__setitem__("tsc", dict(t["given"]["tsc"], **kw))

    t_good = [variant(bound, "canary-time-aware-same-instant", tsc(form="aware", off=330, sod=19800)),
              variant(bound, "canary-time-aware-west", tsc(form="aware", off=-480, days=633744000 // 86400 - 1, sod=57600, zone=330)),
              variant(bound, "canary-time-microseconds", tsc(us=999999))]
    t_bad = [variant(bound, "canary-time-zone-dropped", tsc(form="aware", off=330)),
             variant(bound, "canary-time-converted-with-the-local-zone", tsc(form="aware", off=-480, days=633744000 // 86400 - 1, sod=57600 + 60)),
             variant(bound, "canary-time-naive-elsewhere", tsc(zone=330))]
    # truncation canary: goldens of the reference tool (SB 2.0 unsigned / signed, SB 2.1) cut at EVERY structural boundary, and extended by one
    # block: the automaton alone must refuse every variant; and the clause that no boundary was left out (CutsOk) must tell a complete list
    # of cuts from one with a boundary missing
    cut_tr = []
    for fn in ("expected_sb2_0_simple_unsigned.sb2", "expected_sb2_0_advanced_signed2048.sb2", "expected_sb2_1_advanced_signed2048.sb2"):
        data = open(os.path.join(ANCHORS, fn), "rb").read()
        walk = rom.run(data, ANCHOR_KEK, max_payload_log=0)
        for c in sorted(16 * b for b in bounds_of(walk) if 16 * b < len(data)):
            cut_tr.append(mk_trace(f"canary-cut-{fn[13:-4]}@{c}", "anchor", "tamper", rom.run(data[:c], ANCHOR_KEK, max_payload_log=0), ver="21"))
        cut_tr.append(mk_trace(f"canary-ext-{fn[13:-4]}", "anchor", "tamper", rom.run(data + bytes(16), ANCHOR_KEK, max_payload_log=0), ver="21"))
    if len(cut_tr) < 40:
        raise Machinery("canary: the goldens have fewer structural boundaries than expected")
    all_cuts = sorted(16 * b for b in bounds_of(evs))
    c_good = variant(bound, "canary-cuts-complete", lambda t: t["given"].__setitem__("cuts", all_cuts[:-1] + [7, 100]))       # (the last boundary is the end of the file)
    c_bad = variant(bound, "canary-cuts-one-boundary-missing", lambda t: t["given"].__setitem__("cuts", all_cuts[:5] + all_cuts[6:-1]))
    # history canary: the golden as two exports of one object with queries in between; then the same with a header field that accumulated,
    # with a mutator the second file does not reflect, with a changed section id the second file does not carry
    marked = with_markers(evs)
    hist_ev = [{"ev": "HDescribe"}, {"ev": "HExport"}] + marked + [{"ev": "HUpdate"}, {"ev": "HExport"}] + marked
    hg = mk_trace("canary-hist-good", "hist", "clean", hist_ev, given=given, ver="21")
    second = 3 + len(marked)              # index of the second HExport

    def acc(t):
        t["ev"][second + 1]["maxMac"] *= 2

    h2 = variant(hg, "canary-hist-accumulated", acc)
    h3 = variant(hg, "canary-hist-stale-content", lambda t: t["ev"].insert(second, {"ev": "HAppendCmd", "c": acmd("reset")}))
    h4 = variant(hg, "canary-hist-stale-id", lambda t: t["ev"].insert(second, {"ev": "HSetUid", "uid": [0, 9]}))
    h5 = variant(hg, "canary-hist-export-inside-file", lambda t: t["ev"].insert(second + 3, {"ev": "HExport"}))
    # ownership canary: the golden as the export of an object whose LOAD command was made from a caller-owned buffer that its owner modified
    # afterwards (accepted: the file carries what the buffer held when the command was made); the same file as a builder that kept a reference
    # would have produced it (the file carries what the buffer holds at the export), as a builder that copied when the command was put into the
    # section would have; a modification outside the buffer
    cmds7 = given["secs"][0]["cmds"]
    pay = list(bytes(load["payload"]))
    before = pay[:5] + [pay[5] ^ 1] + pay[6:]
    og = dict(given, secs=[dict(given["secs"][0], cmds=cmds7[:3])])
    o_make, o_put = {"ev": "HMake", "buf": 1, "form": "buf", "a": [0, 0], "m": [0, 0]}, {"ev": "HPut", "obj": 1, "place": "append", "uid": [0, 0], "hmacReq": 0}
    o_rest = [{"ev": "HAppendCmd", "c": c} for c in cmds7[4:]]

    def own_trace(tid, content, touches, late=False):
        head = [{"ev": "HBuf", "content": content}, o_make] + (touches + [o_put] if late else [o_put]) + o_rest + ([] if late else touches)
        return mk_trace(tid, "hist", "clean", head + [{"ev": "HExport"}] + marked, given=og, ver="21")

    def touch(kind, at, new):
        return {"ev": "HTouch", "buf": 1, "kind": kind, "at": at, "bytes": new}

    o_good = [own_trace("canary-own-good", pay, [touch("poke", 5, [pay[5] ^ 1])]),
              own_trace("canary-own-good-resized", pay, [touch("shrink", 3, []), touch("grow", 0, [1, 2, 3]), touch("poke", 4, [9, 9])]),
              own_trace("canary-own-good-touched-before-made", before, [])]
    o_good[2]["ev"].insert(1, touch("poke", 5, [pay[5]]))
    o_bad = [own_trace("canary-own-file-carries-the-buffer-at-export", before, [touch("poke", 5, [pay[5]])]),
             own_trace("canary-own-file-carries-the-buffer-at-put", before, [touch("poke", 5, [pay[5]])], late=True),
             own_trace("canary-own-touch-outside-the-buffer", pay, [touch("poke", len(pay), [1])]),
             own_trace("canary-own-file-carries-the-shrunk-buffer", pay + [7] * 16, [touch("shrink", len(pay), [])])]
    # second observer canary
    ref = ref_of(evs)
    pev = [{"ev": "ParseOutcome", "outcome": "returned", "exc": ""}, {"ev": "PField", "name": "product_version", "got": [1, 0, 0]},
           {"ev": "PSection", "uid": [0, 0]}] + [{"ev": "PCmd", "c": c} for c in given["secs"][0]["cmds"]] + [{"ev": "PSectionEnd", "ncmds": 7}, {"ev": "PEnd", "nsec": 1}]
    pg = mk_trace("canary-parse-good", "parse", "clean", pev, ref=ref, ver="21")
    pb = variant(pg, "canary-parse-cmd", lambda t: t["ev"][5]["c"].__setitem__("n", limbs(0x2801)))
    pr = mk_trace("canary-parse-raised-clean", "parse", "clean", [{"ev": "ParseOutcome", "outcome": "raised", "exc": "X"}], ref=ref, ver="21")
    pt = mk_trace("canary-parse-raised-tamper", "parse", "tamper", [{"ev": "ParseOutcome", "outcome": "raised", "exc": "X"}], ref=ref, ver="21")
    pd = variant(pb, "canary-parse-tamper-different", lambda t: t.__setitem__("mode", "tamper"))
    # a truncated file parsed "successfully" into fewer sections
    pf = mk_trace("canary-parse-truncated-fewer-sections", "parse", "tamper", [pev[0], pev[1], {"ev": "PEnd", "nsec": 0}], ref=ref, ver="21")
    allt = tr + bad + [bound, b2, b3, b4, b5, b6, b7, pg, pb, pr, pt, pd, pf, hg, h2, h3, h4, h5] + t_good + t_bad + cut_tr + [c_good, c_bad] + o_good + o_bad
    if hg["ev"][second]["ev"] != "HExport" or hg["ev"][second + 1]["ev"] != "ParseHeader":
        raise Machinery("canary: history trace not laid out as expected")
    rej, soft = validate(allt)
    if any(i in soft for i in good_ids):
        raise Machinery(f"canary failed: a golden file of the reference tool fails a soft clause: { {i: soft[i] for i in good_ids if i in soft} }")
    if (soft.get("canary-bound-cv") != ["component_version"] or soft.get("canary-bound-hmacreq") != ["hmac_count"] or "canary-image-blocks" not in soft
            or soft.get("canary-hist-stale-id") != ["section_id@2"]):
        raise Machinery(f"canary failed: soft clauses not reported as expected: {soft}")
    if any(soft.get(t["id"]) != ["timestamp"] for t in t_bad) or any(t["id"] in soft for t in t_good):
        raise Machinery(f"canary failed: time-stamp clause not decided as expected: { {t['id']: soft.get(t['id']) for t in t_good + t_bad} }")
    if soft.get("canary-cuts-one-boundary-missing") != ["cuts"] or "canary-cuts-complete" in soft:
        raise Machinery(f"canary failed: clause CutsOk not decided as expected: {soft.get('canary-cuts-complete')} {soft.get('canary-cuts-one-boundary-missing')}")
    rej = dict(rej)
    for i in ["canary-bound-cv", "canary-bound-hmacreq", "canary-image-blocks", "canary-hist-stale-id", "canary-cuts-one-boundary-missing"] + [t["id"] for t in t_bad + cut_tr]:
        if i in soft:
            rej.setdefault(i, (0, 0, "soft:" + "+".join(soft[i])))
    must_accept = set(good_ids) | {"canary-bound-good", "canary-parse-good", "canary-parse-raised-tamper", "canary-hist-good", "canary-cuts-complete"} | {t["id"] for t in t_good + o_good}
    must_reject = {t["id"] for t in bad} | {"canary-bound-addr", "canary-bound-data", "canary-bound-cv", "canary-bound-hmacreq", "canary-bound-keys", "canary-parse-cmd",
                                            "canary-parse-raised-clean", "canary-parse-tamper-different", "canary-bound-mem", "canary-hist-accumulated",
                                            "canary-hist-stale-content", "canary-hist-stale-id", "canary-hist-export-inside-file",
                                            "canary-parse-truncated-fewer-sections", "canary-cuts-one-boundary-missing"} | {t["id"] for t in t_bad + cut_tr + o_bad}
    if (must_accept & set(rej)) or (must_reject - set(rej)):
        raise Machinery(f"canary failed: wrongly rejected {[(i, rej[i]) for i in sorted(must_accept & set(rej))]}, "
                        f"wrongly accepted {sorted(must_reject - set(rej))}")
    v.extra["canary"] = (f"{len(good_ids)} golden files of the reference tool (SB 2.0 signed / unsigned, SB 2.1 with and without SHA-256) accepted by the "
                         "automaton; rejected as required: " + ", ".join(f"{i[7:]}@{rej[i][2]}" for i in sorted(must_reject) if not i.startswith(("canary-cut-", "canary-ext-")))
                         + f"; {len(cut_tr)} truncated / extended goldens (cut at every structural boundary) refused by the automaton")
    v.traces(len(good_ids))
    v.count(len(allt))


# ------------------------------------------------------------------ run
MC_ACTIONS = ("DoParseHeader", "DoUnwrap", "DoHdrMac20", "DoHdrMac21", "DoCert21", "DoCert20", "DoSig21", "DoSig20", "DoSha", "DoTag", "DoHmac", "DoCmd",
              "DoSectionEnd", "DoAccept")


CONFIGS = {"quick": ["", "_3sec", "_1sec"], "thorough": ["", "_3sec", "_1sec", "_t0", "_t1", "_t2"]}


def mc_all(names):
    """The MC runs (lemmas over every shape of each constant set) - in child processes, the Python side only needs them at the end."""
    out = []
    for name in names:
        big = name in ("_t0", "_t1", "_t2")
        r = tlc.mc("C04", "Sb2RomMC", f"Sb2RomMC{name}.cfg", workers=16 if big else 4, heap="24g" if big else "6g", timeout=2400 if big else 500,
                   require_actions=MC_ACTIONS)
        r.out = r.out[-4000:]
        out.append(r)
    return out


def _gen_one(name):
    g = tlc.run("C04", "Sb2RomMC", f"Sb2RomGen{name}.cfg", workers=1, deadlock=False, heap="6g", timeout=600)
    got = g.json_prints()
    if len(got) != g.distinct or len(got) < 100:
        raise Machinery(f"GEN Sb2RomGen{name}: {len(got)} shapes printed, {g.distinct} initial states")
    return got


def gen_all_child(tier):
    """GEN: TLC enumerates the shape space of every constant set (initial states of GenInit). -> (shapes, [count per config])"""
    shapes, counts = [], []
    for k, name in enumerate(CONFIGS[tier]):
        tlc._counter[0] += 10 * k
        got = _gen_one(name)
        counts.append(len(got))
        shapes += got
    return shapes, counts


def operand_cases(tier):
    """MC + GEN of the operand case space (Sb2OperandsMC): lemmas over every case, every case emitted. -> (cases, TlcResult)"""
    res = tlc.mc("C04", "Sb2OperandsMC", "Sb2OperandsMC.cfg" if tier == "quick" else "Sb2OperandsMC_t.cfg", workers=1, coverage=False, heap="4g", timeout=600)
    cases = res.json_prints()
    if len(cases) != res.distinct or len(cases) < 700:
        raise Machinery(f"Sb2OperandsMC: {len(cases)} cases emitted, {res.distinct} initial states")
    res.out = res.out[-3000:]
    return cases, res


HIST_ACTIONS = ("DoExport", "DoDescribe", "DoUpdate", "DoAddSection", "DoAppendCmd", "DoReplaceCmd", "DoSetUid")


def hist_gen(tier):
    """MC + GEN of the history space (Sb2Hist): lemmas over every history, every history that ends in an export emitted; and the refutation run:
    the variant whose cache accumulates must violate ExportDescribes (the space reaches that class). -> (histories, TlcResult)"""
    res = tlc.mc("C04", "Sb2Hist", "Sb2HistGen.cfg" if tier == "quick" else "Sb2HistGen_t.cfg", workers=1, heap="4g", timeout=900, deadlock=False,
                 require_actions=HIST_ACTIONS)
    hists = res.json_prints()
    # (TLC prints an interim coverage report every minute of a run; the counters of the LAST report are the ones of the complete run)
    import re
    fired = re.findall(r"^<DoExport line [^>]*>: (\d+):\d+", res.out.rsplit("The coverage statistics at", 1)[-1], re.M)
    if [str(len(hists))] != fired or len(hists) < 1000:
        raise Machinery(f"Sb2Hist: {len(hists)} histories emitted, Export fired {fired} (all reports: {res.coverage.get('DoExport')})")
    res.out = res.out[-3000:]
    ref = tlc.run("C04", "Sb2Hist", "Sb2HistRefute.cfg", workers=1, deadlock=False, heap="2g", timeout=300)
    if ref.violated != "ExportDescribes":
        raise Machinery(f"Sb2Hist refutation run: the accumulating variant was not refuted ({ref.violated})")
    return hists, res


OWN_ACTIONS = ("DoMake", "DoPut", "DoTouch", "DoQuery", "DoExport")


def own_gen(tier):
    """MC + GEN of the ownership histories (Sb2Own): lemmas over every history, every history that hands over a command and ends in an export
    emitted; and the refutation runs: a builder that keeps a reference to the caller's buffer, and one that copies only when the command is put
    into a section, must both violate ExportCarriesGiven (the space reaches those classes). -> (histories, TlcResult)"""
    res = tlc.mc("C04", "Sb2Own", "Sb2OwnGen.cfg" if tier == "quick" else "Sb2OwnGen_t.cfg", workers=1, heap="4g", timeout=900, deadlock=False,
                 require_actions=OWN_ACTIONS)
    hists = res.json_prints()
    if len(hists) < 2500 or len({json.dumps(h, sort_keys=True) for h in hists}) != len(hists):
        raise Machinery(f"Sb2Own: {len(hists)} histories emitted (Export fired {res.coverage.get('DoExport')})")
    res.out = res.out[-3000:]
    for cfg in ("Sb2OwnRefute.cfg", "Sb2OwnRefuteLate.cfg"):
        ref = tlc.run("C04", "Sb2Own", cfg, workers=1, deadlock=False, heap="2g", timeout=300)
        if ref.violated != "ExportCarriesGiven":
            raise Machinery(f"Sb2Own refutation run {cfg}: the variant was not refuted ({ref.violated})")
    return hists, res


def time_cases(tier):
    """MC + GEN of the time-stamp case space (Sb2TimeMC): lemmas over every case, every case emitted. -> (cases, TlcResult)"""
    res = tlc.mc("C04", "Sb2TimeMC", "Sb2TimeMC.cfg" if tier == "quick" else "Sb2TimeMC_t.cfg", workers=1, coverage=False, heap="2g", timeout=600, deadlock=False)
    cases = res.json_prints()
    if len(cases) != res.distinct or len(cases) < 300:
        raise Machinery(f"Sb2TimeMC: {len(cases)} cases emitted, {res.distinct} initial states")
    res.out = res.out[-3000:]
    return cases, res


def time_files(cases, first_idx, plain_tour, residue_tour, ks_ids):
    """One small file per time-stamp case; version / SHA flag / chain rotate over the files (deterministic: the cases are sorted)."""
    signed = list(CHAIN_TAB)
    out = []
    for i, c in enumerate(sorted(cases, key=lambda c: json.dumps(c, sort_keys=True))):
        if set(c) != {"form", "off", "days", "sod", "us", "zone"} or c["form"] not in ("naive", "aware") or (c["form"] == "naive" and (c["off"] or c["zone"])):
            raise Machinery(f"time-stamp case the driver does not know: {c}")
        ver, sha = LANE_VERSIONS[i % len(LANE_VERSIONS)]
        shape = {"ver": ver, "sha": sha, "chain": "none" if ver == "20u" else signed[(i // len(LANE_VERSIONS)) % 3], "secs": [{"hm": 1, "cmds": [0]}]}
        g = concretise(shape, first_idx + i, rng(PROP, "timefile", i), plain_tour, residue_tour, ks_ids, [0])
        g["tsc"] = c
        g["time"] = time_label(c)
        out.append(g)
    return out


CUT_SECTION = {"hm": 2, "cmds": [0, 1]}


def cut_files(first_idx, plain_tour, residue_tour, ks_ids, quick):
    """The files of the cut lane: every version (SB 2.0 unsigned / signed, SB 2.1 without / with SHA-256) x 1..3 sections - fixed shapes, seeded values."""
    signed = list(CHAIN_TAB)
    out = []
    for i, (ver, sha) in enumerate([("20u", False), ("20s", False), ("21", False), ("21", True)]):
        for n in (1, 2, 3):
            shape = {"ver": ver, "sha": sha, "chain": "none" if ver == "20u" else signed[(i + n) % (3 if quick else len(signed))], "secs": [dict(CUT_SECTION) for _ in range(n)]}
            out.append(concretise(shape, first_idx + len(out), rng(PROP, "cutfile", ver, sha, n), plain_tour, residue_tour, ks_ids, [0]))
    return out


def config_cases():
    """MC + GEN of the configuration statement space (Sb2Config): lemmas over every case, every case emitted with its expectation."""
    res = tlc.mc("C04", "Sb2Config", "Sb2Config.cfg", workers=1, coverage=False, heap="2g", timeout=300, deadlock=False)
    cases = res.json_prints()
    if len(cases) != res.distinct or len(cases) < 300:
        raise Machinery(f"Sb2Config: {len(cases)} cases emitted, {res.distinct} initial states")
    res.out = res.out[-3000:]
    return cases, res


def run(tier):
    sp = Spsdk()
    os.environ["TZ"] = "UTC"
    time.tzset()
    rom.selftest()
    check_key_pool()
    v = Verdict(PROP, tier)
    r = rng(PROP)
    quick = tier == "quick"

    # ---- MC + GEN (background) and canary
    # (the small constant sets side by side, the big ones of the thorough tier one after the other: each of them takes all cores)
    small = [n for n in CONFIGS[tier] if n not in ("_t0", "_t1", "_t2")]
    mc_future = [submit(mc_all, [n]) for n in small] + [submit(mc_all, [n for n in CONFIGS[tier] if n not in small])]
    try:
        rc = _run(tier, sp, v, r, quick, mc_future)
    except BaseException:
        pool().shutdown(wait=False, cancel_futures=True)
        raise
    pool().shutdown(wait=True)       # every future has been collected: the workers are idle (a clean shutdown avoids a noisy race at interpreter exit)
    return rc


def _run(tier, sp, v, r, quick, mc_future):
    gen_future = submit(gen_all_child, tier)
    ops_future = submit(operand_cases, tier)
    hist_future = submit(hist_gen, tier)
    own_future = submit(own_gen, tier)
    cfg_future = submit(config_cases)
    time_future = submit(time_cases, tier)
    canary(v)
    say(f"[C04] canary: {v.extra['canary'][:200]}... ({v.timer.s()}s)")
    shapes, gen_counts = gen_future.result()
    seen = set()
    shapes = [s for s in shapes if not (json.dumps(s, sort_keys=True) in seen or seen.add(json.dumps(s, sort_keys=True)))]
    say(f"[C04] GEN: {len(shapes)} distinct layout shapes enumerated by TLC ({v.timer.s()}s)")

    # ---- choose shapes, concretise (seeded), execute
    shapes.sort(key=lambda s: json.dumps(s, sort_keys=True))
    r.shuffle(shapes)
    n_files = 700 if quick else 7000
    chosen, seen_combo = [], {}
    for s in shapes:  # every (version, SHA, chain, section count, command counts, HMAC requests) combination is present
        combo = (s["ver"], s["sha"], s["chain"], tuple(len(x["cmds"]) for x in s["secs"]), tuple(x["hm"] for x in s["secs"]))
        if seen_combo.get(combo, 0) < 1:
            seen_combo[combo] = 1
            chosen.append(s)
    taken = {id(s) for s in chosen}
    if len(chosen) > n_files:
        chosen = chosen[:n_files]
    for s in shapes:
        if len(chosen) >= n_files:
            break
        if id(s) not in taken:
            chosen.append(s)
    plain_tour = list(PLAIN_VARIANTS)
    r.shuffle(plain_tour)
    residue_tour = list(range(16))
    r.shuffle(residue_tour)
    jobs = []
    n_tamper_files = 30 if quick else 300
    stride = max(1, len(chosen) // n_tamper_files)
    for i, s in enumerate(chosen):
        g = concretise(s, i, rng(PROP, "file", i), plain_tour, residue_tour, sp.ks_ids, [1, 3, 6] if quick else [1, 3, 6, 20, 60])
        tam = (2 if quick else 3) if (i % stride == 0) else 0
        jobs.append({"g": g, "tamper": tam, "cuts": tam})
    # exhaustive bit flips over one small file per version (strided in the quick tier)
    for ver in ("21", "20s", "20u"):
        s = {"ver": ver, "sha": ver == "21", "chain": "none" if ver == "20u" else "k0", "secs": [{"hm": 2, "cmds": [0, 1, 0]}]}
        g = concretise(s, len(jobs), rng(PROP, "allbits", ver), plain_tour, residue_tour, sp.ks_ids, [1])
        jobs.append({"g": g, "tamper": 0, "all_bits": (r.randrange(48), 48) if quick else (0, 1)})
    # operand lane: every case of the operand case space (TLC: Sb2OperandsMC) is built in every run - nothing about it is sampled
    op_cases, op_mc = ops_future.result()
    n_lane0 = len(jobs)
    for shape, lane in lane_shapes(op_cases, rng(PROP, "lane")):
        g = concretise(shape, len(jobs), rng(PROP, "lanefile", lane["no"]), plain_tour, residue_tour, sp.ks_ids, [1], lane=lane)
        jobs.append({"g": g, "tamper": 0, "max_payload": 1 << 17})
    placed = [json.dumps(c, sort_keys=True) for shape, lane in lane_shapes(op_cases, rng(PROP, "lane")) for c in shape["secs"][0]["cmds"] + ([lane["hdr"]] if lane["hdr"] else [])]
    if set(placed) != {json.dumps(c, sort_keys=True) for c in op_cases}:
        raise Machinery("operand lane: not every case emitted by TLC was placed into a file")
    say(f"[C04] operand lane: {len(op_cases)} operand cases (boundaries of every width class, per command kind and operand) enumerated by TLC, "
        f"placed into {len(jobs) - n_lane0} files ({v.timer.s()}s)")
    # configuration lane: every statement case of Sb2Config is built through load_from_config in every run
    cfg_cs, cfg_mc = cfg_future.result()
    n_cfg0 = len(jobs)
    for g in cfg_files(cfg_cs, rng(PROP, "cfg"), len(jobs)):
        jobs.append({"g": g, "tamper": 0})
    cfg_placed = [json.dumps(c[1][1], sort_keys=True) for j in jobs[n_cfg0:] for s in j["g"]["secs"] for c in s["cmds"]]
    if sorted(cfg_placed) != sorted(json.dumps(c["st"], sort_keys=True) for c in cfg_cs):
        raise Machinery("configuration lane: not every case emitted by TLC was placed into a configuration")
    say(f"[C04] configuration lane: {len(cfg_cs)} statement cases (kind x memory-option class x data source) enumerated by TLC, "
        f"placed into {len(jobs) - n_cfg0} configurations ({v.timer.s()}s)")
    # time lane: a file for every time-stamp case of Sb2TimeMC in every run
    t_cases, time_mc = time_future.result()
    n_time0 = len(jobs)
    for g in time_files(t_cases, len(jobs), plain_tour, residue_tour, sp.ks_ids):
        jobs.append({"g": g, "tamper": 0})
    say(f"[C04] time lane: {len(t_cases)} time-stamp cases (naive / aware x UTC offset x wall-clock digits x microseconds x local zone) enumerated by TLC, "
        f"one file each ({v.timer.s()}s)")
    # cut lane: fixed small files of every version x 1..3 sections, cut at every structural boundary and inside every part, and extended
    n_cut0 = len(jobs)
    for g in cut_files(len(jobs), plain_tour, residue_tour, sp.ks_ids, quick):
        jobs.append({"g": g, "tamper": 0, "cuts": "all"})
    n_lanes_end = len(jobs)
    # history lane: every selected history of Sb2Hist is replayed on one live object
    hists, hist_mc = hist_future.result()
    hsel = hist_select(hists, quick)
    n_hist0 = len(jobs)
    for h in hsel:
        g = concretise_hist(h, len(jobs), rng(PROP, "hist", len(jobs) - n_hist0), plain_tour, residue_tour, sp.ks_ids)
        jobs.append({"g": g, "hist": True})
    say(f"[C04] history lane: {len(hists)} histories (calls on one live object, ending in an export) enumerated by TLC, {len(hsel)} replayed "
        f"(all shorter call sequences for every version, the longest in rotation over version / initial content) ({v.timer.s()}s)")
    # ownership lane: histories of Sb2Own (a caller-owned bytearray handed over as LOAD data and modified afterwards) on one live object
    owns, own_mc = own_future.result()
    osel = own_select(owns, quick, 200 if quick else 2000)
    n_own0 = len(jobs)
    for h, ver_name, lenc in osel:
        g = concretise_own(h, ver_name, lenc, len(jobs), rng(PROP, "own", len(jobs) - n_own0), plain_tour, residue_tour, sp.ks_ids)
        jobs.append({"g": g, "hist": True})
    n_exposed = sum(1 for h, _v, _l in osel if own_exposed(h["acts"]))
    if n_exposed < 200 or len({(v, lc) for h, v, lc in osel if own_exposed(h["acts"]) and len(h["acts"]) <= 4}) < len(OWN_COMBOS):
        raise Machinery(f"ownership lane: only {n_exposed} selected histories modify the buffer while a command made from it is held")
    say(f"[C04] ownership lane: {len(owns)} histories (a caller-owned buffer handed over as LOAD data - itself or as a copy -, modified by its owner, put into "
        f"sections, queried, exported) enumerated by TLC, {len(osel)} replayed, {n_exposed} of them modify the buffer while a command made from it is held ({v.timer.s()}s)")
    results = pmap(lambda job: process_hist(sp, job) if job.get("hist") else process(sp, job), jobs, chunksize=2)
    traces = [t for res in results for t in res["traces"]]
    by_idx = {j["g"]["idx"]: j["g"] for j in jobs}
    res_by_idx = {res["idx"]: res for res in results}
    v.count(len(traces))
    n_built = sum(1 for res in results if res["build"] == "ok")
    n_exports = sum(res.get("exports", 0) for res in results)
    say(f"[C04] {len(jobs)} objects built through BootImageV20 / BootImageV21 / load_from_config ({n_built} without refusal, {n_exports} exports inside histories, "
        f"{sum(res['len'] for res in results)} bytes), {len(traces)} observations (executor walks, parse() runs, tampered / wrong-KEK variants, histories) ({v.timer.s()}s)")

    # ---- TV: one batch for the clean traces (the histories next to it), one for the tampered / wrong-KEK ones
    # (all batches are started at once; which tampered traces count is decided afterwards, when the verdicts on the clean traces are known)
    hist_tr = [t for t in traces if t["kind"] == "hist"]
    clean = [t for t in traces if t["mode"] == "clean" and t["kind"] != "hist"]
    dirty = [t for t in traces if t["mode"] != "clean"]
    h_clean = validate_start(clean, parts=4)
    h_dirty = validate_start(dirty, parts=4)
    h_hist = validate_start(hist_tr)
    rej_clean, soft_clean = validate_end(h_clean)
    say(f"[C04] {len(clean)} clean traces validated ({v.timer.s()}s)")
    rej_hist, soft_hist = validate_end(h_hist)
    say(f"[C04] {len(hist_tr)} histories validated ({v.timer.s()}s)")
    # configuration lane: a rejected configuration is taken apart - every statement is built on its own, so that every failing case is
    # reported under its own key (and a known finding cannot hide another statement of the same file)
    cfg_rej = [j["g"] for j in jobs[n_cfg0:n_time0] if f"rom-{j['g']['idx']}" in rej_clean]
    superseded = set()
    if cfg_rej:
        iso_jobs, nxt = [], len(jobs)
        for g in cfg_rej:
            for s_ in g["secs"]:
                for c, lab in zip(s_["cmds"], s_["labs"]):
                    iso_jobs.append({"g": dict(g, idx=nxt, of=g["idx"], secs=[dict(s_, cmds=[c], labs=[lab])]), "tamper": 0})
                    nxt += 1
        iso_res = pmap(lambda job: process(sp, job), iso_jobs, chunksize=2)
        iso_tr = [t for res in iso_res for t in res["traces"]]
        rej_iso, soft_iso = validate(iso_tr)
        by_idx.update({j["g"]["idx"]: j["g"] for j in iso_jobs})
        res_by_idx.update({res["idx"]: res for res in iso_res})
        superseded = {f"rom-{j['g']['of']}" for j in iso_jobs if f"rom-{j['g']['idx']}" in rej_iso}
        clean += iso_tr
        rej_clean.update(rej_iso)
        soft_clean.update(soft_iso)
        v.count(len(iso_tr))
        say(f"[C04] configuration lane: {len(cfg_rej)} rejected configurations taken apart into {len(iso_jobs)} single-statement configurations, "
            f"{sum(1 for j in iso_jobs if 'rom-%d' % j['g']['idx'] in rej_iso)} of them rejected ({v.timer.s()}s)")
    usable = [t for t in dirty if t["of"] not in rej_clean]   # a file whose clean trace is a hard finding is not tampered with
    rej_dirty, soft_dirty = validate_end(h_dirty)
    keep = {t["id"] for t in usable}
    rej_dirty = {k: x for k, x in rej_dirty.items() if k in keep}
    soft_dirty = {k: x for k, x in soft_dirty.items() if k in keep}
    v.traces(len(clean) + len(usable) + len(hist_tr))
    say(f"[C04] {len(usable)} tampered / wrong-KEK traces validated ({v.timer.s()}s)")

    def short(ev):
        return {k: x for k, x in ev.items() if k != "payload"}

    # clean traces: every hard rejection and every failed soft clause is a finding
    for t in clean:
        idx, ver, who = t["idx"], t["ver"], "ROM model" if t["kind"] == "rom" else "parse()"
        if t["id"] not in rej_clean:
            last = t["ev"][-1]
            if (t["kind"] == "rom" and last["ev"] != "Accept") or (t["kind"] == "parse" and last["ev"] != "PEnd"):
                raise Machinery(f"trace {t['id']} was consumed by TLC but does not end in Accept / PEnd: {short(last)}")
            v.nontrivial((t["kind"], res_by_idx[idx].get("sha", idx)))
        elif t["id"] not in superseded:      # (a rejected configuration is reported statement by statement)
            matched, length, evname = rej_clean[t["id"]]
            ev = t["ev"][min(matched, len(t["ev"]) - 1)]
            v.violation(key_of(t, matched, ver, by_idx[idx]), f"{vname(ver)} file #{idx}: {who} trace rejected at event #{matched + 1} ({evname}): {json.dumps(short(ev))[:500]}",
                        {"g": by_idx[idx], "trace": _strip(t), "rejected_at": matched})
        for name in soft_clean.get(t["id"], []):
            if name == "cuts":
                raise Machinery(f"cut lane: file #{idx} was not cut at every structural boundary TLC derives from its walk (clause CutsOk): cuts {t['given'].get('cuts')}")
            if t["kind"] == "rom":
                g = t["given"]
                detail = {"clause": name, "given": {k: g[k] for k in ("ver", "flags", "pv", "cv", "build", "tsc", "nonce")},
                          "secs_given": [{"uid": s["uid"], "hmacReq": s["hmacReq"]} for s in g["secs"]],
                          "header_in_file": {k: x for k, x in t["ev"][0].items() if k in ("minor", "flags", "pv", "cv", "build", "ts", "nonce", "fileBlocks", "imageBlocks", "firstTag")},
                          "sections_in_file": [{"uid": e["uid"], "hmacCount": e["hmacCount"], "count": e["count"]} for e in t["ev"] if e["ev"] == "SectionTag"]}
            else:
                detail = {"clause": name, "parsed": [short(e) for e in t["ev"] if e["ev"] == "PField"], "file": {k: x for k, x in t["ref"].items() if k != "secs"}}
            v.violation(soft_key(t, name), f"{vname(ver)} file #{idx}: {who} trace: clause {name} is FALSE: {json.dumps(detail)[:600]}",
                        {"g": by_idx[idx], "trace": _strip(t), "soft": name})
    # histories: every export of every history must have been accepted, bound to the content the object held at that moment
    all_hist_stats = {lane: {"histories": 0, "exports": 0, "accepted_to_the_end": 0, "by_version": {}} for lane in ("history_lane", "ownership_lane")}
    all_hist_stats["ownership_lane"].update(buffer_modified_while_a_command_made_from_it_is_held=n_exposed, refuted_variants=["keeps a reference to the caller's buffer", "copies when the command is put into a section"])
    for t in hist_tr:
        idx, ver, g = t["idx"], t["ver"], by_idx[t["idx"]]
        hist_stats = all_hist_stats["ownership_lane" if g.get("own") else "history_lane"]
        hist_stats["histories"] += 1
        hist_stats["exports"] += res_by_idx[idx].get("exports", 0)
        st = hist_stats["by_version"].setdefault(vname(ver) + ("+sha" if g["sha"] else ""), [0, 0])
        st[0] += 1
        if t["id"] not in rej_hist:
            if not t["ev"] or t["ev"][-1]["ev"] not in ("Accept", "HDescribe", "HUpdate", "HAddSection", "HAppendCmd", "HReplaceCmd", "HSetUid", "HBuf", "HTouch", "HMake", "HPut"):
                raise Machinery(f"history {t['id']} was consumed by TLC but does not end in an accepted export / a call: {short(t['ev'][-1]) if t['ev'] else None}")
            st[1] += 1
            hist_stats["accepted_to_the_end"] += 1
            v.nontrivial(("hist", tuple(res_by_idx[idx]["shas"]), g["hist_name"]))
        else:
            matched, length, evname = rej_hist[t["id"]]
            ev = t["ev"][min(matched, len(t["ev"]) - 1)]
            clause = f"field:{ev['name']}" if evname == "Field" else evname
            v.violation(hist_key(t, g, matched, clause),
                        f"{vname(ver)} history #{idx} ({g['hist_name']}): rejected at event #{matched + 1} ({evname}), i.e. during call "
                        f"#{t['act_of'][min(matched, len(t['act_of']) - 1)] + 1}: {json.dumps(short(ev))[:500]}",
                        {"g": g, "trace": _strip(t), "rejected_at": matched, "hist": True})
        for name in soft_hist.get(t["id"], []):
            clause, _, nexp = name.partition("@")
            exports = [i for i, e in enumerate(t["ev"]) if e["ev"] == "HExport"]
            at = exports[int(nexp) - 1] if nexp.isdigit() and 0 < int(nexp) <= len(exports) else 0
            hdr = next((e for e in t["ev"][at:] if e["ev"] == "ParseHeader"), {})
            v.violation(hist_key(t, g, at, f"header/{clause}"),
                        f"{vname(ver)} history #{idx} ({g['hist_name']}): export #{nexp}: clause {clause} is FALSE: header in file "
                        f"{json.dumps({k: x for k, x in hdr.items() if k in ('flags', 'pv', 'cv', 'build', 'ts', 'fileBlocks', 'imageBlocks', 'firstTag', 'firstId', 'maxMac')})[:400]}",
                        {"g": g, "trace": _strip(t), "soft": name, "hist": True})
    touched_by_callee = [(res["idx"], res["buffer_modified_by_spsdk"]) for res in results if "buffer_modified_by_spsdk" in res]
    all_hist_stats["ownership_lane"]["observation_histories_in_which_spsdk_modified_the_callers_buffer"] = len(touched_by_callee)
    if touched_by_callee:       # the converse (the builder never writes into the caller's buffer) is recorded, not asserted
        say(f"OBSERVATION: property=C04 ownership lane: the caller's buffer was modified by something other than the caller in {len(touched_by_callee)} histories, "
            f"e.g. history #{touched_by_callee[0][0]} (noticed at call #{touched_by_callee[0][1] + 1}) - not asserted")
    v.extra.update(all_hist_stats)
    # tampered / wrong-KEK: the ROM automaton must reject (else my model has a hole: machinery), parse() must raise or return the same content
    tamper_stats, holes = {}, []
    for t in usable:
        idx, ver, cls = t["idx"], t["ver"], t.get("cls", "?")
        st = tamper_stats.setdefault(f"{t['kind']}/{t['mode']}/{cls}", {"n": 0, "rejected": 0, "raised": 0})
        st["n"] += 1
        if t["kind"] in ("rom", "anchor"):
            # refused = the trace is not a behaviour (a HARD clause fails), or a clause about the header that held for the clean file is FALSE now
            # (image_blocks / first_boot_tag_block are evaluated as soft clauses so that the walk goes on: for a cut or extended file they are
            # the clause "the header describes the bytes that are there")
            if t["id"] in rej_dirty or [n for n in soft_dirty.get(t["id"], []) if n not in soft_clean.get(t["of"], [])]:
                st["rejected"] += 1
            elif cls != "dontcare_filler":
                holes.append(t["id"])
        else:
            if t["ev"][0]["outcome"] == "raised":
                st["raised"] += 1
            new_soft = [n for n in soft_dirty.get(t["id"], []) if n not in soft_clean.get(t["of"], [])]
            if t["id"] in rej_dirty or new_soft:
                matched, length, evname = rej_dirty.get(t["id"], (0, 0, "PField"))
                ev = t["ev"][min(matched, len(t["ev"]) - 1)]
                key = (key_of(t, matched, ver) if t["id"] in rej_dirty else soft_key(t, new_soft[0])) + f"/{cls}"
                v.violation(key, f"{vname(ver)} file #{idx}, {t['mode']} ({t['id']}): parse() did not raise and returned other content; "
                            f"event #{matched + 1} ({evname}) {new_soft}: {json.dumps(short(ev))[:300]}",
                            {"g": by_idx[idx], "trace": _strip(t), "rejected_at": matched, "tamper": t["id"], "soft_clean": soft_clean.get(t["of"], [])})
    if holes:
        raise Machinery(f"the ROM automaton accepted {len(holes)} tampered files (coverage hole in spec/C04 or executor): {holes[:5]}")
    dc = tamper_stats.get("rom/tamper/dontcare_filler")
    if dc and dc["rejected"]:
        raise Machinery("a flip in the declared don't-care filler of an unsigned SB 2.0 file was rejected: the don't-care declaration is stale")
    v.extra["trusted_base"] = [
        "harness/c04_rom.py (independent executor): struct, hashlib SHA-256, hmac, bit-serial / table CRC-32/MPEG-2 (self-tested against published check values)",
        "`cryptography` primitives called directly: AES-ECB block function (CTR is built in the executor), RFC 3394 unwrap, X.509 DER parsing, RSA PKCS#1 v1.5 verification",
        "anchors/C04: 14 golden files of the reference tool (elftosb) that the automaton must accept at every start",
        "nothing from spsdk.crypto / spsdk.sbfile on the deciding side; TLC decides every trace",
    ]
    v.extra["checker_cmd"] = "tlc2.TLC -config Sb2RomMC*.cfg Sb2RomMC.tla (MC), -config Sb2RomGen*.cfg (GEN), -config Sb2RomTrace.cfg Sb2RomTrace.tla (TV); -config Sb2OperandsMC.cfg Sb2OperandsMC.tla, -config Sb2Config.cfg Sb2Config.tla, -config Sb2HistGen.cfg / Sb2HistRefute.cfg Sb2Hist.tla, -config Sb2OwnGen.cfg / Sb2OwnRefute.cfg / Sb2OwnRefuteLate.cfg Sb2Own.tla, -config Sb2TimeMC.cfg Sb2TimeMC.tla (MC + GEN of the lanes)"
    v.extra["tamper"] = tamper_stats
    v.extra["tamper_rejected"] = sum(s["rejected"] for k, s in tamper_stats.items() if k.startswith("rom/"))
    v.extra["files"] = {"built": n_built, "bytes": sum(res["len"] for res in results)}
    # coverage of the sampled part
    kinds, residues = {}, set()
    for j in jobs[:n_lane0]:
        for s in j["g"]["secs"]:
            for c in s["cmds"]:
                kinds[c[1][0]] = kinds.get(c[1][0], 0) + 1
                if c[0]["k"] == "load":
                    residues.add(len(c[0]["d"]) % 16)
    v.extra["command_classes"] = kinds
    v.extra["load_length_residues_mod16"] = sorted(residues)
    if len(residues) < 16 or len(kinds) < 12:
        raise Machinery(f"sampling did not cover every command class / load length residue: {kinds} {sorted(residues)}")
    for t in (clean[0], clean[1], next((t for t in usable if t["kind"] == "rom"), None), next((t for t in usable if t["kind"] == "parse"), None)):
        if t:
            v.sample({"id": t["id"], "kind": t["kind"], "mode": t["mode"], "version": vname(t["ver"]),
                      "given": {k: x for k, x in t["given"].items() if k != "secs"} if t["given"] else None,
                      "events": [{k: x for k, x in e.items() if k != "payload"} for e in t["ev"][:40]]})
    lane_stats = {"cases": len(op_cases), "files": len(jobs) - n_lane0, "decoded_as_given": 0, "by_kind": {}}
    for j in jobs[n_lane0:n_cfg0]:
        ok = f"rom-{j['g']['idx']}" not in rej_clean and res_by_idx[j["g"]["idx"]]["build"] == "ok"
        for c in j["g"]["secs"][0]["cmds"]:
            st = lane_stats["by_kind"].setdefault(c[0]["k"], [0, 0])
            st[0] += 1
            st[1] += 1 if ok else 0
            lane_stats["decoded_as_given"] += 1 if ok else 0
    v.extra["operand_lane"] = lane_stats
    v.add_mc(op_mc)
    cfg_stats = {"cases": len(cfg_cs), "configurations": n_time0 - n_cfg0, "decoded_as_given": 0, "by_class": {}}
    for j in jobs[n_cfg0:n_time0]:
        ok = f"rom-{j['g']['idx']}" not in rej_clean and res_by_idx[j["g"]["idx"]]["build"] == "ok"
        for s_ in j["g"]["secs"]:
            for c in s_["cmds"]:
                st = c[1][1]
                cs = cfg_stats["by_class"].setdefault(f"{st['kind']}/{st['src']}/{st['mem']['class']}", [0, 0])
                cs[0] += 1
                cs[1] += 1 if ok else 0
                cfg_stats["decoded_as_given"] += 1 if ok else 0
    v.extra["configuration_lane"] = cfg_stats
    v.add_mc(cfg_mc)
    time_stats = {"cases": len(t_cases), "header_carries_the_instant": 0, "by_class": {}}
    for j in jobs[n_time0:n_cut0]:
        i_ = j["g"]["idx"]
        ok = f"rom-{i_}" not in rej_clean and res_by_idx[i_]["build"] == "ok" and "timestamp" not in soft_clean.get(f"rom-{i_}", [])
        c = j["g"]["tsc"]
        cs = time_stats["by_class"].setdefault(c["form"] + ("" if c["form"] == "naive" else "/utc" if c["off"] == 0 else "/east" if c["off"] > 0 else "/west")
                                               + ("/us" if c["us"] else "") + ("/local-zone" if c["zone"] else ""), [0, 0])
        cs[0] += 1
        cs[1] += 1 if ok else 0
        time_stats["header_carries_the_instant"] += 1 if ok else 0
    v.extra["time_lane"] = time_stats
    v.add_mc(time_mc)
    cut_stats = {"files": n_lanes_end - n_cut0, "cut_positions": 0, "extensions": 0, "refused_by_the_automaton": 0, "parse_raised": 0, "parse_returned_the_reference_content": 0}
    cut_ids = {j["g"]["idx"] for j in jobs[n_cut0:n_lanes_end]}
    for t in usable:
        if t["idx"] in cut_ids and t.get("cls", "").split("/")[0] in ("truncated", "extended"):
            if t["kind"] == "anchor":
                cut_stats["cut_positions" if t["cls"].startswith("truncated") else "extensions"] += 1
                cut_stats["refused_by_the_automaton"] += 1      # (a variant that is not refused has raised Machinery above)
            elif t["ev"][0]["outcome"] == "raised":
                cut_stats["parse_raised"] += 1
            elif t["id"] not in rej_dirty:
                cut_stats["parse_returned_the_reference_content"] += 1
    v.extra["cut_lane"] = cut_stats
    # (only a statement about the driver when every file of the lane was built and accepted: a file the automaton refuses is a finding, reported above)
    if cut_stats["cut_positions"] < 100 and not any(f"rom-{i}" in rej_clean for i in cut_ids):
        raise Machinery(f"cut lane: only {cut_stats['cut_positions']} cut positions were explored")
    v.add_mc(hist_mc)
    v.add_mc(own_mc)
    mcs = [res for f in mc_future for res in f.result()]
    for res, n in zip(mcs, gen_counts):
        v.add_mc(res)
        # (with several workers TLC's per-action counters may count a state twice; deadlock freedom is what proves that EVERY shape is accepted)
        if res.coverage.get("DoAccept", (0, 0))[1] < n:
            raise Machinery(f"MC accepted {res.coverage.get('DoAccept')} shapes but GEN enumerated {n} for the same constants")
    say(f"[C04] MC: {sum(x.distinct for x in mcs)} states in {len(mcs)} runs: every enumerated shape is walked to Accepted, lemmas Complete / Sound / "
        f"Tamper (corrupted block, truncation, extension) / StreamStops / BoundsReach / FreshChunks hold, no stuck state, every action fired ({v.timer.s()}s)")
    v.cov["rule"] = ("TLC enumerates every layout shape (version x SHA flag x certificate chain x 1..2 sections x HMAC-table request x command sequences "
                     "by payload blocks) and proves the automaton accepts each ideal layout with full coverage; a seeded subset of the shapes "
                     "(every version/chain/section-count/HMAC-request combination at least once) is concretised with seeded field values (tour over all "
                     "command classes, all load-length residues mod 16, boundary words), built through the public classes, walked by the independent "
                     "executor and parsed by SPSDK; OPERAND LANE: TLC enumerates the operand case space (Sb2OperandsMC: command kind x numeric operand x "
                     "lowest / lowest+1 / highest-1 / highest value of every width class of 1..4 bytes, sign boundary, one interior value per class; one "
                     "operand at a time and all together; memory ids at the ends of group and device id; header words build number and section id; "
                     "thorough: pairs of operands) and EVERY case is built, walked and parsed in every run; CONFIGURATION LANE: TLC enumerates the statement "
                     "case space of the configuration path (Sb2Config: statement kind x memory-option class [absent, internal, name, number of a named memory, "
                     "number without a name incl. group bits; integer and string] x data source [file, blob, comma-separated words, pattern]) with the abstract "
                     "command each statement means, and EVERY case is built through BootImageV21.load_from_config in every run, walked and parsed; HISTORY LANE: "
                     "TLC enumerates the histories of one live builder object (Sb2Hist: str / update / add section / append command / replace command / set "
                     "section id / export, up to 4 calls quick, 5 thorough, per version and initial content), each selected history is replayed on a real "
                     "object and EVERY export in it is walked by the executor, bound to the content the object held at that moment (state of the trace "
                     "spec); OWNERSHIP LANE: TLC enumerates the histories of a caller-owned mutable buffer (Sb2Own: a LOAD command is made from the "
                     "bytearray itself or from a copy, the owner then modifies the buffer in place / cuts it / extends it - after the construction of a "
                     "command and before the first export that carries it, i.e. before the command is put or before that export; the file is exported "
                     "again later -, the command object is appended or becomes a new section, possibly twice, queries and "
                     "exports in between; up to 6 calls quick, 7 thorough; variants 'keeps a reference' and 'copies when put' refuted by TLC), every "
                     "sequence shorter than the longest is replayed with a real bytearray (up to 4 calls: for every version x buffer length class, else "
                     "in rotation), the longest at a fixed stride; the buffer is state of the trace spec (HBuf / HTouch / HMake / HPut): TLC computes "
                     "what was given from the caller's own steps and binds every export to it; TIME LANE: TLC enumerates the time-stamp case space (Sb2TimeMC: naive / aware x UTC offset [0, whole, half and quarter hours east "
                     "and west, +14 h, -12 h, +-23:59] x wall-clock digits [first seconds of 2000-01-01 UTC for every offset, leap day, 2^31 / 2^32 seconds since "
                     "1970 and since 2000, year 2273] x microseconds [0, 1, 500000, 999999] x local zone of the building process [UTC, +05:30, -08:00; aware "
                     "values only]; one dimension against the others, thorough: the product) and a file is built for EVERY case in every run - the clause "
                     "HeaderCarries (the header carries the supplied INSTANT in whole seconds since 2000-01-01 UTC) is evaluated by TLC; CUT LANE / corruption "
                     "classes TRUNCATION and EXTENSION: 12 fixed files (SB 2.0 unsigned / signed, SB 2.1 without / with SHA-256, 1..3 sections) are cut at EVERY "
                     "structural boundary of their layout (Sb2Rom!BoundsOf over the events TLC consumed - the trace form checks that none was left out), once "
                     "block-aligned and once unaligned inside every part, and extended by a byte / a block / a copy of the last section / zeros; the files of "
                     "the tamper sample get a seeded subset; each variant must be refused by the automaton (else machinery failure) and parse() must raise or "
                     "return the reference content; evaluations = traces handed to TLC; non-trivial = clean trace accepted to the end, distinct by "
                     "SHA-256 of the exported file and observer")
    v.assumptions += [
        "nonce counter word + number of blocks < 2^32 (counter wrap-around in the ROM is not documented)",
        "CmdTag inside a section and empty load data are outside the asserted domain; CmdProg is 8-byte exactly when data_word2 != 0",
        "load: header count may be the given length or the length padded to 16; the given bytes must be a prefix of the payload, padding content is free",
        "FILL with an explicit length of 0 is outside the asserted domain (the documented default 4 applies to an omitted length); key-store commands of the "
        "operand lane use the memory ids of SPSDK's ExtMemId enumeration (1..0xFF) in rotation; LOAD lengths of the operand lane: around 16, 256 and 65536 bytes (nothing longer than 64 KiB + 1 is built)",
        "fields the ROM does not use for a command (e.g. count of call/reset/keystore commands, flags of fill) are not constrained; LAST_SECTION flag is not interpreted",
        "SB 2.0: image_length / build number inside the certificate block are not constrained; SB 2.1: image_length = end of certificate block (+32 with SHA allowed)",
        "certificate chains are RSA (2048/3072/4096, 1..3 certificates, all keys of one chain of equal size); max_section_mac_count = sum of HMAC-table sizes "
        "(+1 for the certificate section of SB 2.0) as produced by the reference tool (golden anchors)",
        "any exception of parse() counts as 'raises an error'; the second observer is compared with what the executor decoded from the same bytes",
        "time stamp: an AWARE datetime names an instant (whatever the local zone of the process); a NAIVE datetime is asserted only in a process whose local "
        "zone is UTC (the run sets TZ=UTC; what a naive value means elsewhere is not settled by the documentation); instants before 2000-01-01 UTC are outside "
        "the domain (unsigned field); the sub-second part of the header is 0 or the supplied microseconds (the reference tool writes whole seconds); dates up "
        "to 2273 (limb arithmetic of Sb2Time); local zones of the time lane are fixed offsets (no daylight-saving rules)",
        "truncation / extension: the automaton knows the length of the file (clause: the header describes the bytes that are there); a loader that reads a "
        "stream would not notice appended bytes - for extended files the asserted part is parse(): an error or the reference content",
        "a tampered file accepted by the automaton is a hole of this model (machinery failure), not a statement about SPSDK",
        "configuration lane: the configuration dictionary is handed to load_from_config as the BD parser / a YAML file produces it (the BD grammar itself is C19's); "
        "memory names and their ids are those of the BD language / boot ROM (sdcard = @288 ...), the name `internal` and a memory option on fill are not asserted; "
        "blob data: whole 32-bit words whose four bytes are equal (the byte order of a blob word and blobs that are not whole words are a known finding of C19, "
        "blobs of more than one word only in the comma-separated YAML form); fuse / IFR (id 4) only as a target of word programming (blob of 1..2 words, pattern), "
        "not of file loads; a pattern with another memory option, encrypt / keywrap statements (OTFAD key blobs: C13) and programFuses are not asserted",
        "history lane: queries are str() / repr() / raw_size / len() and update(); mutators are add_boot_section, BootSectionV2.append, section[i] = command, "
        "section.uid = id on objects built through the classes; header values (versions, keys, nonce, timestamp, flags) are not changed inside a history; "
        "an object obtained from parse() is not re-exported",
        "ownership lane: a mutable buffer is asserted where the API admits one explicitly - the data of CmdLoad (bytes or bytearray, checked by the constructor); "
        "what is given is what the buffer holds at the constructor call (the tree takes `bytes(data)` there); the buffer is modified only after the construction "
        "of a command and before the first export that carries it.  Aliasing of the KEK (BootImageV20 / V21), of DEK / MAC key / nonce / padding "
        "(SBV2xAdvancedParams) and of the padding argument of export() is NOT asserted: reference kept as built, the annotations say `bytes`, nothing admits a "
        "mutable buffer there (ImageHeaderV2.export refuses a nonce that is not `bytes`) and the documentation does not settle it.  That SPSDK never writes "
        "into the caller's buffer is recorded as an observation (evidence: ownership_lane), not asserted.  Outside the asserted domain as well: a change of an attribute of a command object after it was handed over (the builder holds the caller's object by design), a memoryview, "
        "and a buffer extended by less than a cipher block behind a command that was already made (indistinguishable from padding, whose content is free)",
    ]
    return v.finish()


def replay(path):
    sp = Spsdk()
    os.environ["TZ"] = "UTC"
    time.tzset()
    w = json.load(open(path))["witness"]
    g = w["g"]
    g["secs"] = [{**s, "cmds": [(c[0], tuple(c[1])) for c in s["cmds"]]} for s in g["secs"]]
    old = w["trace"]
    ignore = []
    if w.get("tamper"):
        say("replay of a tampered / wrong-KEK observation: the recorded observation is re-validated against the spec")
        cand = [mk_trace(old["id"], old["kind"], old["mode"], old["ev"], given=old["given"], ref=old["ref"], ver=g["ver"], idx=g["idx"])]
        ignore = w.get("soft_clean", [])
    elif w.get("hist"):
        for c in g["hist"]:
            if "sec" in c:
                c["sec"]["cmds"] = [(x[0], tuple(x[1])) for x in c["sec"]["cmds"]]
        cand = process_hist(sp, {"g": g})["traces"]
    else:
        res = process(sp, {"g": g, "tamper": 0, "max_payload": (1 << 17) if g.get("lane") else 4096})
        cand = [t for t in res["traces"] if t["kind"] == old["kind"]]
    rej, soft = validate(cand)
    for t in cand:
        say(json.dumps({"id": t["id"], "ev": [{k: x for k, x in e.items() if k != "payload"} for e in t["ev"][:14]]})[:2000])
    bad = False
    for t in cand:
        if t["id"] in rej:
            say(f"rejected: {t['id']} {rej[t['id']]}")
            bad = bad or "soft" not in w
        names = [n for n in soft.get(t["id"], []) if n not in ignore]
        if names:
            say(f"clauses FALSE: {t['id']} {names}")
            bad = bad or ("soft" in w and w["soft"] in names) or bool(w.get("tamper"))
    if bad:
        say(f"VIOLATION property=C04 replay={path}")
        return 1
    say("replay: accepted by the spec")
    return 0
