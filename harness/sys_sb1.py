"""Growth beyond the listed properties: Secure Binary 1.x (spsdk/sbfile/sb1 - the legacy boot-image format).

spec/SYS/Sb1Rom.tla       REFERENCE model: acceptance automaton of a loader / reader of an unencrypted SB 1.x file (header checks, section table,
                          chain of boot tags, command checksums, LOAD CRC, final SHA-1, the loader's search for the section to boot)
spec/SYS/Sb1RomMC.tla     MC + GEN: a writer lays files out from abstract shapes, the automaton consumes them.  The ideal writer is model checked
                          (Live / Complete / BootFinds / Tamper / Sound, every action fires); four construction mistakes are REFUTED by TLC
                          (two of them are what SecureBootV1.update() does), and so is the READER as built (what SecureBootV1.parse never looks
                          at) against three re-sealed corruption classes; GenInit emits the shape space
spec/SYS/Sb1RomTrace.tla  TV: the events an independent executor (lib/sb1_rom.py) logged on the bytes SPSDK exported, bound to what was handed to the
                          builder; SPSDK's own parse() as second observer (clean / corrupted / re-sealed files); files of the harness' own writer
spec/C04/Sb2Operands.tla  (re-used, not restated) what the loader must decode for an abstract command; Sb2OperandsMC emits the operand case space
spec/C04/Sb2Time.tla      (re-used) the time stamp clause

Not a registered check: nothing here is a violation of a listed property.  `./check sys_sb1` prints OBSERVATION lines and exits 0 (2 on machinery failure).
There is no command-line application for SB 1.x in SPSDK (nxpimage has no sb1 group): the public classes are the only route."""
import json
import os
import signal
import time

from lib import sb1_rom as rom
from lib import tlc
from lib.common import Machinery, Timer, import_spsdk, rng, say
from lib.par import pmap
from lib.ptv import prun

LIBS = ("C04",)
EPOCH2000 = 946684800
ANCHORS = os.path.join(os.environ.get("VERIF_ROOT", "/verif"), "anchors", "SYS", "sb1")
CMD_KINDS = ("fill", "jump", "call", "erase", "enable", "prog", "load")
MC_ACTIONS = ("DoParseHeader", "DoTableEntry", "DoBootTag", "DoCmd", "DoSectionEnd", "DoCheckDigest", "DoBootSearch", "DoAccept")
# (cfg, what TLC must report)
DESIGNS = (("Sb1RomMC_tab.cfg", "<deadlock>"), ("Sb1RomMC_last.cfg", "BootFinds"), ("Sb1RomMC_last_strict.cfg", "<deadlock>"),
           ("Sb1RomMC_blocks.cfg", "<deadlock>"), ("Sb1RomMC_count.cfg", "<deadlock>"),
           # the READER as built (what SecureBootV1.parse never looks at is hidden from the automaton) against the re-sealed corruption classes
           ("Sb1RomMC_reader_hdr.cfg", "TamperResealHdr"), ("Sb1RomMC_reader_len.cfg", "TamperResealLen"), ("Sb1RomMC_reader_count.cfg", "TamperShortCount"))
QUICK_DESIGNS = ("Sb1RomMC_tab.cfg", "Sb1RomMC_last.cfg", "Sb1RomMC_reader_hdr.cfg", "Sb1RomMC_reader_count.cfg")
W32 = [0, 1, 0xFF, 0x100, 0xFFFF, 0x10000, 0x7FFFFFFF, 0x80000000, 0xFFFFFFFF, 0x20001000, 0x60000000]


def limbs(v):
    v &= 0xFFFFFFFF
    return [v >> 16, v & 0xFFFF]


def unl(p):
    return (p[0] << 16) | p[1]


def memsplit(m):
    return [(m >> 8) & 0xF, m & 0xFF]


def acmd(k, a=0, n=0, x=0, f=0, m=0, d=b""):
    return {"k": k, "a": limbs(a), "n": limbs(n), "x": limbs(x), "f": f, "m": memsplit(m), "d": list(d)}


# ------------------------------------------------------------------------------------------------------------------ model checking / generation
def generate(tier):
    """GEN: the shape space (Sb1RomMC!GenInit) and the operand case space (C04's Sb2OperandsMC, lemmas checked on the way)."""
    jobs = [("run", ("SYS", "Sb1RomMC", "Sb1RomGen_q.cfg" if tier == "quick" else "Sb1RomGen.cfg"), dict(workers=1, deadlock=False, env={"GEN": "1"}, timeout=600)),
            ("mc", ("C04", "Sb2OperandsMC", "Sb2OperandsMC.cfg"), dict(workers=1, coverage=False, heap="4g", timeout=600))]
    if tier != "quick":
        jobs.append(("run", ("SYS", "Sb1RomMC", "Sb1RomGen_4sec.cfg"), dict(workers=1, deadlock=False, env={"GEN": "1"}, timeout=600)))
    res = prun(jobs, procs=len(jobs))
    shapes, seen = [], set()
    for gen in [res[0]] + res[2:]:
        got = gen.json_prints()
        if len(got) != gen.distinct or not got:
            raise Machinery(f"Sb1RomGen: {len(got)} shapes emitted, {gen.distinct} initial states")
        for sh in got:
            k = json.dumps(sh, sort_keys=True)
            if k not in seen:
                seen.add(k)
                shapes.append(sh)
    cases = [c for c in res[1].json_prints() if c["k"] in CMD_KINDS and len(c["d"]) <= 4096]
    if len(cases) < 500:
        raise Machinery(f"Sb2OperandsMC: only {len(cases)} operand cases for the SB 1.x command kinds")
    return shapes, cases


def model_check(tier):
    """The ideal writer passes (every action fires), every construction mistake is refuted.  Runs beside the executions (forked child)."""
    mains = ["Sb1RomMC_q.cfg", "Sb1RomMC.cfg"] if tier == "quick" else ["Sb1RomMC_t.cfg", "Sb1RomMC_4sec.cfg"]
    jobs = [("mc", ("SYS", "Sb1RomMC", cfg), dict(require_actions=MC_ACTIONS, workers=2 if tier == "quick" else 6, heap="4g", timeout=1500)) for cfg in mains]
    # quick tier: one refutation per dimension (table, LAST_TAG, reader: digest, reader: section end); thorough: all of them
    designs = [d for d in DESIGNS if tier != "quick" or d[0] in QUICK_DESIGNS]
    jobs += [("run", ("SYS", "Sb1RomMC", cfg), dict(workers=1, heap="2g", timeout=600)) for cfg, _ in designs]
    res = prun(jobs, procs=len(jobs))
    out = {}
    for cfg, r in zip(mains, res):
        out[cfg] = {"violated": False, "distinct": r.distinct, "generated": r.generated, "depth": r.depth, "coverage": {a: r.coverage.get(a, (0, 0))[1] for a in MC_ACTIONS}}
    for (cfg, want), r in zip(designs, res[len(mains):]):
        if r.violated != want:
            raise Machinery(f"design variant {cfg}: TLC reports {r.violated!r}, the refutation expected is {want!r}\n{r.out[-1500:]}")
        out[cfg] = {"violated": True, "how": r.violated, "distinct": r.distinct}
    return out


def _mc_child(tier, sub):
    from lib import common

    os.makedirs(sub, exist_ok=True)
    common._scratch = sub
    return model_check(tier)


# ------------------------------------------------------------------------------------------------------------------ abstract -> builder input
def mk_case(c, zero_filling):
    """Operand case emitted by TLC (Sb2OperandsMC) -> (abstract command = the case itself, constructor description)."""
    k, opt = c["k"], c["opt"]
    a, n, x, f = unl(c["a"]), unl(c["n"]), unl(c["x"]), c["f"]
    m = (c["m"][0] << 8) | c["m"][1]
    given = {key: c[key] for key in ("k", "a", "n", "x", "f", "m", "d")}
    if k == "fill":
        return given, ("CmdFill", a, x, None if opt == "nolen" else n)
    if k == "jump":
        return given, ("CmdJump", a, x, None if opt == "nosp" else n)
    if k == "call":
        return given, ("CmdCall", a, x)
    if k == "erase":
        return given, ("CmdErase", a, n, f, m)
    if k == "enable":
        return given, ("CmdMemEnable", a, n, m)
    if k == "prog":
        return given, ("CmdProg", a, m, n, x)
    if k == "load":
        return given, ("CmdLoad", a, bytes(c["d"]).hex(), m, zero_filling)
    raise Machinery(f"operand case of an unknown command kind: {c}")


def case_label(c):
    if c["slot"] == "m":
        val = f"f{c['f']}m{(c['m'][0] << 8) | c['m'][1]:03X}"
    elif c["slot"] == "len":
        val = f"{len(c['d'])}"
    elif c["slot"] == "diag":
        val = f"{unl(c['a']):X}"
    else:
        val = f"{unl(c[c['slot']]):X}"
    return f"{c['k']}/{c['slot']}={val}" + (f"/{c['opt']}" if c["opt"] in ("nolen", "nosp") else "")


TIMES = [  # the calendar value supplied (vocabulary of Sb2Time); the process runs in UTC (zone 0)
    {"form": "aware", "off": 0, "days": 7419, "sod": 56012, "us": 0, "zone": 0},          # 2020-04-24 15:33:32 UTC - the repository's golden files
    {"form": "naive", "off": 0, "days": 7419, "sod": 56012, "us": 0, "zone": 0},
    {"form": "aware", "off": 330, "days": 9000, "sod": 19800, "us": 0, "zone": 0},
    {"form": "aware", "off": -480, "days": 0, "sod": 0, "us": 0, "zone": 0},
    {"form": "naive", "off": 0, "days": 0, "sod": 0, "us": 0, "zone": 0},                 # the epoch of the format itself
    {"form": "naive", "off": 0, "days": 24855, "sod": 11647, "us": 0, "zone": 0},         # seconds = 2^31 - 1
    {"form": "aware", "off": 0, "days": 10000, "sod": 86399, "us": 999999, "zone": 0},
    {"form": "naive", "off": 0, "days": 9999, "sod": 1, "us": 1, "zone": 0},
    {"form": "aware", "off": 60, "days": 12345, "sod": 45296, "us": 123457, "zone": 0},
]


def supplied_datetime(c):
    from datetime import datetime, timedelta, timezone

    wall = datetime(2000, 1, 1) + timedelta(days=c["days"], seconds=c["sod"], microseconds=c["us"])
    return wall.replace(tzinfo=timezone(timedelta(minutes=c["off"]))) if c["form"] == "aware" else wall


def micros(c):
    return ((c["days"] * 86400 + c["sod"] - 60 * (c["off"] if c["form"] == "aware" else c["zone"])) * 1000000) + c["us"]


def header_values(idx, r):
    pv = [r.choice([0, 1, 9, 10, 99, 999, 1234, 9999]) for _ in range(3)]
    cv = list(pv) if r.random() < 0.2 else [r.choice([0, 1, 2, 10, 123, 9999, 4567]) for _ in range(3)]
    return {"minor": idx % 3, "flags": r.choice([0, 0, 1, 2, 0x8000, 0xFFFF, r.getrandbits(16)]), "driveTag": r.choice([0, 0, 1, 0xFFFF, r.getrandbits(16)]),
            "pv": pv, "cv": cv, "tsc": TIMES[idx % len(TIMES)],
            "pad8": None if idx % 4 == 0 else bytes(r.getrandbits(8) for _ in range(8)).hex(),
            "auth_pad": None if idx % 3 == 0 else bytes(r.getrandbits(8) for _ in range(12)).hex()}


def concretise(shape, idx, r, tour, residues, idclass):
    """Abstract shape (TLC) -> builder input.  A plain command of the shape is the next operand case of the tour, a LOAD of k data blocks gets a
    length of the next residue class.  idclass: how section identifiers are chosen - "index" 0, 1, 2 (as the repository's own tests do), "perm" the
    same numbers in another order, "word" arbitrary 32-bit words, "dup" every section the same identifier."""
    n = len(shape["secs"])
    if idclass == "index":
        ids = list(range(n))
    elif idclass == "perm":
        ids = list(range(n))
        r.shuffle(ids)
    elif idclass == "dup":
        ids = [r.choice(W32)] * n
    else:
        ids = r.sample(W32, n) if r.random() < 0.5 else [r.getrandbits(32) for _ in range(n)]
        while len(set(ids)) < n:
            ids = [r.getrandbits(32) for _ in range(n)]
    secs = []
    for s, ident in zip(shape["secs"], ids):
        cmds, labs = [], []
        for blocks in s["cmds"]:
            if blocks == 0:
                c = tour.pop(0)
                tour.append(c)
                while c["k"] == "load":
                    c = tour.pop(0)
                    tour.append(c)
                if r.random() < 0.15:
                    cmds.append((acmd("nop"), ("CmdNop",)) if r.random() < 0.5 else (acmd("reset"), ("CmdReset",)))
                    labs.append(cmds[-1][0]["k"])
                else:
                    cmds.append(mk_case(c, False))
                    labs.append(case_label(c))
            else:
                res = residues.pop(0)
                residues.append(res)
                ln = (blocks - 1) * 16 + (res if res else 16)
                data = bytes(r.getrandbits(8) for _ in range(ln))
                a, m = r.choice(W32), r.choice([0, 0, 1, 9, 0x101, 0xFFF])
                zf = r.random() < 0.5
                cmds.append((acmd("load", a=a, m=m, d=data), ("CmdLoad", a, data.hex(), m, zf)))
                labs.append(f"load/len={ln}")
        # bootable / not; a non-bootable section may carry the CLEARTEXT flag (2) - the two flags together are no member of SPSDK's enumeration
        secs.append({"id": ident, "sflags": 1 if s["boot"] else r.choice([0, 2]), "cmds": cmds, "labs": labs})
    first = secs[shape["first"] - 1]["id"] if shape["first"] else next(v for v in [n, 0x7FFFFFFF, 5, 77] if v not in ids)
    g = header_values(idx, r)
    g.update(idx=idx, idclass=idclass, firstId=first, secs=secs)
    return g


def grow_id(g):
    return next(v for v in (len(g["secs"]), 0x51, 0x52, 0x53) if v not in [s["id"] for s in g["secs"]] and v != g["firstId"])


def grown(g, grow):
    """The builder input after one more section / one more command was appended to the live object."""
    if grow is None:
        return g
    g2 = dict(g, secs=[dict(s, cmds=list(s["cmds"]), labs=list(s["labs"])) for s in g["secs"]])
    if grow == "section":
        g2["secs"].append({"id": grow_id(g), "sflags": 1, "cmds": [(acmd("nop"), ("CmdNop",))], "labs": ["nop"]})
    else:
        g2["secs"][-1]["cmds"].append((acmd("call", a=0x1234, x=0x5678), ("CmdCall", 0x1234, 0x5678)))
        g2["secs"][-1]["labs"].append("call/appended")
    return g2


def given_record(g):
    """The builder input in the vocabulary of Sb1RomTrace (type-stable, all numbers < 2^31)."""
    return {"minor": g["minor"], "flags": g["flags"], "driveTag": g["driveTag"], "pv": g["pv"], "cv": g["cv"], "tsc": g["tsc"], "firstId": limbs(g["firstId"]),
            "secs": [{"id": limbs(s["id"]), "sflags": s["sflags"], "cmds": [c[0] for c in s["cmds"]]} for s in g["secs"]]}


# ------------------------------------------------------------------------------------------------------------------ the code under test
class Spsdk:
    def __init__(self):
        import_spsdk()
        from spsdk.exceptions import SPSDKError
        from spsdk.sbfile import sb1

        self.sb1, self.SPSDKError = sb1, SPSDKError

    def make_cmd(self, d):
        C = self.sb1
        n = d[0]
        if n == "CmdNop":
            return C.CmdNop()
        if n == "CmdReset":
            return C.CmdReset()
        if n == "CmdCall":
            return C.CmdCall(d[1], d[2])
        if n == "CmdJump":
            return C.CmdJump(d[1], d[2], d[3])
        if n == "CmdErase":
            return C.CmdErase(address=d[1], length=d[2], flags=d[3], mem_id=d[4])
        if n == "CmdMemEnable":
            return C.CmdMemEnable(d[1], d[2], d[3])
        if n == "CmdProg":
            return C.CmdProg(address=d[1], mem_id=d[2], data_word1=d[3], data_word2=d[4])
        if n == "CmdFill":
            return C.CmdFill(d[1], d[2]) if d[3] is None else C.CmdFill(d[1], d[2], d[3])
        if n == "CmdLoad":
            return C.CmdLoad(address=d[1], data=bytes.fromhex(d[2]), mem_id=d[3], zero_filling=d[4])
        raise Machinery(f"no constructor {n}")

    def build(self, g):
        """Builder input -> (exported bytes | None, build events, image object).  Public classes only; the one exception is stated in the event."""
        C = self.sb1
        ver = lambda v: ".".join(str(x) for x in v)  # noqa: E731
        stage = "constructor"
        note = ""
        try:
            img = C.SecureBootV1(version=f"1.{g['minor']}", flags=g["flags"], drive_tag=g["driveTag"], product_version=ver(g["pv"]),
                                 component_version=ver(g["cv"]), timestamp=supplied_datetime(g["tsc"]))
            for s in g["secs"]:
                stage = "section"
                sect = C.BootSectionV1(s["id"], C.SecureBootFlagsV1.from_tag(s["sflags"]))
                for c in s["cmds"]:
                    stage = "command:" + c[1][0]
                    sect.append(self.make_cmd(c[1]))
                stage = "append"
                img.append(sect)
            stage = "first_boot_section_id"
            try:
                img.first_boot_section_id = g["firstId"]
            except self.SPSDKError as x:
                # the identifier is refused: recorded as an observation of its own (trace "-api"); the file lane goes on through the header object
                note = f"{type(x).__name__}: {x}"[:80]
                img._header.first_boot_section_id = g["firstId"]
            stage = "export"
            size0 = img.size          # "size of the binary representation in bytes", asked BEFORE the export
            data = img.export(header_padding8=bytes.fromhex(g["pad8"]) if g["pad8"] else None, auth_padding=bytes.fromhex(g["auth_pad"]) if g["auth_pad"] else None)
            size = img.size
        except Exception as x:  # noqa: BLE001
            return None, [{"ev": "BuildOutcome", "outcome": "raised", "stage": stage, "exc": type(x).__name__, "documented": isinstance(x, self.SPSDKError),
                           "sizeOk": True, "sizeBeforeOk": True}], note, None
        return data, [{"ev": "BuildOutcome", "outcome": "built", "stage": "", "exc": "", "documented": True, "sizeOk": size == len(data),
                       "sizeBeforeOk": size0 == len(data)}], note, img

    def again(self, g, img, grow):
        """History of one live object: export once more - unchanged (grow = None) or after one more section / one more command was appended."""
        C = self.sb1
        try:
            if grow == "section":
                sect = C.BootSectionV1(g["secs"][-1]["id"], C.SecureBootFlagsV1.ROM_SECTION_BOOTABLE)       # g: the input AFTER the growth
                sect.append(C.CmdNop())
                img.append(sect)
            elif grow == "command":
                img.sections[-1].append(C.CmdCall(0x1234, 0x5678))
            size0 = img.size
            data = img.export(header_padding8=bytes.fromhex(g["pad8"]) if g["pad8"] else None, auth_padding=bytes.fromhex(g["auth_pad"]) if g["auth_pad"] else None)
            size = img.size
        except Exception as x:  # noqa: BLE001
            return None, [{"ev": "BuildOutcome", "outcome": "raised", "stage": f"export-again:{grow}", "exc": type(x).__name__, "documented": isinstance(x, self.SPSDKError),
                           "sizeOk": True, "sizeBeforeOk": True}]
        # asked before the export: only where the object was exported before and not touched since is the answer settled
        return data, [{"ev": "BuildOutcome", "outcome": "built", "stage": "", "exc": "", "documented": True, "sizeOk": size == len(data),
                       "sizeBeforeOk": size0 == len(data) or grow is not None}]

    def project_cmd(self, cmd):
        """Parsed command object -> abstract command (public attributes only)."""
        C = self.sb1
        t = type(cmd)
        try:
            if t is C.CmdNop:
                return acmd("nop")
            if t is C.CmdReset:
                return acmd("reset")
            if t is C.CmdLoad:
                return acmd("load", a=cmd.address, m=cmd.mem_id, d=cmd.data)
            if t is C.CmdFill:
                return acmd("fill", a=cmd.address, n=cmd.header.count, x=int.from_bytes(cmd.pattern, "big"), f=1)
            if t is C.CmdJump:
                return acmd("jump", a=cmd.address, x=cmd.argument, f=0 if cmd.spreg is None else 1, n=cmd.spreg or 0)
            if t is C.CmdCall:
                return acmd("call", a=cmd.address, x=cmd.argument)
            if t is C.CmdErase:
                return acmd("erase", a=cmd.address, n=cmd.length, f=cmd.flags & 3, m=cmd.mem_id)
            if t is C.CmdMemEnable:
                return acmd("enable", a=cmd.address, n=cmd.size, m=cmd.mem_id)
            if t is C.CmdProg:
                return acmd("prog", a=cmd.address, n=cmd.data_word1, x=cmd.data_word2, m=cmd.mem_id & 0xFF)
        except Exception as x:  # noqa: BLE001
            return acmd(f"unprojectable:{t.__name__}:{type(x).__name__}")
        return acmd(f"other:{t.__name__}")


class _Timeout(Exception):
    pass


def _alarm(_s, _f):
    raise _Timeout()


def observe_parse(sp, data):
    """SPSDK's SecureBootV1.parse as second observer -> list of events (ParseOutcome, PField*, (PSection, PCmd*, PSectionEnd)*, PEnd)."""
    old = signal.signal(signal.SIGALRM, _alarm)
    signal.alarm(20)
    try:
        img = sp.sb1.SecureBootV1.parse(data)
    except _Timeout:
        return [{"ev": "ParseOutcome", "outcome": "timeout", "exc": "", "documented": False}]
    except Exception as x:  # noqa: BLE001
        return [{"ev": "ParseOutcome", "outcome": "raised", "exc": type(x).__name__, "documented": isinstance(x, sp.SPSDKError)}]
    finally:
        signal.alarm(0)
        signal.signal(signal.SIGALRM, old)
    evs = [{"ev": "ParseOutcome", "outcome": "returned", "exc": "", "documented": True}]
    try:
        h = img._header       # SecureBootV1 has no public accessor for its header; the header class itself is public (sb1.headers)

        def nums(v):
            try:
                return [int(x) for x in str(v).split(".")]
            except Exception:  # noqa: BLE001
                return [-1, -1, -1]

        us = int(round((h.timestamp.timestamp() - EPOCH2000) * 1000000))
        sec_, us_ = divmod(us, 1000000)
        for name, got in (("version", int(h.version.split(".")[1]) if h.version.startswith("1.") else -1), ("flags", int(h.flags)),
                          ("product_version", nums(h.product_version)), ("component_version", nums(h.component_version)), ("drive_tag", int(h.drive_tag)),
                          ("timestamp", [min(sec_ >> 16, 2**31 - 1), sec_ & 0xFFFF, us_]), ("first_boot_section_id", limbs(img.first_boot_section_id))):
            evs.append({"ev": "PField", "name": name, "got": got})
        n = 0
        for s in img.sections:
            evs.append({"ev": "PSection", "id": limbs(s.section_id), "sflags": limbs(s.flags.tag)})
            k = 0
            for c in s.commands:
                evs.append({"ev": "PCmd", "c": sp.project_cmd(c)})
                k += 1
            evs.append({"ev": "PSectionEnd", "ncmds": k})
            n += 1
        evs.append({"ev": "PEnd", "nsec": n})
    except Exception as x:  # noqa: BLE001
        evs.append({"ev": "ProjectionFailed", "exc": f"{type(x).__name__}: {x}"[:100]})
    return evs


def with_markers(evs):
    """Insert the clause markers the trace spec asks for."""
    out = []
    for e in evs:
        out.append(e)
        if e["ev"] == "ParseHeader":
            out += [{"ev": "Field", "name": n} for n in ("version", "flags", "product_version", "component_version", "drive_tag", "timestamp", "first_boot_section_id")]
        elif e["ev"] == "BootTag":
            out += [{"ev": "Field", "name": n} for n in ("section_id", "section_flags")]
        elif e["ev"] == "CheckDigest":
            out += [{"ev": "Field", "name": n} for n in ("table", "last_tag")]
        elif e["ev"] == "BootSearch":
            out.append({"ev": "Field", "name": "boot_target"})
    return out


def anchor_markers(evs):
    out = []
    for e in evs:
        out.append(e)
        if e["ev"] == "CheckDigest":
            out += [{"ev": "Field", "name": n} for n in ("table", "last_tag")]
    return out


def ref_of(evs):
    """What the executor decoded, as reference content for the second observer."""
    h = evs[0]
    ref = {"minor": h["minor"], "flags": h["flags"], "pv": h["pv"], "cv": h["cv"], "driveTag": h["driveTag"], "ts": h["ts"], "firstId": h["firstId"], "secs": []}
    for e in evs:
        if e["ev"] == "BootTag":
            ref["secs"].append({"id": e["id"], "sflags": e["sflags"], "cmds": []})
        elif e["ev"] == "Cmd":
            ref["secs"][-1]["cmds"].append({k: e[k] for k in ("tag", "flags", "addr", "cnt", "dat", "payload", "payloadLen")})
    return ref


def regions(data, evs):
    """Byte ranges of the file by field class, derived from the executor's walk of the clean file: {class: [(lo, hi), ...]}."""
    reg = {"hdr.digest": [(0, 20)], "hdr.signature": [(20, 24)], "hdr.version": [(24, 26)], "hdr.flags": [(26, 28)], "hdr.image_blocks": [(28, 32)],
           "hdr.first_boot_tag_block": [(32, 36)], "hdr.first_boot_section_id": [(36, 40)], "hdr.key_count": [(40, 42)], "hdr.key_dictionary_block": [(42, 44)],
           "hdr.header_blocks": [(44, 46)], "hdr.section_count": [(46, 48)], "hdr.section_header_size": [(48, 50)], "hdr.pad2": [(50, 52)],
           "hdr.signature2": [(52, 56)], "hdr.timestamp": [(56, 64)], "hdr.product_version": [(64, 76)], "hdr.component_version": [(76, 88)],
           "hdr.drive_tag": [(88, 90)], "hdr.pad6": [(90, 96)]}

    def add(k, lo, hi):
        if hi > lo:
            reg.setdefault(k, []).append((lo, hi))

    for e in evs:
        if e["ev"] == "TableEntry":
            b = e["at"] * 16
            for k, (lo, hi) in (("id", (0, 4)), ("offset", (4, 8)), ("length", (8, 12)), ("flags", (12, 16))):
                add("table." + k, b + lo, b + hi)
        elif e["ev"] in ("BootTag", "Cmd"):
            b = e["at"] * 16
            p = "tag." if e["ev"] == "BootTag" else "cmd."
            for k, (lo, hi) in (("checksum", (0, 1)), ("tag", (1, 2)), ("flags", (2, 4)), ("address", (4, 8)), ("count", (8, 12)), ("data", (12, 16))):
                add(p + k, b + lo, b + hi)
            if e["ev"] == "Cmd" and e["tag"] == 2:
                cnt = unl(e["cnt"])
                add("load.data", b + 16, b + 16 + cnt)
                add("load.padding", b + 16 + cnt, b + 16 + e["payloadLen"])
        elif e["ev"] == "CheckDigest":
            add("auth.digest", e["to"], e["to"] + 20)
            add("auth.padding", e["to"] + 20, e["to"] + 32)
    return reg


DONT_CARE = ("auth.padding",)


def tamper_set(data, evs, r, per_class):
    """-> [(class, tampered bytes)]: one flipped bit per field class (per_class of them), truncation, extension."""
    out = []
    if per_class < 0:
        # thorough tier: ALL bit positions of every field class of the header, the table, the boot tags, the digest; of the command fields
        # the first range of each class
        for cls, ranges in sorted(regions(data, evs).items()):
            for lo, hi in (ranges[:1] if cls.startswith(("cmd.", "load.")) else ranges):
                for pos in range(lo, min(hi, lo + 64)):
                    for bit in range(8):
                        b = bytearray(data)
                        b[pos] ^= 1 << bit
                        out.append((f"flip/{cls}", bytes(b)))
        return out
    for cls, ranges in sorted(regions(data, evs).items()):
        for _ in range(per_class):
            lo, hi = r.choice(ranges)
            pos, bit = r.randrange(lo, hi), r.randrange(8)
            b = bytearray(data)
            b[pos] ^= 1 << bit
            out.append((f"flip/{cls}", bytes(b)))
    bounds = sorted({e["at"] * 16 for e in evs if e["ev"] in ("TableEntry", "BootTag", "Cmd")} | {e["to"] for e in evs if e["ev"] == "CheckDigest"} | {96})
    cuts = set(r.sample(bounds, min(len(bounds), 2 + per_class))) | {len(data) - 32, len(data) - 12, len(data) - 16, len(data) - 1, 95, 0}
    for c in sorted(x for x in cuts if 0 <= x < len(data)):
        out.append((f"cut/{'boundary' if c % 16 == 0 else 'inside'}", data[:c]))
    out.append(("ext/block", data + bytes(16)))
    out.append(("ext/byte", data + b"\x00"))
    return out


def reseal_set(data, evs, r):
    """-> [(class, bytes)]: the file changed and RE-SEALED so that exactly one check of the format can still notice."""
    out = []
    b = bytearray(data)
    # a header field changed, final digest recomputed: only the header digest notices
    for cls, off, n in (("hdr.flags", 26, 2), ("hdr.drive_tag", 88, 2), ("hdr.product_version", 64, 1), ("hdr.first_boot_section_id", 36, 4)):
        val = bytes((x ^ 0x01) for x in b[off:off + n])
        out.append((f"reseal/header-digest-only/{cls}", rom.reseal(data, {off: val})))
    # image_blocks changed, both digests recomputed: only the comparison with the file notices
    out.append(("reseal/length-only/hdr.image_blocks", rom.reseal(data, {28: (int.from_bytes(b[28:32], "little") + 1).to_bytes(4, "little")}, header_digest=True)))
    cmds = [e for e in evs if e["ev"] == "Cmd"]
    if cmds:
        e = r.choice(cmds)
        off = e["at"] * 16 + 4
        out.append(("reseal/checksum-only/cmd.address", rom.reseal(data, {off: bytes([b[off] ^ 0x10])})))
    loads = [e for e in cmds if e["tag"] == 2 and unl(e["cnt"]) > 0]
    if loads:
        e = r.choice(loads)
        off = e["at"] * 16 + 16 + r.randrange(unl(e["cnt"]))
        out.append(("reseal/crc-only/load.data", rom.reseal(data, {off: bytes([b[off] ^ 0x80])})))
    tags_ = [e for e in evs if e["ev"] == "BootTag"]
    if tags_:
        e = r.choice(tags_)
        off = e["at"] * 16 + 4
        out.append(("reseal/checksum-only/tag.address", rom.reseal(data, {off: bytes([b[off] ^ 0x04])})))

    def recheck(at, **chg):
        """One boot command / boot tag rewritten WITH a right checksum (and the final digest recomputed): only the structure can notice."""
        c = bytearray(b[at * 16:at * 16 + 16])
        for k, v in chg.items():
            lo, n = {"tag": (1, 1), "flags": (2, 2), "count": (8, 4)}[k]
            c[lo:lo + n] = v.to_bytes(n, "little")
        c[0] = rom.chk(c)
        return rom.reseal(data, {at * 16: bytes(c)})

    plain = [e for e in cmds if e["tag"] != 2]
    if plain:
        e = r.choice(plain)
        out.append(("reseal/structure-only/tag-command-inside-a-section", recheck(e["at"], tag=1)))
        out.append(("reseal/structure-only/command-of-another-format:0x0B", recheck(e["at"], tag=11)))
        out.append(("reseal/structure-only/unknown-command:0x7F", recheck(e["at"], tag=0x7F)))
    # a section that ends in a LOAD: the boot tag says one block less, so the data of the LOAD stick out of the section
    for tg in tags_:
        mine = [e for e in cmds if e["sec"] == tg["i"]]
        if mine and mine[-1]["tag"] == 2 and mine[-1]["nBlk"] > 1:
            out.append(("reseal/structure-only/load-data-beyond-the-section-end", recheck(tg["at"], count=tg["count"] - 1)))
            break
    # LAST_TAG removed from the final boot tag / set on the first of several: the search of the loader changes, nothing else
    if len(tags_) > 1:
        out.append(("reseal/structure-only/last-tag-on-the-first-section", recheck(tags_[0]["at"], flags=1)))
    return out


def mk_trace(tid, kind, mode, ev, given=None, ref=None, **extra):
    t = {"id": tid, "kind": kind, "mode": mode, "ev": ev, "given": given or {}, "ref": ref or {}}
    t.update(extra)
    return t


def process(sp, job):
    """One builder input -> traces: rom (+ api), parse clean, and for jobs marked so the tampered / re-sealed files (executor + parse)."""
    g, r = job["g"], rng("SYS", "sb1", "job", job["g"]["idx"])
    tid = f"s{g['idx']}"
    given = given_record(g)
    meta = {"idclass": g["idclass"], "labs": [s["labs"] for s in g["secs"]], "nsec": len(g["secs"]), "minor": g["minor"]}
    data, bev, note, img = sp.build(g)
    out = []
    if note:
        out.append(mk_trace(tid + "-api", "rom", "api", [dict(bev[0], outcome="raised", stage="first_boot_section_id", exc="SPSDKError", documented=True)],
                            given=given, meta=dict(meta, note=note, firstId=g["firstId"], ids=[s["id"] for s in g["secs"]])))
    if data is None:
        out.append(mk_trace(tid, "rom", "clean", bev, given=given, meta=meta))
        return out
    evs = rom.run(data)
    out.append(mk_trace(tid, "rom", "clean", bev + with_markers(evs), given=given, meta=meta, hex=data.hex() if len(data) <= 2048 else data[:2048].hex()))
    if evs[-1]["ev"] != "Accept":
        return out
    ref = ref_of(evs)
    out.append(mk_trace(tid + "-p", "parse", "clean", observe_parse(sp, data), ref=ref, meta=meta))
    if job.get("hist"):
        # history of the live object: the same object exported again, then grown and exported again - every export is bound to what the object holds then
        g2 = g
        for step, grow in enumerate(job["hist"]):
            g2 = grown(g2, grow)
            data2, bev2 = sp.again(g2, img, grow)
            m2 = dict(meta, hist="export-again", nsec=len(g2["secs"]), labs=[s["labs"] for s in g2["secs"]])
            ev2 = bev2 + (with_markers(rom.run(data2)) if data2 is not None else [])
            out.append(mk_trace(f"{tid}-h{step}", "rom", "hist", ev2, given=given_record(g2), meta=m2))
            if data2 is None:
                break
    if job.get("tamper"):
        for k, (cls, bad) in enumerate(tamper_set(data, evs, r, job["tamper"])):
            dc = cls.split("/", 1)[1] in DONT_CARE
            out.append(mk_trace(f"{tid}-t{k}", "rom", "dontcare" if dc else "tamper", bev + with_markers(rom.run(bad)), given=given, meta=dict(meta, cls=cls)))
            out.append(mk_trace(f"{tid}-t{k}p", "parse", "clean" if dc else "tamper", observe_parse(sp, bad), ref=ref, meta=dict(meta, cls=cls)))
        for k, (cls, bad) in enumerate(reseal_set(data, evs, r) if job["tamper"] > 0 else []):
            soft_only = cls.endswith("last-tag-on-the-first-section")       # decided by a SOFT clause of the automaton: parse is not asked to refuse it
            out.append(mk_trace(f"{tid}-r{k}", "rom", "softtamper" if soft_only else "tamper", bev + with_markers(rom.run(bad)), given=given, meta=dict(meta, cls=cls)))
            out.append(mk_trace(f"{tid}-r{k}p", "parse", "tamper" if soft_only else "mustraise", observe_parse(sp, bad), ref=ref, meta=dict(meta, cls=cls)))
    return out


# ------------------------------------------------------------------------------------------------------------------ files SPSDK did not write
def ref_given(idx, r, secs, minor=2, first=None):
    c = TIMES[idx % len(TIMES)]
    return {"minor": minor, "flags": r.getrandbits(16), "driveTag": r.getrandbits(16), "pv": [1, 2, 3], "cv": [999, 0, 9999], "tsc": c, "us": micros(c),
            "firstId": limbs(first if first is not None else unl(secs[0]["id"])), "secs": secs}


def ref_files(r):
    """Files laid out by the harness' own writer: what SPSDK must read although it cannot write it (or writes it differently)."""
    out = []
    sec = lambda i, fl, cmds: {"id": limbs(i), "sflags": fl, "cmds": cmds}  # noqa: E731
    plain = [acmd("fill", a=0x2000, n=8, x=0xC3D2E1F0), acmd("erase", a=0x60000000, n=0x10000, f=0, m=9), acmd("enable", a=0x2000, n=4, m=9),
             acmd("jump", a=0x2001, x=7, f=1, n=0x20004000), acmd("call", a=0x1000, x=0xFFFFFFFF), acmd("prog", a=4, n=0x11223344, x=0x55667788, m=4), acmd("reset")]
    out.append(("one-section", ref_given(1, r, [sec(0, 1, plain + [acmd("load", a=0x60001000, d=bytes(range(48)))])])))
    out.append(("two-sections", ref_given(2, r, [sec(0, 1, plain[:3]), sec(1, 1, [acmd("load", a=0x6000F000, d=bytes(range(64)))])])))
    out.append(("three-sections-last-not-bootable", ref_given(3, r, [sec(5, 1, [acmd("nop")]), sec(6, 1, plain[3:5]), sec(7, 0, [acmd("nop"), acmd("nop")])], first=6)))
    out.append(("load-length-not-multiple-of-16", ref_given(4, r, [sec(0, 1, [acmd("load", a=0x1000, d=bytes(range(1, 22)))])])))
    out.append(("fill-pattern-word-with-zero-bytes", ref_given(5, r, [sec(0, 1, [acmd("fill", a=0x1000, n=16, x=0x12, f=1), acmd("fill", a=0x2000, n=16, x=0xAB00, f=1)])])))
    out.append(("mode-command", ref_given(6, r, [sec(0, 1, [acmd("mode", x=1), acmd("nop")])])))
    out.append(("version-1.1", ref_given(7, r, [sec(0, 1, [acmd("nop")])], minor=1)))
    out.append(("empty-section", ref_given(8, r, [sec(0, 1, []), sec(1, 1, [acmd("nop")])])))
    out.append(("first-section-is-not-the-boot-section", ref_given(9, r, [sec(0x11, 0, [acmd("nop")]), sec(0x80000001, 1, [acmd("call", a=4, x=4)])], first=0x80000001)))
    return out


def process_ref(sp, item):
    name, g = item
    data = rom.write(g)
    evs = rom.run(data)
    given = {k: g[k] for k in ("minor", "flags", "driveTag", "pv", "cv", "tsc", "firstId", "secs")}
    out = [mk_trace(f"w-{name}", "ref", "clean", with_markers(evs), given=given, meta={"ref": name}, hex=data.hex())]
    if evs[-1]["ev"] == "Accept":
        out.append(mk_trace(f"w-{name}-p", "parse", "clean", observe_parse(sp, data), ref=ref_of(evs), meta={"ref": name}))
    return out


# ------------------------------------------------------------------------------------------------------------------ canary
def canary():
    """Hand-laid files (no SPSDK): the good one accepted with no soft clause failing, each corrupted copy rejected / reported where it must be."""
    r = rng("SYS", "sb1", "canary")
    name, g = ref_files(r)[1]
    data = rom.write(g)
    evs = with_markers(rom.run(data))
    given = {k: g[k] for k in ("minor", "flags", "driveTag", "pv", "cv", "tsc", "firstId", "secs")}
    good = mk_trace("c-good", "ref", "clean", evs, given=given)

    def variant(tid, fn):
        t = json.loads(json.dumps(good))
        t["id"] = tid
        fn(t)
        return t

    def ev_of(t, name, k=0):
        return [e for e in t["ev"] if e["ev"] == name][k]

    hard = {
        "c-cmd-addr": lambda t: ev_of(t, "Cmd", 1)["addr"].__setitem__(1, ev_of(t, "Cmd", 1)["addr"][1] + 4),
        "c-tag-at": lambda t: ev_of(t, "BootTag", 1).__setitem__("at", ev_of(t, "BootTag", 1)["at"] + 1),
        "c-digest-range": lambda t: ev_of(t, "CheckDigest").__setitem__("to", ev_of(t, "CheckDigest")["to"] - 16),
        "c-header-digest": lambda t: ev_of(t, "ParseHeader").__setitem__("digestOk", False),
        "c-image-blocks": lambda t: ev_of(t, "ParseHeader").__setitem__("imageBlocks", ev_of(t, "ParseHeader")["imageBlocks"] - 2),
        "c-load-crc": lambda t: [e for e in t["ev"] if e["ev"] == "Cmd" and e["tag"] == 2][0].__setitem__("crcOk", False),
        "c-missing-cmd": lambda t: t["given"]["secs"][0]["cmds"].append(acmd("nop")),
        "c-search": lambda t: ev_of(t, "BootSearch").__setitem__("index", 2),
    }
    soft = {
        "c-soft-table": (lambda t: ev_of(t, "TableEntry", 1).__setitem__("offset", ev_of(t, "TableEntry", 1)["offset"] - 1), "table/entry2/offset=boot-tag"),
        "c-soft-flags": (lambda t: t["given"].__setitem__("flags", (t["given"]["flags"] + 1) % 65536), "flags"),
        "c-soft-time": (lambda t: t["given"]["tsc"].__setitem__("sod", t["given"]["tsc"]["sod"] + 1), "timestamp"),
        "c-soft-last": (lambda t: ev_of(t, "BootTag", 0).__setitem__("last", True), "last_tag/not-on-final-section"),
    }
    # the writer's own construction mistake, on real bytes: the table offsets of the variant "tab_skips_tags" (what TLC refutes in Sb1RomMC_tab.cfg)
    bad_bytes = rom.write(g, variant="tab_skips_tags")
    traces = [good] + [variant(k, f) for k, f in hard.items()] + [variant(k, f) for k, (f, _) in soft.items()]
    traces.append(mk_trace("c-bytes-tab", "ref", "clean", with_markers(rom.run(bad_bytes)), given=given))
    flipped = bytearray(data)
    flipped[len(data) - 40] ^= 1
    traces.append(mk_trace("c-bytes-flip", "ref", "clean", with_markers(rom.run(bytes(flipped))), given=given))
    rej, res = tlc.tv("SYS", "Sb1RomTrace", traces, libs=LIBS)
    softs = {}
    for tid, nm in res.tuples("SOFT"):
        softs.setdefault(tid, set()).add(nm)
    want_rej = set(hard) | {"c-bytes-flip"}
    if set(rej) != want_rej:
        raise Machinery(f"SB 1.x canary failed: rejected {sorted(rej)}, expected {sorted(want_rej)}")
    want_soft = {k: {nm} for k, (_, nm) in soft.items()}
    want_soft["c-bytes-tab"] = {"table/entry2/offset=boot-tag"}
    if softs != want_soft:
        raise Machinery(f"SB 1.x canary failed: soft clauses {softs}, expected {want_soft}")
    return {"accepted": ["c-good"], "rejected": sorted(rej), "soft": {k: sorted(v) for k, v in softs.items()}}


# ------------------------------------------------------------------------------------------------------------------ keys
def cmd_kind(t, e):
    """Name of the command a rejected Cmd / PCmd event belongs to (from the builder input, else from the tag)."""
    labs = t.get("meta", {}).get("labs")
    try:
        if e["ev"] == "Cmd" and labs:
            return labs[e["sec"]][e["i"]]
    except Exception:  # noqa: BLE001
        pass
    return {0: "nop", 2: "load", 3: "fill", 4: "jump", 5: "call", 6: "mode", 7: "erase", 8: "reset", 9: "enable", 10: "prog"}.get(e.get("tag"), "?")


def generalise(lab):
    """Operand label -> class (the key must name the failing input CLASS, not the value)."""
    parts = lab.split("/")
    if len(parts) >= 2 and "=" in parts[1]:
        parts[1] = parts[1].split("=")[0]
    return "/".join(parts)


def key_of(t, matched):
    e = t["ev"][min(matched, len(t["ev"]) - 1)]
    kind, mode = t["kind"], t["mode"]
    meta = t.get("meta", {})
    multi = "multi-section" if meta.get("nsec", 1) > 1 else "one-section"
    if kind in ("rom", "ref", "anchor"):
        src = {"rom": "export", "ref": "own-writer", "anchor": "golden"}[kind]
        if meta.get("hist"):
            src = meta["hist"]
        if e["ev"] == "BuildOutcome":
            if mode == "api":
                return f"build/first_boot_section_id/identifier-of-a-section-refused/ids={meta.get('idclass')}"
            return f"build/{e['stage']}/{'refused' if e['documented'] else 'exception:' + e['exc']}"
        if e["ev"] == "Cmd":
            what = "checksum-wrong" if not e["chkOk"] else "crc-wrong" if not e["crcOk"] else "decoded-differs-from-given"
            return f"{src}/Cmd/{generalise(cmd_kind(t, e))}/{what}"
        if e["ev"] == "BootTag" and not e["chkOk"]:
            return f"{src}/BootTag/checksum-wrong"
        return f"{src}/{e['ev']}/{multi}"
    # parse
    ref = meta.get("ref")
    src = f"parse/own-writer:{ref}" if ref else f"parse/{mode}"
    cls = meta.get("cls", "")
    if e["ev"] == "ParseOutcome":
        if e["outcome"] == "returned":
            return f"{src}/accepted/{cls}"
        return f"{src}/refused/{e['exc']}" + (f"/{cls}" if cls else f"/{multi}")
    if e["ev"] == "PCmd":
        return f"{src}/content/command:{e['c']['k']}" + (f"/{cls}" if cls else "")
    return f"{src}/content/{e['ev']}" + (f"/{cls}" if cls else f"/{multi}")


def soft_key(t, name):
    meta = t.get("meta", {})
    if t["kind"] == "parse":
        ref = meta.get("ref")
        if name.startswith("parse:exception:"):
            return f"parse/{t['mode']}/undocumented-exception:{name.split(':')[2]}/{meta.get('cls', '').split('/')[0]}"
        return (f"parse/own-writer:{ref}" if ref else f"parse/{t['mode']}") + f"/field/{name.split(':')[1]}" + (f"/{meta['cls']}" if meta.get("cls") else "")
    src = meta.get("hist") or {"rom": "export", "ref": "own-writer", "anchor": "golden"}[t["kind"]]
    if name == "timestamp":
        c = t["given"]["tsc"]
        name = f"timestamp/{c['form']}" + ("/us" if c["us"] else "")
    if name.startswith("boot_target"):
        name += "/" + ("no-bootable-section" if not any(s["sflags"] & 1 for s in t["given"]["secs"]) else "no-section-with-that-id")
    if name.startswith("last_tag"):
        last_boot = t["given"]["secs"][-1]["sflags"] & 1 if t["kind"] != "anchor" else 1
        name += "" if last_boot else "/final-section-not-bootable"
    return f"{src}/{name}"


# ------------------------------------------------------------------------------------------------------------------ run
def jobs_of(tier, shapes, cases):
    r = rng("SYS", "sb1", "jobs")
    tour = list(cases)
    r.shuffle(tour)
    residues = [1, 15, 0, 5, 8, 13]
    quick = tier == "quick"
    jobs, idx = [], 0
    # operand lane: EVERY operand case once, in one-section files of 8 commands
    per = 8
    for k in range(0, len(cases), per):
        chunk = cases[k:k + per]
        cmds = [mk_case(c, (k + j) % 2 == 0) for j, c in enumerate(chunk)]
        g = header_values(idx, r)
        g.update(idx=idx, idclass="index", firstId=0, secs=[{"id": 0, "sflags": 1, "cmds": cmds, "labs": [case_label(c) for c in chunk]}])
        jobs.append({"g": g, "tamper": 0})
        idx += 1
    # shape lane: every shape TLC emitted, identifier classes rotating; tampering on a share of them
    reps = 1
    classes = ["index", "perm", "word", "index", "dup", "word"]
    n_t = 0
    # thorough: two shapes (one section / two sections, each with a LOAD) get every bit position flipped
    allbits = set()
    for want in (1, 2):
        allbits.add(next(k for k, sh in enumerate(shapes) if len(sh["secs"]) == want and all(s["boot"] and 1 in s["cmds"] and 0 in s["cmds"] for s in sh["secs"])))
    for rep in range(reps):
        for k, sh in enumerate(shapes):
            idc = classes[(k + rep) % len(classes)]
            if idc == "dup" and sh["first"] == 0:
                idc = "word"
            g = concretise(sh, idx, r, tour, residues, idc)
            tam = 0
            if (k + rep) % (25 if quick else 90) == 0:
                tam = 1 if quick else 2
                n_t += 1
            hist = [[None], ["section"], ["command"], [None, "section", "command"]][(k // 7) % 4] if (k + rep) % 7 == 3 else None
            if not quick and k in allbits:
                tam = -1
            jobs.append({"g": g, "tamper": tam, "hist": hist})
            idx += 1
    return jobs


def run(tier):
    os.environ["TZ"] = "UTC"
    time.tzset()
    timer = Timer()
    sp = Spsdk()
    rom.selftest()
    can = canary()
    say(f"[SYS/sb1] canary: hand-laid file accepted, {len(can['rejected'])} corrupted copies rejected, {len(can['soft'])} soft clauses reported ({timer.s()} s)")
    shapes, cases = generate(tier)
    say(f"[SYS/sb1] GEN: {len(shapes)} shapes (Sb1RomMC!GenInit), {len(cases)} operand cases (Sb2OperandsMC) ({timer.s()} s)")
    from concurrent.futures import ProcessPoolExecutor
    import multiprocessing as mp
    from lib.common import scratch

    pool = ProcessPoolExecutor(max_workers=1, mp_context=mp.get_context("fork"))
    mc_future = pool.submit(_mc_child, tier, os.path.join(scratch(), "mc"))        # model checking runs beside the executions
    jobs = jobs_of(tier, shapes, cases)
    r = rng("SYS", "sb1", "ref")
    refs = ref_files(r)
    results = pmap(lambda j: process(sp, j), jobs, chunksize=4)
    traces = [t for ts in results for t in ts]
    for item in refs:
        traces += process_ref(sp, item)
    # golden files of the repository (copied to anchors/SYS/sb1): the automaton alone, and SPSDK's parse
    for fn in sorted(os.listdir(ANCHORS)) if os.path.isdir(ANCHORS) else []:
        if fn.endswith(".sb"):
            with open(os.path.join(ANCHORS, fn), "rb") as f:
                data = f.read()
            evs = rom.run(data)
            nsec = sum(1 for e in evs if e["ev"] == "BootTag")
            traces.append(mk_trace(f"a-{fn}", "anchor", "clean", anchor_markers(evs), meta={"anchor": fn, "nsec": nsec}))
            if evs[-1]["ev"] == "Accept":
                traces.append(mk_trace(f"a-{fn}-p", "parse", "clean", observe_parse(sp, data), ref=ref_of(evs), meta={"anchor": fn, "nsec": nsec}))
    say(f"[SYS/sb1] {len(jobs)} builder inputs, {len(refs)} own-writer files -> {len(traces)} traces ({timer.s()} s)")
    slim = [{k: t[k] for k in ("id", "kind", "mode", "ev", "given", "ref")} for t in traces]
    rej, stats = _ptv(slim, tier)
    mc = mc_future.result()
    pool.shutdown()
    mc_states = sum(v.get("distinct", 0) for v in mc.values() if not v["violated"])
    say(f"[SYS/sb1] design model: ideal writer holds ({mc_states} states, every action fired); refuted: "
        + ", ".join(f"{c.replace('Sb1RomMC_', '').replace('.cfg', '')}->{v['how']}" for c, v in mc.items() if v["violated"]) + f" ({timer.s()} s)")
    by = {t["id"]: t for t in traces}
    classes, n_tamper, n_tamper_rej, unexpected = {}, 0, 0, []

    def note(key, t, detail):
        classes.setdefault(key, []).append({"trace": t["id"], "detail": detail, "meta": t.get("meta", {}), "hex": t.get("hex", "")[:400]})

    for t in traces:
        tam = t["kind"] in ("rom", "ref") and t["mode"] == "tamper"
        if tam:
            n_tamper += 1
        if t["id"] in rej:
            matched, length, evname = rej[t["id"]]
            if tam:
                n_tamper_rej += 1           # a corrupted file the automaton refuses: what the tamper runs measure
                continue
            if t["mode"] == "softtamper":
                continue
            if t["kind"] in ("rom", "ref") and t["mode"] == "dontcare":
                unexpected.append(f"{t['id']}: a change in a don't-care region was rejected at {evname}")
                continue
            if t["kind"] in ("ref", "anchor") and not t["id"].startswith("a-"):
                unexpected.append(f"{t['id']}: the harness' own writer and the automaton disagree at {evname} ({matched}/{length})")
                continue
            note(key_of(t, matched), t, {"rejected_at": evname, "matched": matched, "of": length, "event": t["ev"][min(matched, len(t["ev"]) - 1)]})
        elif tam:
            unexpected.append(f"{t['id']}: the automaton ACCEPTED a corrupted file ({t['meta'].get('cls')})")
    soft_seen = set()
    for tid, name in _ptv.softs:
        t = by[tid]
        if t["kind"] in ("rom", "ref") and t["mode"] in ("tamper", "dontcare", "softtamper"):
            if t["mode"] == "softtamper" and name.startswith("last_tag"):
                soft_seen.add(tid)
            continue
        if t["kind"] == "ref":
            unexpected.append(f"{tid}: soft clause {name} fails on a file of the harness' own writer")
            continue
        note(soft_key(t, name), t, {"clause": name})
    for t in traces:
        if t["mode"] == "softtamper" and t["id"] not in soft_seen and t["id"] not in rej:
            unexpected.append(f"{t['id']}: LAST_TAG moved to the first section and no clause of the automaton noticed")
    if unexpected:
        raise Machinery("machinery disagreement:\n  " + "\n  ".join(unexpected[:12]))
    n_impl = sum(1 for t in traces if t["kind"] in ("rom", "parse"))
    out = {"design_model": mc, "canary": can, "executions": len(jobs), "traces_validated": len(traces), "traces_of_the_implementation": n_impl,
           "tampered_files": n_tamper, "tampered_files_rejected_by_the_automaton": n_tamper_rej, "rejected": len(rej), "soft_clauses_failed": len(_ptv.softs),
           "tlc": {"mc_states": mc_states, "mc_generated": sum(v.get("generated", 0) for v in mc.values()), "tv": stats, "shapes": len(shapes), "operand_cases": len(cases)},
           "tier": tier, "wall_s": timer.s(),
           "trusted_base": "struct, hashlib.sha1, bit-serial CRC-32/MPEG-2 (lib/sb1_rom.py); no spsdk.crypto",
           "not_asserted": ["second signature of version 1.1 files", "encrypted SB 1.x (key dictionary, CBC-MAC) - SPSDK cannot write it", "LOAD count: the given length or the length padded to 16 (as C04 reads it)",
                            "naive time stamps outside UTC"],
           "classes": {k: {"count": len(v), "example": v[0]} for k, v in sorted(classes.items())}}
    root = os.path.join(os.environ.get("VERIF_ROOT", "/verif"), "evidence", "extras")
    os.makedirs(root, exist_ok=True)
    for fn in ("sys_sb1.json", "sb1.json"):
        with open(os.path.join(root, fn), "w") as f:
            json.dump(out, f, indent=1)
    for k, v in sorted(classes.items()):
        say(f"OBSERVATION: sys_sb1 {k} ({len(v)}x, e.g. {v[0]['trace']} {json.dumps(v[0]['detail'])[:160]})")
    say(f"[SYS/sb1] tier={tier} inputs={len(jobs)} traces={len(traces)} (implementation {n_impl}) tampered={n_tamper} (all rejected by the automaton) "
        f"rejected={len(rej)} soft={len(_ptv.softs)} classes={len(classes)} wall={timer.s()} s (observations only - not a listed property)")
    return 0


def _ptv(traces, tier):
    """Batch trace validation split over several TLC processes; REJ and SOFT lines collected, completeness demanded."""
    from lib import common
    from lib.ptv import check_complete

    traces = list(traces)
    n_chunks = max(1, min(4 if tier == "quick" else 10, len(traces) // 200))
    chunks = [(i, traces[i::n_chunks]) for i in range(n_chunks)]
    base = common.scratch()

    def work(item):
        i, part = item
        saved = common._scratch
        sub = os.path.join(base, f"sb1tv-{os.getpid()}-{i}")
        os.makedirs(sub, exist_ok=True)
        common._scratch = sub
        try:
            rej, res = tlc.tv("SYS", "Sb1RomTrace", part, libs=LIBS, timeout=1500, heap="3g")
            check_complete(res, len(part))
            return rej, [tuple(x) for x in res.tuples("SOFT")], {"distinct": res.distinct, "generated": res.generated, "wall": round(res.wall, 2), "cmd": res.cmd, "n": len(part)}
        finally:
            common._scratch = saved

    while len(chunks) < 4:      # lib.par.pmap runs fewer than four items one after the other
        chunks.append((len(chunks), []))
    outs = pmap(lambda it: work(it) if it[1] else ({}, [], None), chunks, procs=len(chunks), chunksize=1)
    rej, softs, stats = {}, [], []
    for a, b, c in outs:
        rej.update(a)
        softs += b
        if c:
            stats.append(c)
    _ptv.softs = softs
    return rej, stats


_ptv.softs = []


def replay(path):
    return run(os.environ.get("VERIF_TIER") or "quick")
