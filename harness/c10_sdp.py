"""SDP part of C10: executable twin of the i.MX ROM (serial and HID) + job generation."""
import struct

UNLOCKED, WRITE_OK, FILE_OK, SKIP_OK = 0x56787856, 0x128A8A12, 0x88888888, 0x900DD009
READ, WREG, WFILE, ERRSTAT, WCSF, WDCD, SKIPDCD, JUMP = 0x0101, 0x0202, 0x0404, 0x0505, 0x0606, 0x0A0A, 0x0C0C, 0x0B0B
DATA_OUT = {WFILE, WCSF, WDCD}
OPS = {"read": READ, "write": WREG, "write_file": WFILE, "write_dcd": WDCD, "write_csf": WCSF, "read_status": ERRSTAT, "jump": JUMP, "skip_dcd": SKIPDCD}


def W(v):
    """32-bit word -> [hi16, lo16] (TLC integers are 32-bit)."""
    v &= 0xFFFFFFFF
    return [v >> 16, v & 0xFFFF]


WORDS = [0, 1, 0xFF, 0x100, 0xFFFF, 0x10000, 0x7FFFFFFF, 0x80000000, 0x11223344, 0xFFFFFFFF, 0x20000000, 0x00907000]
NOPKT = {"addr": [0, 0], "fmt": 0, "cnt": [0, 0], "val": [0, 0], "rsv": 0}


class SdpTwin:
    def __init__(self, transport, bursts, fault, status_bad):
        from spsdk.utils.exceptions import SPSDKTimeoutError

        self.Timeout = SPSDKTimeoutError
        self.transport = transport
        self.bursts = list(bursts)  # serial: sizes of the bursts in which the byte stream arrives (then unlimited)
        self.fault = fault  # ("trunc", byte position in the device-to-host stream) | None
        self.status_bad = status_bad
        self.mem = bytearray((i * 11 + 5) & 0xFF for i in range(0x3000))
        self._o, self._t = False, 20000
        self.rx = b""
        self.tx = b"" if transport == "serial" else []
        self.sent = 0
        self.trace = []
        self.reads = 0
        self.pending = None
        self.got = bytearray()
        self.dead = False
        self.errcode = 0x33221100
        self.data_regions = []

    is_opened = property(lambda s: s._o)

    def open(self):
        self._o = True

    def close(self):
        self._o = False

    timeout = property(lambda s: s._t, lambda s, v: setattr(s, "_t", v))

    def __str__(self):
        return "sdp-twin"

    def read(self, length, timeout=None):
        self.reads += 1
        if self.reads > 4000:
            raise KeyboardInterrupt()
        if self.transport == "serial":
            if not self.tx:
                raise self.Timeout()
            n = length
            if self.bursts and self.in_data():
                n = min(n, self.bursts.pop(0))  # the DATA bytes arrive in bursts; a 4-byte status word is assumed to arrive in one piece
            d = self.tx[:n]
            self.tx = self.tx[n:]
            return d
        if not self.tx:
            raise self.Timeout()
        return self.tx.pop(0)

    def in_data(self):
        pos = self.sent - len(self.tx)
        return any(a <= pos < b for a, b in self.data_regions)

    def put(self, kind, data, **info):
        """Emit bytes of one logical item (hab / status / data); a truncation fault cuts the stream at an absolute byte position."""
        if self.dead:
            return
        f = "none"
        if self.fault and self.fault[0] == "trunc" and self.sent <= self.fault[1] < self.sent + len(data):
            data = data[: self.fault[1] - self.sent]
            self.dead = True
            f = "trunc"
        if f == "trunc" and self.transport == "hid":
            data = b""  # HID reports have a fixed size: a report is delivered completely or not at all
        # one flipped bit in a status word (HAB status or completion status; SDP has no CRC - a status word that is none of the defined values is
        # the only way a corrupted acknowledgement can be noticed; flips inside DATA cannot be noticed and are no listed fault)
        if self.fault and self.fault[0] == "flip" and kind in ("hab", "status") and self.sent <= self.fault[1] < self.sent + len(data):
            w = bytearray(data)
            w[self.fault[1] - self.sent] ^= 1 << (self.fault[2] % 8)
            data = bytes(w)
            f = "flip"
            if kind == "status":
                info["okValue"] = False
        if kind == "data":
            self.data_regions.append((self.sent, self.sent + len(data)))
        self.sent += len(data)
        ev = {"ev": "d2h", "kind": kind, "fault": f, "n": len(data) if kind == "data" else 0}
        ev.update(info)
        self.trace.append(ev)
        if self.transport == "serial":
            self.tx += data
        else:
            rid = 3 if kind == "hab" else 4
            if kind == "data":
                for i in range(0, len(data), 64):
                    self.tx.append(bytes([rid]) + data[i:i + 64].ljust(64, b"\0"))
            elif data:
                self.tx.append(bytes([rid]) + data)

    def write(self, data, timeout=None):
        data = bytes(data)
        if self.transport == "hid":
            rid, body = data[0], data[1:]
            if rid == 1:
                self.on_cmd(body[:16])
            elif rid == 2:
                self.on_data(body)
            return
        self.rx += data
        while self.rx:
            if self.pending is None:
                if len(self.rx) < 16:
                    return
                pkt, self.rx = self.rx[:16], self.rx[16:]
                self.on_cmd(pkt)
            else:
                chunk, self.rx = self.rx, b""
                self.on_data(chunk)

    def on_cmd(self, pkt):
        tag, addr, fmt, count, value, rsv = struct.unpack(">HIB2IB", pkt)
        self.trace.append({"ev": "h2d", "kind": "cmd", "tag": tag, "count": min(count, 2**31 - 1), "n": 0,
                           "pkt": {"addr": W(addr), "fmt": fmt, "cnt": W(count), "val": W(value), "rsv": rsv}})
        if tag in DATA_OUT and count > 0:
            self.pending = (tag, addr, count)
            self.got = bytearray()
            return
        self.respond(tag, addr, count)

    def on_data(self, chunk):
        if self.pending is None:
            self.trace.append({"ev": "h2d", "kind": "data", "n": len(chunk), "tag": 0, "count": 0})
            return
        tag, addr, count = self.pending
        take = chunk[: count - len(self.got)] if self.transport == "hid" else chunk
        # HID data reports are padded to the report size: the device takes what the command announced
        self.trace.append({"ev": "h2d", "kind": "data", "n": len(take), "tag": 0, "count": 0})
        self.got += take
        self.mem[addr:addr + len(self.got)] = self.got if len(self.got) <= count else self.got[:count]
        if len(self.got) >= count:
            self.pending = None
            self.respond(tag, addr, count)

    def respond(self, tag, addr, count):
        self.put("hab", struct.pack(">I", UNLOCKED))
        if tag == READ:
            blob = bytes(self.mem[addr:addr + count])
            for i in range(0, count, 64):
                self.put("data", blob[i:i + 64])
        elif tag == JUMP:
            pass
        else:
            ok = {WREG: WRITE_OK, WDCD: WRITE_OK, WCSF: WRITE_OK, WFILE: FILE_OK, SKIPDCD: SKIP_OK, ERRSTAT: self.errcode}[tag]
            val = 0x0BADBAD0 if (self.status_bad and tag != ERRSTAT) else ok
            self.put("status", struct.pack(">I", val), okValue=(val == ok))


def run_sdp(job):
    from spsdk.exceptions import SPSDKError
    from spsdk.sdp.protocol.bulk_protocol import SDPBulkProtocol
    from spsdk.sdp.protocol.serial_protocol import SDPSerialProtocol
    from spsdk.sdp.sdp import SDP

    jid, transport, op, length, bursts, fkind, fpos = job
    twin = SdpTwin(transport, bursts, (fkind, fpos) if fkind == "trunc" else (("flip", fpos // 8, fpos % 8) if fkind == "flip" else None), fkind == "err")
    proto = (SDPSerialProtocol if transport == "serial" else SDPBulkProtocol)(twin)
    proto.identifier = "twin"
    s = SDP(proto)
    s.open()
    from lib.common import rng

    r = rng("C10", "sdp-args", jid)
    data = bytes((i * 13 + 7) & 0xFF for i in range(length))
    tag = OPS[op]
    # arguments from value classes (API order); data operations stay inside the twin's memory
    if op == "read":
        args = [r.choice([0x100, 0x104, 0x2ff, r.randrange(0, 0x2000)]), length, r.choice([8, 16, 32])]
    elif op == "write":
        args = [r.choice(WORDS), r.choice(WORDS), r.choice([1, 2, 4]), r.choice([8, 16, 32])]
    elif op in ("write_file", "write_dcd", "write_csf"):
        args = [r.choice([0x1000, 0x1004, 0x1fff, r.randrange(0x400, 0x2000)])]
    elif op == "jump":
        args = [r.choice(WORDS)]
    else:
        args = []
    call = {"ev": "call", "op": op, "tag": tag, "len": length if (tag == READ or tag in DATA_OUT) else 0, "args": [W(x) for x in args], "dl": W(len(data))}
    res = {"ev": "result", "kind": "ret", "ok": False, "reads": 0, "documented": True, "dataExact": False, "dataLen": 0, "devGotExact": False,
           "devBytes": 0, "valueExact": False, "exc": "none"}
    try:
        if op == "read":
            want = bytes(twin.mem[args[0]:args[0] + length])
            r = s.read(*args)
            res["ok"] = r is not None and s.status_code == 0
            if r is not None:
                res["dataLen"] = len(r)
                res["dataExact"] = bytes(r) == want[:len(r)] and len(r) <= len(want)
        elif op == "write":
            res["ok"] = s.write(*args) is True
        elif op in ("write_file", "write_dcd", "write_csf"):
            r = getattr(s, op)(args[0], data)
            res["ok"] = r is True
            res["devGotExact"] = bytes(twin.mem[args[0]:args[0] + length]) == data and bytes(twin.got) == data
            res["devBytes"] = len(twin.got)
        elif op == "read_status":
            r = s.read_status()
            res["ok"] = r is not None
            res["valueExact"] = r == twin.errcode
        elif op == "jump":
            res["ok"] = s.jump_and_run(args[0]) is True
        elif op == "skip_dcd":
            res["ok"] = s.skip_dcd() is True
        # the status code is part of what a call reports: a call is a success only with status SUCCESS (a HAB status word that is not UNLOCKED
        # leaves HAB_IS_LOCKED there - for a device that really is locked that is information, for a damaged word it is how the fault surfaces)
        res["ok"] = bool(res["ok"]) and s.status_code == 0
    except SPSDKError as e:
        res.update(kind="exc", exc=type(e).__name__, documented=True, ok=False)
    except TimeoutError as e:
        res.update(kind="exc", exc=type(e).__name__, documented=True, ok=False)
    except KeyboardInterrupt:
        res.update(kind="unbounded", exc="unbounded", documented=False, ok=False)
    except BaseException as e:  # noqa: BLE001
        res.update(kind="exc", exc=type(e).__name__, documented=False, ok=False)
    res["reads"] = twin.reads
    evs = [call] + twin.trace + [res]
    return {"id": jid, "ev": [norm(e) for e in evs], "job": list(job)}


def norm(e):
    return {"ev": e["ev"], "op": e.get("op", "none"), "kind": str(e.get("kind", "none")), "tag": int(e.get("tag", 0)), "len": int(e.get("len", 0)),
            "count": int(e.get("count", 0)), "n": int(e.get("n", 0)), "fault": e.get("fault", "none"), "okValue": bool(e.get("okValue", True)),
            "ok": bool(e.get("ok", False)), "reads": int(e.get("reads", 0)), "documented": bool(e.get("documented", True)),
            "dataExact": bool(e.get("dataExact", False)), "dataLen": int(e.get("dataLen", 0)), "devGotExact": bool(e.get("devGotExact", False)),
            "devBytes": int(e.get("devBytes", 0)), "valueExact": bool(e.get("valueExact", False)), "exc": e.get("exc", "none"),
            "args": e.get("args", []), "dl": e.get("dl", [0, 0]), "pkt": e.get("pkt", NOPKT)}


def sdp_jobs(tier, r):
    jobs, n = [], 0
    for transport in ("serial", "hid"):
        for op in OPS:
            lens = [1, 4, 5, 16, 63, 64, 65, 84, 128, 200] if op in ("read", "write_file", "write_dcd", "write_csf") else [0]
            for ln in lens:
                n += 1
                jobs.append((f"sdp-{n}", transport, op, ln, [], "none", 0))
                if transport == "serial":
                    # the same bytes arriving in several bursts (short reads): not a fault
                    for _ in range(3 if tier == "quick" else 12):
                        n += 1
                        bursts = [r.choice([1, 2, 3, 4, 5, 7, 20, 60, 64]) for _ in range(r.randrange(1, 6))]
                        jobs.append((f"sdp-{n}", transport, op, ln, bursts, "none", 0))
                # device reports a failure status
                if op not in ("read", "jump", "read_status"):
                    n += 1
                    jobs.append((f"sdp-{n}", transport, op, ln, [], "err", 0))
                # the stream ends early at every position class
                total = 4 + (ln if op == "read" else 0) + (0 if op in ("read", "jump") else 4)
                pts = sorted({0, 1, 3, 4, 5, 7, total - 1, total - 2, total // 2} | ({r.randrange(total) for _ in range(4)} if tier == "quick" else set(range(total))))
                for p in pts:
                    if 0 <= p < total:
                        n += 1
                        jobs.append((f"sdp-{n}", transport, op, ln, [], "trunc", p))
                # one flipped bit in the HAB status word (first 4 bytes) and, where there is one, in the completion status word (last 4 bytes)
                words = [0] + ([total - 4] if op not in ("read", "jump", "read_status") else [])      # the second word of read_status is DATA (the error code)
                for w0 in words:
                    for byte in range(4):
                        for bit in ((0, 3, 7) if tier == "quick" else range(8)):
                            n += 1
                            jobs.append((f"sdp-{n}", transport, op, ln, [], "flip", (w0 + byte) * 8 + bit))
    return jobs
