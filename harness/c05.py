"""C05 - Secure Binary 3.1: hash chain, block keys, commands decode to the input; exporting twice.

spec/C05/Sb31Rom.tla      R-spec: acceptance automaton of the SB 3.1 loader (header, certificate block v2.1, ONE signature,
                          hash chain, CMAC counter-mode KDF parameters, section header, 14 command formats, coverage)
spec/C05/Sb31Build.tla    the documented construction as an event generator + a menu of construction mistakes
spec/C05/Sb31RomMC.tla    MC : automaton fed by Sb31Build - accepts every clean construction, rejects every effective mistake
spec/C05/Sb31Gen.tla      GEN: TLC enumerates / simulates abstract cases (configuration x command list x data lengths)
spec/C05/Sb31Obj.tla      I-spec of one SecureBinary31 object exported repeatedly (as built / intended) + history GEN
spec/C05/Sb31RomTrace.tla TV : batch trace validation of the executor's events against Sb31Rom

Python only DRIVES: it concretises the abstract cases, builds the containers through the real classes
(SecureBinary31, SecureBinary31Commands, Cmd*, CertBlockV21), exports, and lets the independent executor c05_rom
(no spsdk; hashlib + `cryptography` primitives) walk the exported bytes.  TLC decides every trace.
"""
import hashlib
import json
import os

import c05_rom as rom
from lib import tlc
from lib.common import ROOT, Machinery, import_spsdk, rng, say
from lib.par import pmap
from lib.verdict import Verdict

PROP = "C05"
KEYS = os.path.join(ROOT, "keys", "sb31")
FAMILY = "mcxn947"
CMD_NAMES = {1: "ERASE", 2: "LOAD", 3: "EXECUTE", 4: "CALL", 5: "PROGRAM_FUSES", 6: "PROGRAM_IFR", 7: "LOAD_CMAC", 8: "COPY",
             9: "LOAD_HASH_LOCKING", 10: "LOAD_KEY_BLOB", 11: "CONFIGURE_MEMORY", 12: "FILL_MEMORY", 13: "FW_VERSION_CHECK", 14: "RESET"}
DATA_CMDS = (2, 5, 6, 7, 9, 10)
W = rom.W


# ------------------------------------------------------------------ key pool (read only)
class Pool:
    def __init__(self):
        from cryptography.hazmat.primitives import serialization as ser

        self.pub_pem, self.pub_xy, self.priv_path = {}, {}, {}
        for curve, d in ((32, "p256"), (48, "p384")):
            for k in ("root0", "root1", "root2", "root3", "isk"):
                p = os.path.join(KEYS, d, k + ".pub.pem")
                if not os.path.exists(p):
                    raise Machinery(f"key pool incomplete: {p} (run keys/sb31/gen_keys.py)")
                pem = open(p, "rb").read()
                key = ser.load_pem_public_key(pem)
                n = key.public_numbers()
                self.pub_pem[curve, k] = pem
                self.pub_xy[curve, k] = n.x.to_bytes(curve, "big") + n.y.to_bytes(curve, "big")
                self.priv_path[curve, k] = os.path.join(KEYS, d, k + ".pem")
        self.pck = {b: bytes.fromhex(open(os.path.join(KEYS, f"pck{b}.txt")).read().strip()) for b in (128, 256)}
        self._sp = {}

    def sp(self, curve, k):
        from spsdk.crypto.signature_provider import PlainFileSP

        if (curve, k) not in self._sp:
            self._sp[curve, k] = PlainFileSP(self.priv_path[curve, k])
        return self._sp[curve, k]

    def rotkth(self, curve, nkeys):
        return rom.rotkth([self.pub_xy[curve, f"root{i}"] for i in range(nkeys)])


_pool = None


def pool():
    global _pool
    if _pool is None:
        _pool = Pool()
    return _pool


# ------------------------------------------------------------------ abstract case -> concrete input
def word(r):
    k = r.randrange(8)
    return (0, 1, 0x7FFFFFFF, 0x80000000, 0xFFFFFFFF)[k] if k < 5 else r.getrandbits(32) if k < 7 else r.getrandbits(12)


def conc_cmd(ac, r):
    """abstract command {t, dl} -> concrete command (all field values in range of the documented format)."""
    t = ac["t"]
    c = {"t": t, "a": 0, "n": 0, "x1": 0, "x2": 0, "x3": 0, "data": ""}
    if t in (1, 8, 12):
        c["a"], c["n"] = word(r), word(r)
    if t in (2, 3, 4, 5, 6, 7, 9, 11, 13):
        c["a"] = word(r)
    if t in (1, 2, 7, 9, 11, 12):
        c["x1"] = word(r)  # memory id / pattern
    if t == 8:
        c["x1"], c["x2"], c["x3"] = word(r), word(r), word(r)
    if t == 10:
        c["a"], c["x1"] = r.choice([0, 4, 0xFFFF, r.getrandbits(16)]), r.choice([16, 17, 18, 19, 0xFFFF, r.getrandbits(16)])
    if t == 13:
        c["x1"] = r.randrange(6)
    if t in DATA_CMDS:
        dl = ac.get("dl", 0)
        if t == 5:
            dl -= dl % 4
        c["data"] = r.randbytes(dl).hex()
    return c


def concretise(case, r):
    """Abstract case (TLC) -> concrete builder input; deterministic in (VERIF_SEED, case)."""
    ts = r.choice([1, 0xFFFFFFFF, 0x100000000, 2**63, 2**64 - 1, r.getrandbits(32) + 1, r.getrandbits(64) | 1, 0x2A5B0E11])
    dlen = r.choice([0, 1, 5, 15, 16, 16, 17, 20])
    c = dict(case)
    c.update(
        ts=ts, fw=word(r), flags=word(r), desc="".join(chr(r.randrange(0x20, 0x7F)) for _ in range(dlen)),
        desc_none=(dlen == 0 and r.random() < 0.5), constraints=word(r) if case["isk"] else 0,
        udata=r.randbytes(case["ud"]).hex() if case["isk"] else "", cmds=[conc_cmd(ac, r) for ac in case["cmds"]])
    return c


def spec_cmd(c):
    data = bytes.fromhex(c["data"])
    return {"t": c["t"], "a": W(c["a"]), "n": W(c["n"]), "x1": W(c["x1"]), "x2": W(c["x2"]), "x3": W(c["x3"]), "dlen": len(data),
            "dsha": hashlib.sha256(data).hexdigest()[:16] if c["t"] in DATA_CMDS else ""}


def spec_inp(c, waive=()):
    ud = bytes.fromhex(c["udata"])
    return {"curve": c["curve"], "nkeys": c["nkeys"], "used": c["used"], "isk": c["isk"], "iskCurve": c["curve"], "udLen": len(ud),
            "udSha": hashlib.sha256(ud).hexdigest()[:16] if c["isk"] else "", "constraints": W(c["constraints"]), "pckBits": c["pck"],
            "rights": c["rights"], "enc": c["enc"], "nxp": c["nxp"], "flags": W(c["flags"]), "fw": W(c["fw"]), "ts": rom.limbs(c["ts"], 4),
            "desc": [ord(x) for x in c["desc"]], "cmds": [spec_cmd(x) for x in c["cmds"]], "waive": list(waive)}


def rom_env(c):
    """What the device is provisioned with (fuses): root-of-trust hash, part-common key, access rights, encryption mode."""
    p = pool()
    return {"rotkth": p.rotkth(c["curve"], c["nkeys"]), "pck": p.pck[c["pck"]], "rights": c["rights"], "enc": c["enc"]}


# ------------------------------------------------------------------ the real code
def real_cmd(c):
    from spsdk.sbfile.sb31 import commands as C

    t, data = c["t"], bytes.fromhex(c["data"])
    if t == 1:
        return C.CmdErase(address=c["a"], length=c["n"], memory_id=c["x1"])
    if t == 2:
        return C.CmdLoad(address=c["a"], data=data, memory_id=c["x1"])
    if t == 3:
        return C.CmdExecute(address=c["a"])
    if t == 4:
        return C.CmdCall(address=c["a"])
    if t == 5:
        return C.CmdProgFuses(address=c["a"], data=data)
    if t == 6:
        return C.CmdProgIfr(address=c["a"], data=data)
    if t == 7:
        return C.CmdLoadCmac(address=c["a"], data=data, memory_id=c["x1"])
    if t == 8:
        return C.CmdCopy(address=c["a"], length=c["n"], destination_address=c["x1"], memory_id_from=c["x2"], memory_id_to=c["x3"])
    if t == 9:
        return C.CmdLoadHashLocking(address=c["a"], data=data, memory_id=c["x1"])
    if t == 10:
        return C.CmdLoadKeyBlob(offset=c["a"], data=data, key_wrap_id=c["x1"])
    if t == 11:
        return C.CmdConfigureMemory(address=c["a"], memory_id=c["x1"])
    if t == 12:
        return C.CmdFillMemory(address=c["a"], length=c["n"], pattern=c["x1"])
    if t == 13:
        return C.CmdFwVersionCheck(value=c["a"], counter_id=C.CmdFwVersionCheck.CounterID.from_tag(c["x1"]))
    if t == 14:
        return C.CmdReset()
    raise Machinery(f"no command type {t}")


def build(c):
    """Concrete input -> a real SecureBinary31 object (commands added one by one through the public classes)."""
    from spsdk.sbfile.sb31.images import SecureBinary31
    from spsdk.utils.crypto.cert_blocks import CertBlockV21

    p = pool()
    curve, used = c["curve"], c["used"]
    cb = CertBlockV21(
        root_certs=[p.pub_pem[curve, f"root{i}"] for i in range(c["nkeys"])], ca_flag=not c["isk"], used_root_cert=used,
        constraints=c["constraints"], signature_provider=p.sp(curve, f"root{used}") if c["isk"] else None,
        isk_cert=p.pub_pem[curve, "isk"] if c["isk"] else None, user_data=bytes.fromhex(c["udata"]) or None, family=FAMILY)
    cb.calculate()
    sb = SecureBinary31(
        family=FAMILY, cert_block=cb, firmware_version=c["fw"], signature_provider=p.sp(curve, "isk" if c["isk"] else f"root{used}"),
        pck=p.pck[c["pck"]] if c["enc"] else None, kdk_access_rights=c["rights"] if c["enc"] else None,
        description=None if c["desc_none"] else c["desc"], is_nxp_container=c["nxp"], flags=c["flags"], timestamp=c["ts"], is_encrypted=c["enc"])
    if c.get("via_set"):
        sb.sb_commands.set_commands([real_cmd(x) for x in c["cmds"]])
    else:
        for x in c["cmds"]:
            sb.sb_commands.add_command(real_cmd(x))
    return sb


def observe(case, tid, keep_bytes=False):
    """Run one abstract case on the real code: build, replay its export history, executor on every exported file.
    Returns the list of traces (one per Export)."""
    r = rng(PROP, "case", json.dumps(case, sort_keys=True))
    c = concretise(case, r)
    c["via_set"] = r.random() < 0.3
    out = []
    try:
        sb = build(c)
    except Exception as e:  # noqa: BLE001 - refusing an in-range input is an observation: no file, so no Accept
        return [{"id": f"{tid}.1", "case": case, "conc": c, "k": 1, "inp": spec_inp(c), "ev": [{"ev": "BuilderRefused", "exc": type(e).__name__, "msg": str(e)[:200]}]}]
    k = 0
    for op in case.get("hist", ["Export"]):
        if op == "Add":
            ac = {"t": r.choice(list(CMD_NAMES)), "dl": r.choice([0, 3, 16, 100, 240, 256, 300])}
            cc = conc_cmd(ac, r)
            c["cmds"] = c["cmds"] + [cc]
            sb.sb_commands.add_command(real_cmd(cc))
            continue
        k += 1
        t = {"id": f"{tid}.{k}", "case": case, "conc": json.loads(json.dumps(c)), "k": k, "inp": spec_inp(c)}
        try:
            data = sb.export()
        except Exception as e:  # noqa: BLE001
            t["ev"] = [{"ev": "ExportRefused", "exc": type(e).__name__, "msg": str(e)[:200]}]
            out.append(t)
            break
        t["ev"] = rom.run(data, rom_env(c))
        t["len"] = len(data)
        if keep_bytes or t["ev"][-1]["ev"] != "Accept":
            t["file"] = data.hex()
        out.append(t)
    return out


def strip(t):
    return {"id": t["id"], "inp": t["inp"], "ev": t["ev"]}


# ------------------------------------------------------------------ finding keys (naming only - the verdict is TLC's)
def clause_of(t, matched):
    ev = t["ev"][min(matched, len(t["ev"]) - 1)]
    k = ev["ev"]
    if k == "Layout":
        return "total_length"
    if k == "Block":
        if not ev["hashOk"]:
            return "Block/chain-hash"
        if ev["last"] and not ev["nextZero"]:
            return "last-block-hash"
        if ev["num"] != ev["i"]:
            return "Block/number"
        return "Block/position-or-key-derivation"
    if k == "Cmd":
        i = ev["i"]
        exp = t["inp"]["cmds"][i - 1]["t"] if 1 <= i <= len(t["inp"]["cmds"]) else 0
        return f"Cmd/{CMD_NAMES.get(exp, 'unexpected-extra-command')}"
    if k in ("BuilderRefused", "ExportRefused"):
        return f"{k}/{ev['exc']}"
    false = sorted(f for f, x in ev.items() if x is False and f not in ("ca", "hasUserData", "last", "enc", "hasX"))
    return k + ("/" + false[0] if false else "")


def finding_key(t, matched):
    cls = "build" if t["k"] == 1 else f"history/export#{t['k']}"
    return f"C05/{cls}/{clause_of(t, matched)}"


def describe(t, matched):
    c = t["case"]
    ev = t["ev"][min(matched, len(t["ev"]) - 1)]
    return (f"export #{t['k']} of a container (P-{c['curve'] * 8}, {c['nkeys']} root keys, used {c['used']}, isk={c['isk']}, pck={c['pck']}, rights={c['rights']}, "
            f"enc={c['enc']}, {len(t['inp']['cmds'])} commands, history {c.get('hist', ['Export'])}) is not accepted by the loader automaton: "
            f"event #{matched + 1} {json.dumps(ev)[:500]}")


def validate(v, traces, what):
    """TLC decides all traces; rejected ones become violations; rejected files are re-examined with the failing layout clause
    waived so that an independent second defect in the same file gets its own finding key."""
    rej, res = tlc.tv("C05", "Sb31RomTrace", [strip(t) for t in traces], heap="8g")
    v.traces(len(traces))
    v.extra["tv_states"] = v.extra.get("tv_states", 0) + res.distinct
    by_id = {t["id"]: t for t in traces}
    for t in traces:
        if t["id"] not in rej and t["ev"][-1]["ev"] != "Accept":
            raise Machinery(f"trace {t['id']} consumed by the spec but does not end with Accept: {t['ev'][-1]}")
    diag = []
    for tid, (matched, length, evname) in rej.items():
        t = by_id[tid]
        v.violation(finding_key(t, matched), describe(t, matched), {"case": t["case"], "export": t["k"], "conc": t["conc"], "trace": strip(t), "failed_event": matched + 1,
                                                                    "file": t.get("file")})
        if evname == "Layout" and t.get("file"):
            d = dict(t)
            d["id"] = t["id"] + ".diag"
            d["inp"] = dict(t["inp"], waive=["Layout"])
            d["ev"] = rom.run(bytes.fromhex(t["file"]), rom_env(t["conc"]), waive=("Layout",))
            diag.append(d)
    if diag:
        rej2, _ = tlc.tv("C05", "Sb31RomTrace", [strip(t) for t in diag], heap="8g")
        by_id = {t["id"]: t for t in diag}
        for tid, (matched, length, evname) in rej2.items():
            t = by_id[tid]
            v.violation(finding_key(t, matched), describe(t, matched) + " (second defect of this file: total-length clause waived)",
                        {"case": t["case"], "export": t["k"], "conc": t["conc"], "trace": strip(t), "failed_event": matched + 1, "file": t.get("file"), "waived": ["Layout"]})
    say(f"[C05] {what}: {len(traces)} traces validated, {len(rej)} rejected ({v.timer.s()}s)")
    return rej
