"""C05 - Secure Binary 3.1: hash chain, block keys, commands decode to the input; exporting twice.

spec/C05/Sb31Rom.tla      R-spec: acceptance automaton of the SB 3.1 loader (header, certificate block v2.1, ONE signature,
                          hash chain, CMAC counter-mode KDF parameters, section header, 14 command formats, coverage)
spec/C05/Sb31Build.tla    the documented construction as an event generator + a menu of construction mistakes
spec/C05/Sb31RomMC.tla    MC : automaton fed by Sb31Build - accepts every clean construction, rejects every effective mistake
spec/C05/Sb31Gen.tla      GEN: TLC enumerates / simulates abstract cases (configuration x command list x data lengths)
spec/C05/Sb31CfgGen.tla   GEN: the same for the CONFIGURATION entry point (SecureBinary31.load_from_config): how a configuration expresses the
                          part-common key, the signing keys, the certificate block, numbers and every command kind (harness/c05_cfg.py renders)
spec/C05/Sb31Obj.tla      I-spec of one SecureBinary31 object exported repeatedly (as built / intended) + history GEN
spec/C05/Sb31Own.tla      ownership of the command LIST handed to set_commands: GEN of call histories (hand-over, the caller touches its list, a second
                          container, add / insert, export) with the supplied content per export; MC: snapshot holds, alias refuted
spec/C05/Sb31RomTrace.tla TV : batch trace validation of the executor's events against Sb31Rom

Key pool (keys/sb31, read only): every slot (root0..root3, isk) x curve holds one key of every VALUE CLASS of Sb31Format!KeyClasses -
full width, leading zero byte in X, in Y, in both (derived deterministically by keys/sb31/gen_keys.py).  The GEN specs give every root
position and the ISK a class (case.rk, case.ik); the device's root-of-trust hash is computed here from the fixed-width coordinates.

REQUEST x SUPPLY (Sb31Format!Givens, case field `given`): the constructors / the configuration take key material (part-common key, access
rights) and ISK certificate material as OPTIONAL inputs next to the request (is_encrypted, ca_flag / useIsk).  The GEN specs enumerate every
supply a request admits (tour G, tour P2; Sb31Build holds the matching construction mistakes "encrypts_when_..._supplied",
"isk_certificate_when_supplied"); build() hands over what `given` says, requested or not.  The loader of a plain container holds no key.

Python only DRIVES: it concretises the abstract cases, builds the containers through the real classes
(SecureBinary31, SecureBinary31Commands, Cmd*, CertBlockV21) or - configuration lane - renders a configuration dictionary + files
and calls SecureBinary31.load_from_config, exports, and lets the independent executor c05_rom
(no spsdk; hashlib + `cryptography` primitives) walk the exported bytes.  TLC decides every trace.
"""
import hashlib
import json
import os
import time
from concurrent.futures import ThreadPoolExecutor

import c05_cfg as cfgl
import c05_rom as rom
from lib import tlc
from lib.common import ROOT, Machinery, import_spsdk, rng, say
from lib.par import pmap
from lib.verdict import Verdict

PROP = "C05"
KEYS = os.path.join(ROOT, "keys", "sb31")
FAMILY = "mcxn947"
CMD_NAMES = {1: "ERASE", 2: "LOAD", 3: "EXECUTE", 4: "CALL", 5: "PROGRAM_FUSES", 6: "PROGRAM_IFR", 7: "LOAD_CMAC", 8: "COPY",
             9: "LOAD_HASH_LOCKING", 10: "LOAD_KEY_BLOB", 11: "CONFIGURE_MEMORY", 12: "FILL_MEMORY", 13: "FW_VERSION_CHECK", 14: "RESET"}
DATA_CMDS = (2, 5, 6, 7, 9, 10)
W = rom.W


# ------------------------------------------------------------------ key pool (read only)
KEY_CLASSES = ("full", "lzx", "lzy", "lzxy")   # Sb31Format!KeyClasses: no / X / Y / both coordinates of the public point start with a zero byte


def kname(slot, cls="full"):
    """Pool key for a slot (root0..root3, isk) and a value class: every slot holds one key of every class."""
    return slot if cls == "full" else f"{slot}_{cls}"


class Pool:
    def __init__(self):
        from cryptography.hazmat.primitives import serialization as ser

        self.pub_pem, self.pub_xy, self.priv_path, self.pub_path = {}, {}, {}, {}
        for curve, d in ((32, "p256"), (48, "p384")):
            for slot in ("root0", "root1", "root2", "root3", "isk"):
                for cls in KEY_CLASSES:
                    k = kname(slot, cls)
                    p = os.path.join(KEYS, d, k + ".pub.pem")
                    if not os.path.exists(p):
                        raise Machinery(f"key pool incomplete: {p} (run keys/sb31/gen_keys.py)")
                    pem = open(p, "rb").read()
                    key = ser.load_pem_public_key(pem)
                    n = key.public_numbers()
                    xy = n.x.to_bytes(curve, "big") + n.y.to_bytes(curve, "big")      # fixed width: what every documented construction takes
                    if rom.lz(xy) != [cls in ("lzx", "lzxy"), cls in ("lzy", "lzxy")]:
                        raise Machinery(f"key pool: {p} is not of the value class '{cls}' (leading zero bytes of X, Y: {rom.lz(xy)})")
                    self.pub_pem[curve, k] = pem
                    self.pub_xy[curve, k] = xy
                    self.pub_path[curve, k] = p
                    self.priv_path[curve, k] = os.path.join(KEYS, d, k + ".pem")
        self.pck = {b: bytes.fromhex(open(os.path.join(KEYS, f"pck{b}.txt")).read().strip()) for b in (128, 256)}
        self._sp = {}

    def sp(self, curve, k):
        from spsdk.crypto.signature_provider import PlainFileSP

        if (curve, k) not in self._sp:
            self._sp[curve, k] = PlainFileSP(self.priv_path[curve, k])
        return self._sp[curve, k]

    def rotkth(self, curve, roots):
        """What the fuses hold for the root set `roots` (pool key names): from the fixed-width X || Y of every key, hashlib only."""
        return rom.rotkth([self.pub_xy[curve, k] for k in roots])


_pool = None


def pool():
    global _pool
    if _pool is None:
        _pool = Pool()
    return _pool


def roots_of(c):
    """Pool key names of the root set of a case: position i holds the key of slot root<i> of the class the case gives it."""
    rk = c.get("rk") or ["full"] * c["nkeys"]
    if len(rk) != c["nkeys"] or any(x not in KEY_CLASSES for x in rk):
        raise Machinery(f"case with key classes {rk} for {c['nkeys']} root keys")
    return [kname(f"root{i}", rk[i]) for i in range(c["nkeys"])]


def isk_of(c):
    return kname("isk", c.get("ik") or "full")


# ------------------------------------------------------------------ what is supplied next to what is requested
def requested(c):
    """Sb31Format!Requested: the supply that goes with the request and nothing else."""
    return {"pck": c["pck"] if c["enc"] else 0, "rights": c["rights"] if c["enc"] else -1, "isk": bool(c["isk"])}


def given_of(c):
    """Sb31Format!Givens: what the caller hands the constructors - part-common key of `pck` bits (0: none), access rights (-1: none),
    material of an ISK certificate - whether the request (enc, isk) asks for it or not.  What is requested must be supplied."""
    g = c.get("given") or requested(c)
    if (c["enc"] and (g["pck"] != c["pck"] or g["rights"] != c["rights"])) or (c["isk"] and not g["isk"]) or g["pck"] not in (0, 128, 256) \
            or g["rights"] not in (-1, 0, 1, 2, 3):
        raise Machinery(f"case outside the case space: request enc={c['enc']} pck={c['pck']} rights={c['rights']} isk={c['isk']}, supply {g}")
    return g


def supplied_text(c, values=True):
    """Naming only: what is supplied although it is not requested ('' = nothing); values=False: the class (for finding keys)."""
    g, out = given_of(c), []
    if not c["enc"] and g["pck"]:
        out.append(f"pck{g['pck']}")
    if not c["enc"] and g["rights"] >= 0:
        out.append(f"rights{g['rights']}" if values else "rights")
    if not c["isk"] and g["isk"] and values:
        out.append("isk-material")
    return "+".join(out)


def rng_key(case):
    """Label of the random stream of a case.  The dimensions added later (given; configuration lane: k.rightsGiven, k.iskGiven) are left out
    of the label where they hold their defaults, so that a case keeps the concrete values it always had."""
    c = {k: v for k, v in case.items() if k not in ("given", "dsc")}
    more = []
    if given_of(case) != requested(case):
        more.append(json.dumps(case["given"], sort_keys=True))
    if case.get("dsc", "any") != "any":
        more.append(case["dsc"])
    if "k" in case:
        c["k"] = {k: v for k, v in case["k"].items() if k not in ("rightsGiven", "iskGiven")}
    return [json.dumps(c, sort_keys=True)] + more


# ------------------------------------------------------------------ abstract case -> concrete input
def word(r):
    k = r.randrange(8)
    return (0, 1, 0x7FFFFFFF, 0x80000000, 0xFFFFFFFF)[k] if k < 5 else r.getrandbits(32) if k < 7 else r.getrandbits(12)


def conc_cmd(ac, r):
    """abstract command {t, dl} -> concrete command (all field values in range of the documented format)."""
    t = ac["t"]
    c = {"t": t, "a": 0, "n": 0, "x1": 0, "x2": 0, "x3": 0, "data": ""}
    if t in (1, 8, 12):
        c["a"], c["n"] = word(r), word(r)
    if t in (2, 3, 4, 5, 6, 7, 9, 11, 13):
        c["a"] = word(r)
    if t in (1, 2, 7, 9, 11, 12):
        c["x1"] = word(r)  # memory id / pattern
    if t == 8:
        c["x1"], c["x2"], c["x3"] = word(r), word(r), word(r)
    if t == 10:
        c["a"], c["x1"] = r.choice([0, 4, 0xFFFF, r.getrandbits(16)]), r.choice([16, 17, 18, 19, 0xFFFF, r.getrandbits(16)])
    if t == 13:
        c["x1"] = r.randrange(6)
    if t in DATA_CMDS:
        dl = ac.get("dl", 0)
        if t == 5:
            dl -= dl % 4
        c["data"] = r.randbytes(dl).hex()
    return c


def concretise(case, r):
    """Abstract case (TLC) -> concrete builder input; deterministic in (VERIF_SEED, case)."""
    ts = r.choice([1, 0xFFFFFFFF, 0x100000000, 2**63, 2**64 - 1, r.getrandbits(32) + 1, r.getrandbits(64) | 1, 0x2A5B0E11])
    dlen = r.choice([0, 1, 5, 15, 16, 16, 17, 20])
    c = dict(case)
    c.update(
        ts=ts, fw=word(r), flags=word(r), desc="".join(chr(r.randrange(0x20, 0x7F)) for _ in range(dlen)),
        desc_none=(dlen == 0 and r.random() < 0.5), constraints=word(r) if case["isk"] else 0,
        udata=r.randbytes(case["ud"]).hex() if case["isk"] else "", cmds=[conc_cmd(ac, r) for ac in case["cmds"]])
    if given_of(case)["isk"] and not case["isk"]:   # material of an ISK certificate that is supplied although no ISK is requested
        c.update(g_constraints=word(r), g_udata=r.randbytes(r.choice([0, 4, 32])).hex())
    dsc = case.get("dsc", "any")                    # the optional description as a dimension of the case ("any": drawn above)
    if dsc not in ("any", "none", "empty", "text"):
        raise Machinery(f"case with description class {dsc}")
    if dsc in ("none", "empty"):
        c.update(desc="", desc_none=dsc == "none")
    elif dsc == "text":
        c.update(desc="".join(chr(r.randrange(0x20, 0x7F)) for _ in range(r.choice([1, 5, 15, 16, 17, 20]))), desc_none=False)
    return c


def spec_cmd(c):
    data = bytes.fromhex(c["data"])
    return {"t": c["t"], "a": W(c["a"]), "n": W(c["n"]), "x1": W(c["x1"]), "x2": W(c["x2"]), "x3": W(c["x3"]), "dlen": len(data),
            "dsha": hashlib.sha256(data).hexdigest()[:16] if c["t"] in DATA_CMDS else ""}


def spec_inp(c, waive=()):
    ud = bytes.fromhex(c["udata"])
    return {"curve": c["curve"], "nkeys": c["nkeys"], "used": c["used"], "isk": c["isk"], "iskCurve": c["curve"], "udLen": len(ud),
            "udSha": hashlib.sha256(ud).hexdigest()[:16] if c["isk"] else "", "constraints": W(c["constraints"]), "pckBits": c["pck"],
            "rights": c["rights"], "enc": c["enc"], "nxp": c["nxp"], "flags": W(c["flags"]), "fw": W(c["fw"]), "ts": rom.limbs(c["ts"], 4),
            "desc": [ord(x) for x in c["desc"]], "cmds": [spec_cmd(x) for x in c["cmds"]], "waive": list(waive),
            "rk": list(c.get("rk") or ["full"] * c["nkeys"]), "ik": (c.get("ik") or "full") if c["isk"] else "full", "given": given_of(c)}


def rom_env(c):
    """What the device is provisioned with (fuses): root-of-trust hash, part-common key, access rights, encryption mode."""
    p = pool()
    pck = bytes.fromhex(c["pck_hex"]) if "pck_hex" in c else p.pck[c["pck"]]   # configuration lane: the key the configuration was rendered from
    return {"rotkth": p.rotkth(c["curve"], roots_of(c)), "pck": pck, "rights": c["rights"], "enc": c["enc"]}


# ------------------------------------------------------------------ the real code
def real_cmd(c):
    from spsdk.sbfile.sb31 import commands as C

    t, data = c["t"], bytes.fromhex(c["data"])
    if t == 1:
        return C.CmdErase(address=c["a"], length=c["n"], memory_id=c["x1"])
    if t == 2:
        return C.CmdLoad(address=c["a"], data=data, memory_id=c["x1"])
    if t == 3:
        return C.CmdExecute(address=c["a"])
    if t == 4:
        return C.CmdCall(address=c["a"])
    if t == 5:
        return C.CmdProgFuses(address=c["a"], data=data)
    if t == 6:
        return C.CmdProgIfr(address=c["a"], data=data)
    if t == 7:
        return C.CmdLoadCmac(address=c["a"], data=data, memory_id=c["x1"])
    if t == 8:
        return C.CmdCopy(address=c["a"], length=c["n"], destination_address=c["x1"], memory_id_from=c["x2"], memory_id_to=c["x3"])
    if t == 9:
        return C.CmdLoadHashLocking(address=c["a"], data=data, memory_id=c["x1"])
    if t == 10:
        return C.CmdLoadKeyBlob(offset=c["a"], data=data, key_wrap_id=c["x1"])
    if t == 11:
        return C.CmdConfigureMemory(address=c["a"], memory_id=c["x1"])
    if t == 12:
        return C.CmdFillMemory(address=c["a"], length=c["n"], pattern=c["x1"])
    if t == 13:
        return C.CmdFwVersionCheck(value=c["a"], counter_id=C.CmdFwVersionCheck.CounterID.from_tag(c["x1"]))
    if t == 14:
        return C.CmdReset()
    raise Machinery(f"no command type {t}")


def build(c):
    """Concrete input -> a real SecureBinary31 object (commands added one by one through the public classes)."""
    from spsdk.sbfile.sb31.images import SecureBinary31
    from spsdk.utils.crypto.cert_blocks import CertBlockV21

    p = pool()
    if "k" in c:  # configuration lane: rendered into a configuration dictionary + files, built by SecureBinary31.load_from_config
        return cfgl.build(c, p)
    curve, used, roots, isk, g = c["curve"], c["used"], roots_of(c), isk_of(c), given_of(c)
    # the REQUEST: ca_flag (ISK / no ISK), is_encrypted.  The SUPPLY (g): key material and ISK certificate material are handed over
    # whenever the case says so, requested or not
    cb = CertBlockV21(
        root_certs=[p.pub_pem[curve, k] for k in roots], ca_flag=not c["isk"], used_root_cert=used,
        constraints=c["constraints"] if c["isk"] else c.get("g_constraints", 0), signature_provider=p.sp(curve, roots[used]) if g["isk"] else None,
        isk_cert=p.pub_pem[curve, isk] if g["isk"] else None, user_data=bytes.fromhex(c["udata"] if c["isk"] else c.get("g_udata", "")) or None,
        family=FAMILY)
    cb.calculate()
    sb = SecureBinary31(
        family=FAMILY, cert_block=cb, firmware_version=c["fw"], signature_provider=p.sp(curve, isk if c["isk"] else roots[used]),
        pck=p.pck[g["pck"]] if g["pck"] else None, kdk_access_rights=g["rights"] if g["rights"] >= 0 else None,
        description=None if c["desc_none"] else c["desc"], is_nxp_container=c["nxp"], flags=c["flags"], timestamp=c["ts"], is_encrypted=c["enc"])
    if c.get("via_set"):
        sb.sb_commands.set_commands([real_cmd(x) for x in c["cmds"]])
    else:
        for x in c["cmds"]:
            sb.sb_commands.add_command(real_cmd(x))
    return sb


def plan_of(case):
    """Abstract case -> concrete plan {conc, ops}; deterministic in (VERIF_SEED, case)."""
    if "own" in case:
        return own_plan(case)
    r = rng(PROP, "case", *rng_key(case))
    if "k" in case:
        return {"case": case, "conc": cfgl.concretise(case, r), "ops": [{"op": op} for op in case["hist"]]}
    c = concretise(case, r)
    c["via_set"] = r.random() < 0.3
    ops = []
    for op in case.get("hist", ["Export"]):
        if op == "Add":
            ops.append({"op": "Add", "cmd": conc_cmd({"t": r.choice(list(CMD_NAMES)), "dl": r.choice([0, 3, 16, 100, 240, 256, 300])}, r),
                        "at": r.choice([-1, -1, 0, 1])})  # add_command / insert_command
        else:
            ops.append({"op": "Export"})
    return {"case": case, "conc": c, "ops": ops}


def execute(plan, tid, keep_bytes=False):
    """Run a plan on the real code: build the object, replay its history, run the executor on every exported file.
    Returns the list of traces (one per Export)."""
    if "own" in plan:
        return execute_own(plan, tid, keep_bytes)
    case, c = plan["case"], json.loads(json.dumps(plan["conc"]))
    try:
        sb = build(c)
    except Exception as e:  # noqa: BLE001 - refusing an in-range input is an observation: no file, so no Accept
        return [{"id": f"{tid}.1", "plan": plan, "case": case, "k": 1, "inp": spec_inp(c),
                 "ev": [{"ev": "BuilderRefused", "exc": type(e).__name__, "msg": str(e)[:200]}]}]
    out, k = [], 0
    for op in plan["ops"]:
        if op["op"] == "Add":
            at = op.get("at", -1)
            if at == -1 or at > len(c["cmds"]):
                c["cmds"] = c["cmds"] + [op["cmd"]]
                if at == -1:
                    sb.sb_commands.add_command(real_cmd(op["cmd"]))
                else:
                    sb.sb_commands.insert_command(-1, real_cmd(op["cmd"]))
            else:
                c["cmds"] = c["cmds"][:at] + [op["cmd"]] + c["cmds"][at:]
                sb.sb_commands.insert_command(at, real_cmd(op["cmd"]))
            continue
        k += 1
        t = {"id": f"{tid}.{k}", "plan": plan, "case": case, "k": k, "inp": spec_inp(c), "rom": rom_env(c)}
        try:
            data = sb.export()
        except Exception as e:  # noqa: BLE001
            t["ev"] = [{"ev": "ExportRefused", "exc": type(e).__name__, "msg": str(e)[:200]}]
            out.append(t)
            break
        t["ev"] = rom.run(data, t["rom"])
        t["len"] = len(data)
        if keep_bytes or t["ev"][-1]["ev"] != "Accept":
            t["file"] = data
        out.append(t)
    return out


# ------------------------------------------------------------------ ownership of the command LIST (Sb31Own)
def own_plan(case):
    """Case with a history of Sb31Own (case["own"]) -> plan: the configuration concretised, one concrete command per command id."""
    r = rng(PROP, "own", json.dumps(case, sort_keys=True))
    c = concretise(dict({k: v for k, v in case.items() if k != "own"}, cmds=[]), r)
    n = 2 + len(case["own"])
    cm = {str(i): conc_cmd({"t": r.choice(list(CMD_NAMES)), "dl": r.choice([0, 3, 16, 100, 240, 256, 300])}, r) for i in range(1, n + 1)}
    return {"case": case, "conc": c, "own": case["own"], "ownc": cm}


def execute_own(plan, tid, keep_bytes=False):
    """Replay a history of Sb31Own: ONE Python list of the caller, two containers of the same configuration; Hand = set_commands(the list),
    Touch = the caller changes ITS list, Add = add_command / insert_command(0, .) on a container.  What an export is compared with
    (inp.cmds) is the `expect` the spec printed with the history, concretised - nothing is computed here."""
    case, c, cm = plan["case"], json.loads(json.dumps(plan["conc"])), plan["ownc"]
    c["cmds"] = []
    try:
        sbs = [build(c), build(c)]
    except Exception as e:  # noqa: BLE001
        return [{"id": f"{tid}.1", "plan": plan, "case": case, "k": 1, "inp": spec_inp(c),
                 "ev": [{"ev": "BuilderRefused", "exc": type(e).__name__, "msg": str(e)[:200]}]}]
    lst = [real_cmd(cm["1"]), real_cmd(cm["2"])]   # Sb31Own!Init
    out, k = [], 0
    for a in plan["own"]:
        if a["a"] == "Hand":
            sbs[a["c"] - 1].sb_commands.set_commands(lst)
        elif a["a"] == "Touch":
            if a["kind"] == "append":
                lst.append(real_cmd(cm[str(a["id"])]))
            elif a["kind"] == "insert":
                lst.insert(0, real_cmd(cm[str(a["id"])]))
            elif a["kind"] == "clear":
                lst.clear()
            elif a["kind"] == "pop":
                if lst:
                    lst.pop()
            else:
                raise Machinery(f"no touch {a}")
        elif a["a"] == "Add":
            if a["where"] == "end":
                sbs[a["c"] - 1].sb_commands.add_command(real_cmd(cm[str(a["id"])]))
            else:
                sbs[a["c"] - 1].sb_commands.insert_command(0, real_cmd(cm[str(a["id"])]))
        elif a["a"] == "Export":
            k += 1
            cc = dict(c, cmds=[cm[str(i)] for i in a["expect"]])
            t = {"id": f"{tid}.{k}", "plan": plan, "case": case, "k": k, "inp": spec_inp(cc), "rom": rom_env(c)}
            try:
                data = sbs[a["c"] - 1].export()
            except Exception as e:  # noqa: BLE001
                t["ev"] = [{"ev": "ExportRefused", "exc": type(e).__name__, "msg": str(e)[:200]}]
                out.append(t)
                break
            t["ev"] = rom.run(data, t["rom"])
            t["len"] = len(data)
            if keep_bytes or t["ev"][-1]["ev"] != "Accept":
                t["file"] = data
            out.append(t)
        else:
            raise Machinery(f"no call {a}")
    return out


def own_text(case):
    return " ; ".join(a["a"] + "".join(f" {k}={a[k]}" for k in ("c", "kind", "where", "expect") if k in a) for a in case["own"])


def observe(case, tid, keep_bytes=False):
    return execute(plan_of(case), tid, keep_bytes)


def strip(t):
    return {"id": t["id"], "inp": t["inp"], "ev": t["ev"]}


# ------------------------------------------------------------------ finding keys (naming only - the verdict is TLC's)
def key_classes(case, isk=True):
    """Naming only: which value classes of keys the case holds ('' = all keys at full width)."""
    rk = case.get("rk") or []
    out = ""
    if any(x != "full" for x in rk):
        out += "/root-key:" + ("only-" + rk[0] if len(rk) == 1 else "used-" + rk[case["used"]] if rk[case["used"]] != "full" else "not-used-short")
    if isk and case.get("isk") and (case.get("ik") or "full") != "full":
        out += "/isk:" + case["ik"]
    return out


def clause_of(t, matched):
    ev = t["ev"][min(matched, len(t["ev"]) - 1)]
    k = ev["ev"]
    if k in ("RootKeyRecord", "IskCert", "VerifyBlock0", "CertBlockEnd"):
        false = sorted(f for f, x in ev.items() if x is False and f not in ("ca", "hasUserData"))
        lz_of = lambda cls: [cls in ("lzx", "lzxy"), cls in ("lzy", "lzxy")]  # noqa: E731
        if k == "RootKeyRecord" and not false and ev["keyLz"] != lz_of(t["inp"]["rk"][t["inp"]["used"]]):
            false = ["key-in-record-not-at-full-width"]
        if k == "IskCert" and not false and ev["iskLz"] != lz_of(t["inp"]["ik"]):
            false = ["isk-not-at-full-width"]
        return k + ("/" + false[0] if false else "") + key_classes(t["case"], isk=k != "RootKeyRecord")
    if k == "Layout":
        return "total_length"
    if k == "Block":
        if not ev["hashOk"]:
            return "Block/chain-hash"
        if ev["last"] and not ev["nextZero"]:
            return "last-block-hash"
        if ev["num"] != ev["i"]:
            return "Block/number"
        return "Block/position-or-key-derivation"
    if k == "Cmd":
        i = ev["i"]
        exp = t["inp"]["cmds"][i - 1]["t"] if 1 <= i <= len(t["inp"]["cmds"]) else 0
        return f"Cmd/{CMD_NAMES.get(exp, 'unexpected-extra-command')}"
    if k in ("BuilderRefused", "ExportRefused"):
        if "k" in t["case"]:
            om = cfgl.omitted_optional(t["case"])
            exc = ev["exc"] + (":" + "".join(ch for ch in ev["msg"] if ch.isalnum() or ch == "_")[:40] if ev["exc"] == "KeyError" else "")  # the key that was missed
            return f"{k}/{exc}/" + ("optional-keys-omitted:" + "+".join(CMD_NAMES[x] for x in om) if om else "all-keys-given")
        return f"{k}/{ev['exc']}"
    kform = f"-{t['case']['k']['pckForm']}-{t['case']['k']['pckVal']}" if "k" in t["case"] else ""
    if k == "Section":
        cfg = f"sha{8 * t['case']['curve']}-pck{t['case']['pck']}{kform}" if t["inp"]["enc"] else "plain"
        if ev["uid"] != 1 or ev["type"] != 1:
            if not t["inp"]["enc"]:   # no key is involved in reading a plain container: name what was supplied although not requested
                return "Section/header-not-found-in-plain-container/supplied:" + (supplied_text(t["case"], values=False) or "nothing")
            return f"Section/header-not-found-after-decryption/{cfg}"
        if 16 + ev["len"] > ev["streamLen"]:
            return "Section/longer-than-the-data-blocks"
        return "Section/block-count"
    if k == "DeriveKdk":
        return f"DeriveKdk/sha{8 * t['case']['curve']}-pck{t['case']['pck']}{kform}"
    false = sorted(f for f, x in ev.items() if x is False and f not in ("ca", "hasUserData", "last", "enc", "hasX", "padZero", "rsvZero", "dataPadZero", "tailZero"))
    return k + ("/" + false[0] if false else "")


def clause_with_supply(t, matched):
    """The clause, and - for a container WITHOUT ISK that was handed the material of an ISK certificate as well - that fact where the
    certificate block / the signature is what fails (naming only)."""
    cl = clause_of(t, matched)
    c = t["case"]
    if not c["isk"] and given_of(c)["isk"] and cl.split("/")[0] in ("RootKeyRecord", "IskCert", "CertBlockEnd", "VerifyBlock0", "Layout", "total_length"):
        cl += "/supplied:isk-material"
    return cl


def finding_key(t, matched):
    if "k" in t["case"]:  # configuration lane
        cls = "config" if t["k"] == 1 else f"config/export#{t['k']}"
    elif "own" in t["case"]:   # the caller's list handed to set_commands and touched again
        cls = "own-list"
    else:
        cls = "build" if t["k"] == 1 else f"history/export#{t['k']}"
    return f"C05/{cls}/{clause_with_supply(t, matched)}"


def describe(t, matched):
    c = t["case"]
    ev = t["ev"][min(matched, len(t["ev"]) - 1)]
    how = ""
    if "k" in c:
        k = c["k"]
        how = (f" built by SecureBinary31.load_from_config [family {k['fam']}, part-common key as {k['pckForm']} / {k['pckVal']}, isEncrypted {k['encKey']}, signing key in "
               f"{k['sign']}, certBlock as {k['cb']}, numbers as {k['num']}, commands "
               f"{[(CMD_NAMES[x['t']], x['form'], x['sub'], 'opt' if x['opt'] else 'no-opt', x['dl']) for x in c['cmds']][:6]}]")
    kc = key_classes(c)
    how += (f" [value classes of the keys (leading zero byte in X / Y / both): root set {c.get('rk')}, ISK {c.get('ik') if c['isk'] else '-'}; pool keys "
            f"{roots_of(c)}{' + ' + isk_of(c) if c['isk'] else ''} in keys/sb31/p{c['curve'] * 8}]" if kc else "")
    if "own" in c:
        how += (f" [commands handed over as ONE list of the caller (initially 2 commands) to set_commands of two containers of this configuration; calls: {own_text(c)}; "
                "`expect` = ids of the commands supplied to the exported container (Sb31Own)]")
    sup = supplied_text(c)
    how += (f" [REQUESTED {'encrypted' if c['enc'] else 'PLAIN'} / {'ISK' if c['isk'] else 'no ISK'}; SUPPLIED as well, although not requested: {sup} ("
            + ("containerKeyBlobEncryptionKey / kdkAccessRights of the configuration, ISK keys of a certificate block configuration with useIsk: false" if "k" in c
               else "arguments pck / kdk_access_rights of SecureBinary31, isk_cert + signature_provider + constraints + user_data of CertBlockV21 with ca_flag set")
            + ")]" if sup else "")
    return (f"export #{t['k']} of a container{how} (P-{c['curve'] * 8}, {c['nkeys']} root keys, used {c['used']}, isk={c['isk']}, pck={c['pck']}, rights={c['rights']}, "
            f"enc={c['enc']}, {len(t['inp']['cmds'])} commands, history {c.get('hist', ['Export'])}) is not accepted by the loader automaton: "
            f"event #{matched + 1} {json.dumps(ev)[:500]}")


def witness(t, matched, **more):
    w = {"kind": "export", "plan": t["plan"], "export": t["k"], "trace": strip(t), "failed_event": matched + 1,
         "file": t["file"].hex() if t.get("file") else None}
    w.update(more)
    return w


def validate(v, traces, what, extra=()):
    """TLC decides all traces; rejected ones become violations; rejected files are re-examined with the failing layout clause
    waived so that an independent second defect in the same file gets its own finding key."""
    rej, res = tlc.tv("C05", "Sb31RomTrace", [strip(t) for t in traces] + [strip(t) for t in extra], heap="8g", timeout=1800)
    v.traces(len(traces) + len(extra))
    v.extra["tv_states"] = v.extra.get("tv_states", 0) + res.distinct
    by_id = {t["id"]: t for t in traces}
    by_export = set(by_id)
    for t in traces:
        if t["id"] not in rej and t["ev"][-1]["ev"] != "Accept":
            raise Machinery(f"trace {t['id']} consumed by the spec but does not end with Accept: {t['ev'][-1]}")
    diag = []
    for tid, (matched, length, evname) in rej.items():
        if tid not in by_id:
            continue  # canary / tampered traces: accounted by the caller
        t = by_id[tid]
        v.violation(finding_key(t, matched), describe(t, matched), witness(t, matched))
        if evname == "Layout" and t.get("file"):
            d = dict(t)
            d["id"] = t["id"] + ".diag"
            d["inp"] = dict(t["inp"], waive=["Layout"])
            d["ev"] = rom.run(t["file"], t["rom"], waive=("Layout",))
            diag.append(d)
    if diag:
        rej2, _ = tlc.tv("C05", "Sb31RomTrace", [strip(t) for t in diag], heap="8g")
        by_id = {t["id"]: t for t in diag}
        for tid, (matched, length, evname) in rej2.items():
            t = by_id[tid]
            v.violation(finding_key(t, matched), describe(t, matched) + " (second defect of this file: total-length clause waived)",
                        witness(t, matched, waived=["Layout"]))
    say(f"[C05] {what}: {len(traces) + len(extra)} traces validated, {sum(1 for x in rej if x in by_export)} exports rejected ({v.timer.s()}s)")
    return rej


# ------------------------------------------------------------------ tampering
def tamper_traces(t, n_bits, r, all_bits_of=()):
    """Single-bit corruptions of an accepted file, stratified by region; the executor runs on every corrupted file.
    Input comparison is waived: the question is whether the loader's OWN checks notice the change."""
    data = t["file"]
    out = []
    regs = rom.regions(data)
    picks = []
    for name, a, b in regs:
        if name in all_bits_of or any(name.startswith(p) for p in all_bits_of):
            picks += [(name, bit) for bit in range(8 * a, 8 * b)]
        else:
            picks += [(name, r.randrange(8 * a, 8 * b)) for _ in range(n_bits)]
    inp = dict(t["inp"], waive=["Input"])
    for name, bit in picks:
        d = bytearray(data)
        d[bit // 8] ^= 1 << (bit % 8)
        out.append({"id": f"{t['id']}~{bit}", "plan": t["plan"], "case": t["case"], "k": t["k"], "inp": inp, "region": name, "bit": bit,
                    "ev": rom.run(bytes(d), t["rom"])})
    return out


# ------------------------------------------------------------------ the check
ACTIONS = ("Build", "DoParseHeader", "DoHeaderFields", "DoLayout", "DoCertHeader", "DoRootKeyRecord", "DoIskCert", "DoCertBlockEnd", "DoVerifyBlock0",
           "DoDeriveKdk", "DoBlock", "DoSection", "DoCmd", "DoAccept", "GiveUp")


def key_dims(cases):
    """Which (curve, short value class, role of the key) the cases hold: used root key of a set / another member / the only root key /
    image signing key."""
    out = set()
    for c in cases:
        rk = c.get("rk") or []
        for i, cls in enumerate(rk):
            if cls != "full":
                out.add((c["curve"], cls, "only" if c["nkeys"] == 1 else "used" if i == c["used"] else "not-used", c["isk"]))
        if c["isk"] and c.get("ik", "full") != "full":
            out.add((c["curve"], c["ik"], "isk", True))
    return out


KEY_DIMS = ({(cv, cls, role, isk) for cv in (32, 48) for cls in KEY_CLASSES[1:] for role in ("only", "used", "not-used") for isk in (False, True)}
            | {(cv, cls, "isk", True) for cv in (32, 48) for cls in KEY_CLASSES[1:]})


def supply_dims(cases):
    """Which (curve, request: encrypted, request: ISK, supplied key bits, supplied access rights, ISK material supplied) the cases hold."""
    return {(c["curve"], c["enc"], bool(c["isk"]), given_of(c)["pck"], given_of(c)["rights"], given_of(c)["isk"]) for c in cases}


# every supply a PLAIN request admits (no / 128-bit / 256-bit key x no / every access right) with and without ISK on both curves; ISK material
# supplied to containers without ISK, plain and encrypted
SUPPLY_DIMS = ({(cv, False, ik, p, rt, True) for cv in (32, 48) for ik in (False, True) for p in (0, 128, 256) for rt in (-1, 0, 1, 2, 3)}
               | {(cv, False, False, p, rt, False) for cv in (32, 48) for p in (0, 128, 256) for rt in (-1, 0, 1, 2, 3)}
               | {(cv, True, False, p, rt, gi) for cv in (32, 48) for p in (128, 256) for rt in (0, 1, 2, 3) for gi in (False, True)})


def as_if_encrypted(data, pck, rights, priv_pem):
    """CANARY material, made without SPSDK: the file a builder that encrypts WHENEVER KEY MATERIAL IS AT HAND would have made of the plain
    container `data` - every 256-byte chunk AES-CBC encrypted (zero IV) under the block key of (pck, timestamp, rights), the chain hashes
    recomputed back to front, H(block 1) put into block 0, block 0 signed again with the container's own signing key.  Signature and chain
    of the result hold; read WITH the key it is the container asked for, read as the PLAIN container that was requested it is not."""
    import struct

    from cryptography.hazmat.primitives import hashes, serialization
    from cryptography.hazmat.primitives.asymmetric import ec
    from cryptography.hazmat.primitives.asymmetric import utils as autils
    from cryptography.hazmat.primitives.ciphers import Cipher, algorithms, modes

    _, _, _, _, nblocks, bsize, ts, _, total, _, _, _ = struct.unpack_from("<4s2H3IQ4I16s", data)
    hlen = bsize - 4 - rom.CHUNK
    kdk = rom.kdf(pck, rom.kdf_fields(ts, rights, "kdk", hlen))
    nxt, blocks = bytes(hlen), []
    for i in range(nblocks, 0, -1):
        at = total + (i - 1) * bsize
        enc = Cipher(algorithms.AES(rom.kdf(kdk, rom.kdf_fields(i, rights, "blk", hlen))), modes.CBC(bytes(16))).encryptor()
        b = data[at:at + 4] + nxt + enc.update(data[at + 4 + hlen:at + bsize]) + enc.finalize()
        nxt = rom.H(hlen)(b).digest()
        blocks.insert(0, b)
    signed = data[:rom.HDR] + nxt + data[rom.HDR + hlen:total - 2 * hlen]
    key = serialization.load_pem_private_key(open(priv_pem, "rb").read(), None)
    sr, ss = autils.decode_dss_signature(key.sign(signed, ec.ECDSA(hashes.SHA256() if hlen == 32 else hashes.SHA384())))
    return signed + sr.to_bytes(hlen, "big") + ss.to_bytes(hlen, "big") + b"".join(blocks)


def dedupe(items):
    seen, out = set(), []
    for x in items:
        k = json.dumps(x, sort_keys=True)
        if k not in seen:
            seen.add(k)
            out.append(x)
    return out


def run(tier):
    import_spsdk()
    v = Verdict(PROP, tier)
    quick = tier == "quick"
    r = rng(PROP)
    pool()

    # ---- MC: the loader automaton against the documented construction and the menu of construction mistakes
    #      (runs in the background while the real code is exercised; joined before the verdict)
    bg = ThreadPoolExecutor(max_workers=1)
    mc_job = bg.submit(tlc.mc, "C05", "Sb31RomMC", "Sb31RomMC.cfg", env={"MC_LEVEL": 1 if quick else 2}, require_actions=ACTIONS, heap="8g", timeout=1500,
                       workers=6 if quick else 12)
    # ---- GEN of the configuration lane (Sb31CfgGen; in the background, joined before the cases are executed)
    gen_bg = ThreadPoolExecutor(max_workers=2)
    time.sleep(0.05)  # lib.tlc numbers its scratch directories with an unlocked counter: do not start two runs in the same instant
    kt_job = gen_bg.submit(tlc.run, "C05", "Sb31CfgGen", "Sb31CfgGen.cfg", env={"GEN_MODE": "tour", "GEN_FULL": 0 if quick else 1, "GEN_MAXCMDS": 0},
                           workers=1, deadlock=False, heap="4g", timeout=600)
    time.sleep(0.05)
    ks_job = gen_bg.submit(tlc.run, "C05", "Sb31CfgGen", "Sb31CfgGen.cfg", env={"GEN_MODE": "sim", "GEN_FULL": 0 if quick else 1, "GEN_MAXCMDS": 6},
                           workers=1, deadlock=False, heap="4g", timeout=600, simulate=f"num={250 if quick else 4000}", depth=14)
    time.sleep(0.05)
    # ---- MC of the history I-spec: the intended rule holds (the same run prints the histories, GEN); the rule as built is
    #      PREDICTED to fail (information only - only the R-spec verdict on real bytes counts)
    oi = tlc.mc("C05", "Sb31Obj", "Sb31ObjIntended.cfg", env={"GEN": 1}, require_actions=("Export", "AddCommand"), workers=1)
    v.add_mc(oi)
    hists = dedupe(oi.json_prints())
    ob = tlc.run("C05", "Sb31Obj", "Sb31ObjAsBuilt.cfg", env={"GEN": 0}, workers=1, deadlock=False)
    v.extra["ispec_prediction"] = (f"Sb31Obj with the update rule as built: {ob.violated or 'no invariant violated'} "
                                   f"(after {ob.distinct} states) - replayed below on the real object")
    if len(hists) < 10 or ["Export", "Export"] not in hists or ["Export", "Add", "Export"] not in hists:
        raise Machinery(f"history GEN produced {hists}")

    # ---- GEN: abstract cases
    g1 = tlc.run("C05", "Sb31Gen", "Sb31Gen.cfg", env={"GEN_MODE": "tour", "GEN_FULL": 0 if quick else 1, "GEN_MAXCMDS": 0}, workers=1, deadlock=False, heap="8g", timeout=600)
    v.add_mc(g1)
    tour = dedupe(g1.json_prints())
    g2 = tlc.run("C05", "Sb31Gen", "Sb31Gen.cfg", env={"GEN_MODE": "sim", "GEN_FULL": 0, "GEN_MAXCMDS": 8}, workers=1, deadlock=False, heap="8g",
                 simulate=f"num={400 if quick else 6000}", depth=12, timeout=600)
    sim = dedupe(g2.json_prints())
    if len(tour) < 3000 or len(sim) < (200 if quick else 3000):
        raise Machinery(f"case GEN produced only {len(tour)} + {len(sim)} cases\n{g2.out[-1500:]}")
    cases = tour + sim
    if KEY_DIMS - key_dims(tour):
        raise Machinery(f"case GEN does not cover the value classes of the keys: missing {sorted(KEY_DIMS - key_dims(tour))[:6]}")
    dsc_want = {(en, gp, ik, d) for en in (False, True) for gp in (False, True) for ik in (False, True) for d in ("none", "empty", "text") if gp or not en}
    if SUPPLY_DIMS - supply_dims(tour) or dsc_want - {(c["enc"], bool(given_of(c)["pck"]), bool(c["isk"]), c.get("dsc")) for c in tour}:
        raise Machinery(f"case GEN does not cover request x supply (curve, enc, isk, supplied key bits, rights, ISK material): missing "
                        f"{sorted(SUPPLY_DIMS - supply_dims(tour))[:6]}")
    # histories x a seeded sample of configurations (every history with every class of configuration in the thorough tier)
    cfgs = [c for c in tour if len(c["cmds"]) == 3 and c["cmds"][1]["dl"] == 300 and given_of(c) == requested(c) and c.get("dsc", "any") == "any"]
    r.shuffle(cfgs)
    hcases = [dict(c, hist=h) for h in hists for c in cfgs[: (6 if quick else 60)]]
    # ... and every history on containers that were handed material they did not ask for: plain + key + rights (each key size, with / without
    # ISK), no ISK + ISK material (thorough: a seeded sample of 40 such configurations)
    gcfgs = [c for c in tour if len(c["cmds"]) == 3 and c["cmds"][1]["dl"] == 300 and given_of(c) != requested(c) and c.get("dsc") == "text"]
    r.shuffle(gcfgs)
    gfix = [next((c for c in gcfgs if (c["curve"], bool(c["isk"]), c["enc"], given_of(c)["pck"], given_of(c)["rights"] >= 0, given_of(c)["isk"]) == want), None)
            for want in ((32, False, False, 128, True, False), (48, True, False, 256, True, True), (48, False, True, 256, True, True))]
    if None in gfix:
        raise Machinery("case GEN holds no plain container with key material supplied / no encrypted container with ISK material supplied for the history cases")
    hcases += [dict(c, hist=h) for h in hists for c in (gfix if quick else gfix + gcfgs[:40])]
    # ---- ownership of the command list (Sb31Own): every history of calls after set_commands(list) - the caller touches its list, hands it to a
    #      second container, a container is given more commands - x a rotation of configurations; the alias semantic must be refuted
    og = tlc.mc("C05", "Sb31Own", "Sb31OwnGen.cfg", require_actions=("DoHand", "DoTouch", "DoAdd", "DoExport"), workers=1, deadlock=False)
    v.add_mc(og)
    owns = dedupe(og.json_prints())
    orf = tlc.run("C05", "Sb31Own", "Sb31OwnRefute.cfg", workers=1, deadlock=False)
    if orf.violated != "ExportCarriesGiven":
        raise Machinery(f"Sb31Own with Holds = alias is not refuted ({orf.violated}): the history space does not reach a container that keeps the caller's list")
    if len(owns) < 300 or not any([a["a"] for a in h["acts"]] == ["Hand", "Hand", "Add", "Export"] for h in owns) \
            or not any([a["a"] for a in h["acts"]][:2] == ["Hand", "Touch"] for h in owns):
        raise Machinery(f"ownership GEN produced {len(owns)} histories")
    ocfg = cfgs[6:6 + (8 if quick else 40)] or cfgs[:1]
    ocases = [dict({k: x for k, x in ocfg[i % len(ocfg)].items() if k != "cmds"}, cmds=[], own=[{k: x for k, x in a.items() if k != "carried"} for a in h["acts"]])
              for i, h in enumerate(owns)]
    hcases += ocases
    v.extra["own_list"] = {"histories": len(owns), "refuted_with_alias_semantic": orf.violated, "configurations": len(ocfg)}
    say(f"[C05] GEN: {len(tour)} tour cases, {len(sim)} simulated cases, {len(hists)} histories x configurations = {len(hcases)} history cases ({v.timer.s()}s)")

    # ---- configuration lane: cases of Sb31CfgGen (tours + simulation), built by SecureBinary31.load_from_config
    kt, ks = kt_job.result(), ks_job.result()
    v.add_mc(kt)
    ktour, ksim = dedupe(kt.json_prints()), dedupe(ks.json_prints())
    if len(ktour) < 1800 or len(ksim) < (100 if quick else 1500):
        raise Machinery(f"configuration case GEN produced only {len(ktour)} + {len(ksim)} cases\n{ks.out[-1500:]}")
    kcases = ktour + ksim
    kdims = {"pck": sorted({(c["curve"], c["pck"], c["k"]["pckForm"], c["k"]["pckVal"]) for c in kcases if c["enc"]}),
             "cmd": sorted({(x["t"], x["form"], x["sub"], x["opt"]) for c in kcases for x in c["cmds"]}),
             "sign": sorted({(c["k"]["sign"], c["k"]["cb"], c["isk"], c["k"]["cbSign"], c["k"]["cbNew"], c["k"]["rootId"]) for c in kcases}),
             "num": sorted({c["k"]["num"] for c in kcases}), "enc": sorted({c["k"]["encKey"] for c in kcases})}
    if KEY_DIMS - key_dims(ktour):
        raise Machinery(f"configuration case GEN does not cover the value classes of the keys: missing {sorted(KEY_DIMS - key_dims(ktour))[:6]}")
    ksup = {(c["curve"], given_of(c)["pck"], given_of(c)["rights"] >= 0, given_of(c)["isk"]) for c in ktour if not c["enc"] and not c["isk"]}
    if len(ksup) < 2 * 3 * 2 * 2 or not any(c["enc"] and not c["isk"] and given_of(c)["isk"] for c in ktour):
        raise Machinery(f"configuration case GEN does not cover request x supply (plain: curve x key named x kdkAccessRights given x ISK keys named): {sorted(ksup)}")
    if len(kdims["pck"]) < 50 or len({x[:2] for x in kdims["cmd"]}) < 22 or len(kdims["sign"]) < 40 or len(kdims["num"]) < 4 or len(kdims["enc"]) < 3:
        raise Machinery(f"configuration case GEN does not cover its dimensions: { {k: len(x) for k, x in kdims.items()} }")
    say(f"[C05] GEN (configuration lane): {len(ktour)} tour cases, {len(ksim)} simulated cases; {len(kdims['pck'])} key classes (curve x size x form x value), "
        f"{len(kdims['cmd'])} command shapes, {len(kdims['sign'])} signing / certificate-block shapes ({v.timer.s()}s)")

    # ---- run everything on the real code (parallel), executor on every exported file
    allc = cases + hcases + kcases
    keep = set(r.sample(range(len(cases)), 40 if quick else 160)) | {len(cases) + len(hcases) + i for i in r.sample(range(len(kcases)), 6 if quick else 24)}
    res = pmap(lambda ic: execute(plan_of(ic[1]), ic[0], keep_bytes=ic[0] in keep), list(enumerate(allc)), chunksize=32)
    traces = [t for ts in res for t in ts]
    v.count(len(traces))
    for t in traces:
        if len(t["ev"]) > 3:
            v.nontrivial(json.dumps([t["case"], t["k"]], sort_keys=True))
    say(f"[C05] {len(cases) + len(hcases)} cases built through the real classes, {len(kcases)} through load_from_config; {len(traces)} exports walked by the executor "
        f"({v.timer.s()}s)")
    acc = [t for t in traces if t["ev"][-1]["ev"] == "Accept"]
    if len(acc) < len(cases) // 2:
        say(f"[C05] note: only {len(acc)} of {len(traces)} executor runs ended in Accept")

    # ---- canary: a good trace is accepted; one corrupted logged number / one corrupted input field / one false fact is rejected
    good = json.loads(json.dumps(strip(next(t for t in acc if t["inp"]["cmds"] and t["inp"]["enc"]))))
    good["id"] = "canary-good"
    canary = [good]
    for name, f in (("position", lambda t: [e.__setitem__("at", e["at"] + 1) for e in t["ev"] if e["ev"] == "Block"][:0]),
                    ("input", lambda t: t["inp"]["cmds"][0].__setitem__("t", t["inp"]["cmds"][0]["t"] % 14 + 1)),
                    ("fact", lambda t: next(e for e in t["ev"] if e["ev"] == "VerifyBlock0").__setitem__("ok", False)),
                    ("kdf", lambda t: next(e for e in t["ev"] if e["ev"] == "Block")["kdf"].__setitem__("iters", 3)),
                    ("coverage", lambda t: t["ev"].pop(next(i for i, e in enumerate(t["ev"]) if e["ev"] == "Block")))):
        b = json.loads(json.dumps(good))
        b["id"] = "canary-bad-" + name
        f(b)
        canary.append(b)

    # ---- canary of the key value classes: the good trace re-told for a used root key of class lzx (its X starts with a zero byte: the
    #      loader sees that byte in the record) is accepted; the same with a record whose key does not start with a zero byte (a key
    #      written at its minimal length / another key) is rejected
    gk = json.loads(json.dumps(good))
    gk["id"] = "canary-good-keyclass"
    gk["inp"]["rk"][gk["inp"]["used"]] = "lzx"
    next(e for e in gk["ev"] if e["ev"] == "RootKeyRecord")["keyLz"] = [True, False]
    bk = json.loads(json.dumps(gk))
    bk["id"] = "canary-bad-keyclass"
    next(e for e in bk["ev"] if e["ev"] == "RootKeyRecord")["keyLz"] = [False, False]
    canary += [gk, bk]

    # ---- canary of the configuration lane: a container built from a configuration (preferably with a 128-bit part-common key given as
    #      hex text) that the loader accepts; the SAME file walked by a loader that holds the key read with the other size (128-bit key
    #      left-padded to 256 bits / lower half of a 256-bit key = a builder that probed the key size wrongly) must be rejected
    kacc = sorted((t for t in acc if "k" in t["case"] and t["inp"]["enc"] and t["k"] == 1),
                  key=lambda t: (t["case"]["pck"] != 128, t["case"]["k"]["pckForm"] not in ("hex", "txt")))
    kcanary = "no accepted encrypted container of the configuration lane to build a canary from"
    if kacc:
        kg = execute(kacc[0]["plan"], "kcanary", keep_bytes=True)[0]
        if kg.get("file") is not None and kg["ev"][-1]["ev"] == "Accept":
            key = kg["rom"]["pck"]
            g = strip(kg)
            g["id"] = "canary-cfg-good"
            ev = rom.run(kg["file"], dict(kg["rom"], pck=bytes(16) + key if len(key) == 16 else key[16:]))
            ev = [dict(e, pckBits=8 * len(key)) if e["ev"] == "DeriveKdk" else e for e in ev]  # only the decrypted content can give it away
            canary += [g, {"id": "canary-bad-cfg-pck", "inp": kg["inp"], "ev": ev}]
            kcanary = (f"container built by load_from_config ({8 * len(key)}-bit key as {kg['case']['k']['pckForm']}) accepted, the same file walked with the key "
                       "read with the other size rejected")

    # ---- canary of REQUEST x SUPPLY: a plain container (nothing but the request supplied) that the loader accepts, re-told with key material
    #      supplied as well, is accepted (no action reads inp.given); the file a builder that encrypts whenever key material is at hand would
    #      have made of it (made HERE from the plain file: AES / CMAC / SHA / ECDSA of `cryptography`, no SPSDK) holds a valid signature and
    #      chain, is accepted when read WITH the key as the encrypted container of the same input - and must be REJECTED as the plain
    #      container that was requested
    pacc = [t for t in acc if "k" not in t["case"] and not t["inp"]["enc"] and t["k"] == 1 and t["inp"]["cmds"] and given_of(t["case"])["pck"] == 0]
    gcanary = "no accepted plain container of the class lane to build a canary from"
    if pacc:
        pg = execute(pacc[0]["plan"], "gcanary", keep_bytes=True)[0]
        if pg.get("file") is not None and pg["ev"][-1]["ev"] == "Accept":
            c, bits, rt = pg["case"], 128, 2
            made = as_if_encrypted(pg["file"], pool().pck[bits], rt, pool().priv_path[c["curve"], isk_of(c) if c["isk"] else roots_of(c)[c["used"]]])
            told = dict(pg["inp"], given=dict(pg["inp"]["given"], pck=bits, rights=rt))
            canary += [{"id": "canary-supply-good", "inp": told, "ev": pg["ev"]},
                       {"id": "canary-bad-supply-encrypted", "inp": told, "ev": rom.run(made, pg["rom"])},
                       {"id": "canary-supply-good-read-with-key", "inp": dict(told, enc=True, pckBits=bits, rights=rt),
                        "ev": rom.run(made, dict(pg["rom"], enc=True, pck=pool().pck[bits], rights=rt))}]
            gcanary = ("plain container accepted, also when told that a part-common key and access rights were supplied; the same container with its "
                       "chunks encrypted under that key (made independently, signature and chain valid, accepted when read with the key) rejected as "
                       "a plain container")

    # ---- tamper: single-bit corruptions of files the executor walked to the end must be rejected by the loader's own checks
    kept = [t for t in acc if t.get("file") is not None and t["k"] == 1]
    if len(kept) < 10:
        say(f"[C05] note: only {len(kept)} accepted files available for tampering")
    small = sorted(kept, key=lambda t: len(t["file"]))[:1 if quick else 4]
    jobs = [(t, 2 if quick else 4, ("hdr.", "cert.header", "cert.rkr_flags", "cert.isk_header") if t in small else ()) for t in kept]
    if not quick:
        jobs += [(t, 1, ("",)) for t in small[:2]]  # every bit of two whole files
    tam = [x for xs in pmap(lambda j: tamper_traces(j[0], j[1], rng(PROP, "tamper", j[0]["id"]), j[2]), jobs, chunksize=2) for x in xs]
    v.count(len(tam))
    say(f"[C05] tamper: {len(tam)} single-bit corruptions of {len(kept)} files walked by the executor ({v.timer.s()}s)")

    # ---- TV: TLC decides everything in one batch (canary first: a monitor that accepts a corrupted trace is machinery failure)
    rej = validate(v, traces, "exports + tampered files", extra=canary + tam)
    if {t["id"] for t in canary} & set(rej) != {t["id"] for t in canary if "-bad-" in t["id"]}:
        raise Machinery(f"canary failed: rejected {sorted(x for x in rej if str(x).startswith('canary'))}")
    v.extra["canary"] = ("known-good trace accepted; the same trace with a shifted block position, a changed input command, a false signature fact, "
                         "a wrong KDF iteration count, a skipped block: all rejected; the trace re-told for a used root key with a leading zero byte in X "
                         "accepted, the same with a record whose key shows no such byte rejected; configuration lane: " + kcanary
                         + "; request x supply: " + gcanary)
    v.sample({"case": acc[0]["case"], "export": acc[0]["k"], "events": acc[0]["ev"][:12]})
    v.sample({"case": acc[-1]["case"], "export": acc[-1]["k"], "events": [e for e in acc[-1]["ev"] if e["ev"] in ("Layout", "Block", "Section", "Cmd", "Accept")][:10]})
    n_acc = 0
    for t in tam:
        if t["id"].split("~")[0] in rej:
            continue  # the untampered file itself was not accepted: nothing to measure
        if t["id"] not in rej:
            n_acc += 1
            v.violation(f"C05/tamper/{t['region']}/accepted", f"file with bit {t['bit']} ({t['region']}) flipped is still accepted by the loader automaton: a byte outside the signature + hash-chain coverage",
                        {"kind": "tamper", "plan": t["plan"], "bit": t["bit"], "region": t["region"], "trace": strip(t)})
    if tam:
        v.extra["tamper_rejected"] = len(tam) - n_acc
        v.extra["tamper_regions"] = sorted({t["region"] for t in tam})
        v.sample({"tampered": tam[0]["region"], "bit": tam[0]["bit"], "last_event": tam[0]["ev"][-1]})

    mc = mc_job.result()
    v.add_mc(mc)
    say(f"[C05] MC Sb31RomMC: {mc.distinct} states, depth {mc.depth}, every action fired, Complete/Sound/Covered/Located hold ({round(mc.wall, 1)}s in the background)")
    ends = sorted({(t["ev"][-1]["end"] - 1) // 256 + 1 for t in acc})
    v.extra["block_counts_seen"] = f"{ends[0]}..{ends[-1]} ({len(ends)} distinct)"
    v.extra["stream_end_offsets_mod_256"] = sorted({t["ev"][-1]["end"] % 256 for t in acc})
    v.extra["command_types_decoded"] = sorted({e["cmd"] for t in acc for e in t["ev"] if e["ev"] == "Cmd"})
    seen = key_dims([t["case"] for t in acc])
    sigs = [e["sigLz"] for t in acc for e in t["ev"] if e["ev"] in ("IskCert", "VerifyBlock0")]
    v.extra["key_value_classes"] = {
        "pool": "keys/sb31: every slot (root0..3, isk) x P-256 / P-384 holds a key of every class: full width, leading zero byte in X (lzx), in Y (lzy), in both (lzxy); "
                "derived deterministically (label + counter search) with `cryptography`, classes re-checked at start-up",
        "cases_with_short_keys": sum(1 for c in allc if key_classes(c)),
        "accepted_exports_with_short_keys": sum(1 for t in acc if key_classes(t["case"])),
        "classes_accepted (curve, class, role, isk)": len(seen), "classes_in_the_case_space": len(KEY_DIMS),
        "signatures_verified": len(sigs), "signatures_with_leading_zero_byte_in_r": sum(1 for x in sigs if x[0]),
        "signatures_with_leading_zero_byte_in_s": sum(1 for x in sigs if x[1])}
    sup_acc = [t for t in acc if given_of(t["case"]) != requested(t["case"])]
    v.extra["request_x_supply"] = {
        "cases_with_material_not_requested": sum(1 for c in allc if given_of(c) != requested(c)),
        "of_them_plain_with_key_and_rights": sum(1 for c in allc if not c["enc"] and given_of(c)["pck"] and given_of(c)["rights"] >= 0),
        "of_them_no_isk_with_isk_material": sum(1 for c in allc if not c["isk"] and given_of(c)["isk"]),
        "accepted_exports": len(sup_acc), "accepted_exports_configuration_lane": sum(1 for t in sup_acc if "k" in t["case"]),
        "classes_accepted (curve, enc, isk, supplied key bits, rights, ISK material)": len(supply_dims([t["case"] for t in acc]) & SUPPLY_DIMS),
        "classes_in_the_case_space": len(SUPPLY_DIMS)}
    v.cov["rule"] = (
        "cases = TLC-enumerated tours (every configuration: P-256/P-384 x 10 root sets/used keys x no ISK / ISK / ISK + 4 / 96 bytes user data x plain / PCK 128 / 256 x "
        "rights 0..3 x NXP flag; VALUE CLASSES OF THE KEYS (tour R): on both curves every root set x used key with a pool key whose public point has a leading zero byte "
        "in X / in Y / in both at every single position of the set (the used key, another member, the only key) and at all positions, x no ISK / ISK of every class "
        "(thorough: every vector of classes over the set) - the device's root-of-trust hash is computed by the harness from the fixed-width coordinates with hashlib; "
        "every data command with data lengths that end the stream at every 16-byte offset of blocks 1..3 (thorough 1..5) with paddings of the last "
        "word; every command type alone over a data-length menu (thorough: all lengths 0..530); every ordered pair of the 14 command types; no command; multi-block payloads) "
        "REQUEST x SUPPLY (tour G; Sb31Format!Givens): the constructors take key material and ISK certificate material as optional arguments next to the request - "
        "both curves x no ISK / ISK / ISK + user data x plain / every encrypted mode, each with EVERY supply the request admits: plain containers with no / a 128-bit / "
        "a 256-bit part-common key x no / every kdk_access_rights (15 combinations), containers without ISK with / without isk_cert + signature provider + "
        "constraints + user data handed to CertBlockV21 (ca_flag set); the loader of a plain container holds no key, the loader of a container without ISK expects "
        "the root key record to end the certificate block; each of these x the optional description left out / empty / given; every export history on three such containers (thorough: + 40 sampled); "
        "+ TLC-simulated random command lists (<= 8 commands) over all configurations (a share of them with material that is not requested) + every export history (<= 3 exports, commands added in between) x sampled "
        "configurations; each case is concretised from VERIF_SEED, built through SecureBinary31 / Cmd* / CertBlockV21, exported, and the exported bytes are walked by the "
        "independent executor; TLC decides every trace. non-trivial = executor got beyond the header; distinct by (abstract case, export number). "
        "Configuration lane (Sb31CfgGen, containers built by SecureBinary31.load_from_config from a configuration dictionary + files of the shape the templates / schemas "
        "define): tours = part-common key {128, 256 bit} x {inline hex, inline 0x hex, text file, text file with newline, binary file} x {random, first byte zero, upper half "
        "zero} x P-256 / P-384 x rights x isEncrypted given / omitted; plain with / without a key; plain (tour P2): no key / a key of either size x kdkAccessRights absent / given x "
        "the certificate block configuration naming the ISK keys although useIsk is false (tour S: the same for encrypted containers); signing key in signPrivateKey / mainRootCertPrivateKeyFile / signProvider x "
        "certBlock as nested configuration / binary x ISK off / on (root key of the nested configuration under each of the three names, new / legacy key names, "
        "mainRootCertId given / found from the key, user data) x root sets; every command kind of the schema (13; RESET has none) in every form (file / comma separated "
        "words / one number / one value / legacy `authentication`; plainInput x wrapping key name; every counter name; optional memory ids given / omitted) x every number "
        "format (int, hex, decimal, 0x1234_5678) and over a payload-length menu; all kinds in one configuration; optional header keys given / omitted; exported once / "
        "twice; value classes of the keys the configuration names (tour R of Sb31CfgGen: short-coordinate keys at every position of the root set x ISK of every class x "
        "certificate block nested / binary x main certificate index given / found from the key); "
        "+ TLC-simulated combinations of all of these with random command lists (<= 6). Same executor, same R-spec. "
        "Tampering: single-bit flips stratified over all regions of accepted files (thorough: every bit of two whole files).")
    v.extra["config_lane"] = {"cases": len(kcases), "key_classes": len(kdims["pck"]), "command_shapes": len(kdims["cmd"]), "signing_shapes": len(kdims["sign"]),
                              "number_formats": kdims["num"], "isEncrypted": kdims["enc"],
                              "accepted_exports": sum(1 for t in acc if "k" in t["case"]), "exports": sum(1 for t in traces if "k" in t["case"])}
    v.assumptions += [
        "trusted base: struct, hashlib (SHA-256/384), `cryptography` ECDSA verify / AES-CBC decrypt / AES-CMAC called directly by harness/c05_rom.py (never through spsdk.crypto)",
        "frozen-from-source: which of the 14 commands carry the 16-byte extra word block (ERASE, LOAD, LOAD_CMAC, COPY, LOAD_HASH_LOCKING, FILL_MEMORY), the 64 reserved "
        "bytes after LOAD_HASH_LOCKING data, the word order of CONFIGURE_MEMORY / FW_VERSION_CHECK and the 16/16-bit split of LOAD_KEY_BLOB come from the pinned source, "
        "cross-checked in phase 1 against the golden .sb3 files; clauses carrying them detect changes but are not independent evidence",
        "the derived key length follows the hash type (128 bit with SHA-256, 256 bit with SHA-384), not the PCK length (learned from the golden files)",
        "keys: all root keys of a set and the ISK are distinct keys; a coordinate has at most ONE leading zero byte in the pool (two or more: probability 2^-16, same "
        "code paths); the signatures are made by SPSDK's own provider with random nonces, so r / s with leading zero bytes arise by chance only (about 1 signature in 64; "
        "the count seen is in extra.key_value_classes); the root-of-trust hash SPSDK REPORTS for fusing (cert_block.rkth) is not compared here (property C03) - a "
        "single-key root set, where the file holds no hash table, is decided on the file alone",
        "the ISK is on the same curve as the root set (mixed curves: loader behaviour not documented - outside the asserted domain)",
        "timestamp 0 is outside the domain (the constructor reads 0 as 'now'); descriptions are printable ASCII; PROGRAM_FUSES data is a whole number of words; "
        "LOAD_KEY_BLOB offset and wrapping-key id fit 16 bits; ISK user data is a multiple of 4 up to 96 bytes (device limits)",
        "content of padding bytes (after data, after the last command, 64-byte tail) is logged but not asserted; the reserved words of the extra word block must be zero",
        "plain (unencrypted) containers are accepted by the model when the loader is told so (test variant; no header bit distinguishes them)",
        "request x supply: what is REQUESTED must be supplied - an encrypted container without part-common key / access rights, an ISK container (ca_flag clear / "
        "useIsk true) without the certificate material are outside the domain (the constructors refuse the first; the second is not a container the loader knows); "
        "material that is supplied but not requested must change nothing (parameter documentation: 'needed if is_encrypted is True'); the class lane hands the key "
        "material to SecureBinary31 (which always passes a timestamp on to SecureBinary31Commands); a SecureBinary31Commands object made by hand and put into a "
        "container is not exercised",
        "ownership of the command list (Sb31Own): asserted for the LIST handed to set_commands only (what was supplied is its content at the hand-over; the unchanged "
        "tree takes a copy there); SecureBinary31Commands has no constructor argument for commands; the command OBJECTS in the list and their data buffers are kept by "
        "reference (CmdLoad stores `self.data = data`) - a caller that modifies a command object or its bytearray after the hand-over is NOT asserted; nor is a caller "
        "that reads `sb_commands.commands` and modifies it directly",
        "configuration lane: the dictionary is handed to SecureBinary31.load_from_config (what `nxpimage sb31 export` calls after schema validation); YAML reading of the top-level "
        "file, check_config and the command line are not exercised (C19/C20 territory); the rendered configurations were validated against "
        "SecureBinary31.get_validation_schemas at development time (all valid except `call`, which is in sch_sb31.yaml but in no family's supported_commands)",
        "configuration lane, frozen-from-source (anchors/C05/config_shape.json): key names of the configuration, wrapping-key ids per family (mcxn947: 18/19, lpc55s36: 16/17), "
        "counter ids of checkFwVersion; an omitted optional memoryId / memoryIdFrom / memoryIdTo means 0; `value` is one number of exactly 4 or 8 bytes (most significant byte "
        "non-zero) written little endian; `values` are 32-bit little-endian words",
        "configuration lane, outside the asserted domain (documentation does not settle them): RESET (no schema entry), `values: 0` / `value: 0` as a bare number, a `value` "
        "whose byte length is not 4 or 8, a binary key file whose content is readable as text, a missing timestamp ('now'), missing firmwareVersion / kdkAccessRights "
        "(undocumented defaults), the certificate-block keys given inline in the container configuration (legacy, not in the sb31 schema), signature providers other than "
        "type=file",
    ]
    return v.finish()


def replay(path):
    import_spsdk()
    w = json.load(open(path))["witness"]
    pool()
    traces = execute(w["plan"], "replay", keep_bytes=True)
    if w.get("kind") == "tamper":
        t = traces[0]
        d = bytearray(t["file"])
        d[w["bit"] // 8] ^= 1 << (w["bit"] % 8)
        t2 = {"id": "replay", "inp": dict(t["inp"], waive=["Input"]), "ev": rom.run(bytes(d), t["rom"])}
        rej, _ = tlc.tv("C05", "Sb31RomTrace", [t2])
        say(json.dumps(t2["ev"][-1]))
        if not rej:
            say(f"VIOLATION property=C05 replay={path}")
            say(f"  the file with bit {w['bit']} ({w['region']}) flipped is accepted")
            return 1
        say("replay: corrupted file rejected by the loader automaton")
        return 0
    t = next((x for x in traces if x["k"] == w["export"]), None)
    if t is None:
        say(f"replay: export #{w['export']} was not reached ({traces[-1]['ev'][-1]})")
        t = traces[-1]
    t2 = strip(t)
    if w.get("waived"):
        t2["inp"] = dict(t2["inp"], waive=w["waived"])
        if t.get("file"):
            t2["ev"] = rom.run(t["file"], t["rom"], waive=tuple(w["waived"]))
    rej, _ = tlc.tv("C05", "Sb31RomTrace", [t2])
    if rej:
        matched = list(rej.values())[0][0]
        say(f"VIOLATION property=C05 replay={path}")
        say(f"  key={finding_key(t, matched)}: {describe(dict(t, ev=t2['ev']), matched)}")
        return 1
    say(f"replay: export #{t['k']} accepted by the loader automaton ({len(t2['ev'])} events)")
    return 0
