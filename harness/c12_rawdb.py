"""C12 - the device database read from its RAW files: which register file does the database prescribe for (family, revision, area)?

Nothing of spsdk.utils.database is used here.  The walk follows what the data files themselves say:
 * devices/<family>/database.yaml either describes a device (info / features / revisions / latest) or names an `alias:` device and lists only
   what differs (features for all revisions, per-revision features, new revisions that are an `alias:` of a revision of the aliased device);
 * the features of a plain device lie over common/database_defaults.yaml;
 * a data file named by a feature (reg_spec ...) is looked up in the folder of the device first, then in the folder of the device it is an alias
   of, then in the folder of the device THAT one is an alias of, and so on (the nearest own file wins); names are relative to the device folder
   (../../common/... for the shared files).
The register map an area object works on must be the one these files prescribe (clause RegisterMap of spec/C12/CfgArea.tla, decided by TLC from
the two maps logged with the Layout event: `exp` built here + c12_areas.layout_from_files, `obs` read from the real object).
"""
import copy
import json
import os

import yaml

try:
    _Loader = yaml.CSafeLoader
except AttributeError:       # pragma: no cover
    _Loader = yaml.SafeLoader


class RawError(Exception):
    """The raw files do not answer the question (no such device / revision / key / file)."""


def data_dir():
    return os.path.join(os.environ.get("VERIF_REPO", "/repo"), "spsdk", "data")


_yaml_cache = {}
_dev_cache = {}


def _load_yaml(path):
    if path not in _yaml_cache:
        with open(path, "r", encoding="utf-8") as f:
            _yaml_cache[path] = yaml.load(f, Loader=_Loader)
    return _yaml_cache[path]


def _over(base, upd):
    """Nested dictionaries: `upd` lies over `base` (mappings are merged key by key, everything else is replaced)."""
    for k, val in upd.items():
        if isinstance(val, dict):
            base[k] = _over(base[k] if isinstance(base.get(k), dict) else {}, val)
        else:
            base[k] = copy.deepcopy(val)
    return base


def device_cfg(family):
    path = os.path.join(data_dir(), "devices", family, "database.yaml")
    if not os.path.isfile(path):
        raise RawError(f"no database.yaml for {family}")
    return _load_yaml(path)


def alias_chain(family):
    """[family, the device it is an alias of, the device that one is an alias of, ...] as the raw files name them."""
    chain = [family]
    while True:
        nxt = device_cfg(chain[-1]).get("alias")
        if not nxt:
            return chain
        if nxt in chain or len(chain) > 16:
            raise RawError(f"alias loop at {nxt}")
        chain.append(nxt)


def device(family):
    """{"latest": name, "revs": {revision: {feature: {...}}}} of a family, built from the raw files only."""
    if family in _dev_cache:
        return _dev_cache[family]
    cfg = device_cfg(family)
    if cfg.get("alias"):
        base = device(cfg["alias"])
        dev = {"latest": cfg.get("latest", base["latest"]), "revs": copy.deepcopy(base["revs"])}
        for feats in dev["revs"].values():
            _over(feats, cfg.get("features") or {})
        for rev, upd in (cfg.get("revisions") or {}).items():
            upd = upd or {}
            if rev not in dev["revs"]:
                src = upd.get("alias")
                if src == "latest":
                    src = base["latest"]
                if src not in dev["revs"]:
                    raise RawError(f"revision {rev} of {family} is new and names no revision to start from")
                dev["revs"][rev] = copy.deepcopy(dev["revs"][src])
            _over(dev["revs"][rev], upd.get("features") or {})
    else:
        defaults = _load_yaml(os.path.join(data_dir(), "common", "database_defaults.yaml"))["features"]
        feats = {}
        for name, val in (cfg.get("features") or {}).items():
            feats[name] = _over(copy.deepcopy(defaults.get(name) or {}), val or {})
        dev = {"latest": cfg["latest"], "revs": {}}
        for rev, upd in (cfg.get("revisions") or {}).items():
            dev["revs"][rev] = _over(copy.deepcopy(feats), (upd or {}).get("features") or {})
    _dev_cache[family] = dev
    return dev


def value(family, rev, feature, keys, default=None):
    dev = device(family)
    if rev not in dev["revs"]:
        raise RawError(f"{family} has no revision {rev}")
    node = dev["revs"][rev].get(feature)
    if node is None:
        raise RawError(f"{family}/{rev} has no feature {feature}")
    for k in keys:
        if not isinstance(node, dict) or k not in node:
            if default is not None:
                return default
            raise RawError(f"{family}/{rev}: no {feature}/{'/'.join(keys)}")
        node = node[k]
    return node


def data_file(family, name):
    """(path of the nearest own file along the alias chain, the device whose folder holds it)."""
    for dev in alias_chain(family):
        path = os.path.join(data_dir(), "devices", dev, name)
        if os.path.isfile(path):
            return os.path.abspath(path), dev
    raise RawError(f"{family}: data file {name} is in no folder of {alias_chain(family)}")


def reg_file(family, rev, feature, keys):
    return data_file(family, str(value(family, rev, feature, list(keys) + ["reg_spec"])))


def chain_files(family, name):
    """The raw FACTS the clause RegisterMap is decided from: [(device of the alias chain, path of the file `name` in its folder or None)] -
    which of them is prescribed (the nearest one) is decided by the specification, not here."""
    res = []
    for dev in alias_chain(family):
        path = os.path.join(data_dir(), "devices", dev, name)
        res.append((dev, os.path.realpath(path) if os.path.isfile(path) else None))
    return res


def deep_aliases():
    """Families that are an alias of an alias, with the devices of their chain that own data files: {family: {device: [files]}}."""
    res = {}
    root = os.path.join(data_dir(), "devices")
    for fam in sorted(os.listdir(root)):
        if not os.path.isfile(os.path.join(root, fam, "database.yaml")):
            continue
        chain = alias_chain(fam)
        if len(chain) >= 3:
            res[fam] = {d: sorted(x for x in os.listdir(os.path.join(root, d)) if x != "database.yaml") for d in chain}
    return res


def preload():
    """Read every database.yaml once (the parent does it before the workers are forked)."""
    root = os.path.join(data_dir(), "devices")
    n = 0
    for fam in sorted(os.listdir(root)):
        if os.path.isfile(os.path.join(root, fam, "database.yaml")):
            try:
                device(fam)
                n += 1
            except RawError:
                pass
    return n


# ------------------------------------------------------------------ the register map the raw files prescribe
def otp_indexes(path):
    """uid -> index_int of the registers of a fuse file (read here: the layout extraction of c12_areas has no use for it)."""
    from c12_areas import to_int

    with open(path, "r", encoding="utf-8") as f:
        spec = json.load(f)
    res = {}
    for g in spec.get("groups", []):
        for r in g.get("registers", []):
            if r.get("index_int") is not None:
                res.setdefault(r.get("id", ""), to_int(r["index_int"]))
    return res


def entry(name, off, width, otp=-1):
    return {"n": str(name), "o": int(off), "w": int(width), "x": int(otp)}


def canon(entries):
    return sorted(entries, key=lambda e: (e["o"], e["x"], e["n"], e["w"]))
