"""System-level lane "BD program -> SB 2.1 file -> mboot link -> device -> boot ROM" (spec/SYS/SbLoadTrace.tla).

Growth of the specification beyond the single properties: BdProg (C19), Sb2Rom (C04) and the device twin / link contract of C10 are COMPOSED.
TLC generated the programs (BdProgGen); SPSDK parses the BD text, builds and exports the SB 2.1 file and sends it with McuBoot.receive_sb_file
to the device twin; the independent ROM executor walks the bytes THE DEVICE holds; TLC (SbLoadTrace) re-executes the program on the language
semantics and demands that the ROM accepts the bytes and decodes exactly the prescribed sections and commands.  The mboot part of the same
execution is validated by MbootTrace.  Python only drives and records.
"""
import json
import os

import c04_rom
import c10
import c19
from lib import tlc
from lib.common import Machinery, rng, say
from lib.par import pmap

LIBS = ("C04", "C19", "C10")
KNOWN_STMTS = ("load_blob",)          # C19 known findings (blob loads): kept out of the composed lane, they are reported by C19 itself


def eligible(hist):
    if any(e["ev"] == "Refuse" for e in hist):
        return False
    if not any(e["ev"] == "Stmt" for e in hist):
        return False
    # a section without statements cannot be exported (documented refusal of the builder): nothing to send
    n = None
    for e in hist:
        if e["ev"] == "BeginSection":
            if n == 0:
                return False
            n = 0
        elif e["ev"] in ("Stmt", "Refuse") and n is not None:
            n += 1
    if n == 0:
        return False
    if any(e["ev"] == "Stmt" and e["st"]["s"] in ("encrypt", "keywrap") for e in hist):
        return False      # their data are crypto: decided in the C19 lane by the owner clause, not by byte comparison
    return not any(e["ev"] == "Stmt" and e["st"]["s"] in KNOWN_STMTS for e in hist)


def one(job):
    i, hist, transport, mps = job
    from spsdk.mboot.mcuboot import McuBoot
    from spsdk.mboot.protocol.bulk_protocol import MbootBulkProtocol
    from spsdk.mboot.protocol.serial_protocol import MbootSerialProtocol

    runner = one.runner
    r = rng("SYS", "sbload", i)
    text, extern = c19.render(hist, runner.files, r)
    evs = [{k: v for k, v in e.items()} for e in hist]
    sent = {"ev": "Sent", "built": False, "ok": False, "devGotExact": False, "devBytes": 0, "fileLen": 0, "why": ""}
    mtrace = None
    rom_ev = []
    via = "cli" if i % 3 == 2 else "api"          # every third program goes through the command-line tools (nxpimage sb21 export, blhost receive-sb-file)
    data = b""
    if via == "cli":
        from click.testing import CliRunner

        from spsdk.apps import nxpimage

        K = c19.KEYS
        bd, outf = os.path.join(runner.dir, f"prog-{i}.bd"), os.path.join(runner.dir, f"out-{i}.sb2")
        with open(bd, "w") as f:
            f.write(text)
        args = ["sb21", "export", "-c", bd, "-k", os.path.join(K, "SBkek_PUF.txt"), "-s", os.path.join(K, "k0_cert0_2048.pem"),
                "-S", os.path.join(K, "root_k0_signed_cert0_noca.der.cert")]
        for k in range(4):
            args += ["-R", os.path.join(K, f"root_k{k}_signed_cert0_noca.der.cert")]
        args += ["-h", os.path.join(runner.dir, f"hash-{i}.bin"), "-o", outf] + list(extern)
        cr = CliRunner().invoke(nxpimage.main, args)
        if cr.exit_code == 0 and os.path.exists(outf):
            data = open(outf, "rb").read()
            sent["built"] = True
        else:
            sent["why"] = f"nxpimage sb21 export: exit {cr.exit_code}: {(cr.output or '').strip()[-160:]} {cr.exception!r}"[:300]
    else:
        res = runner.run(text, extern)
        if res[0] == "ok":
            try:
                data = res[3].export()
                sent["built"] = True
            except Exception as x:  # noqa: BLE001 - recorded, the spec decides
                sent["why"] = f"export: {type(x).__name__}: {x}"[:200]
        else:
            sent["why"] = f"{res[0]}: {res[1]}"[:200]
    if sent["built"]:
        twin = c10.Twin(transport, mps, None, None)
        proto = (MbootSerialProtocol if transport == "serial" else MbootBulkProtocol)(twin)
        proto.identifier = "twin"
        mb = McuBoot(proto)
        mb.open()
        twin.trace = []
        call = {"ev": "call", "op": "receive_sb_file", "shape": "out", "tag": 0x08, "len": len(data), "mps": mps, "args": [], "dl": c10.W(len(data)), "db": []}
        resv = {"ev": "result", "kind": "ret", "val": "fail", "status": 0, "reads": 0, "documented": True, "dataExact": False, "dataLen": 0,
                "devGotExact": False, "devBytes": 0, "valuesExact": False, "exc": "none"}
        try:
            if via == "cli":
                from click.testing import CliRunner

                from spsdk.apps import blhost
                from spsdk.mboot.interfaces.uart import MbootUARTInterface
                from spsdk.mboot.interfaces.usb import MbootUSBInterface

                cls = MbootUARTInterface if transport == "serial" else MbootUSBInterface
                cls.scan_single = classmethod(lambda c, **kw: proto)        # the tool "finds" the device twin (this is a forked worker process)
                cr = CliRunner().invoke(blhost.main, (["-p", "TWIN"] if transport == "serial" else ["-u", "0x1fc9:0x0021"]) + ["receive-sb-file", outf])
                ok = cr.exit_code == 0 and "Success" in (cr.output or "")
                if not ok:
                    sent["why"] = f"blhost receive-sb-file: exit {cr.exit_code}: {(cr.output or '').strip()[-160:]}"[:300]
            else:
                ok = mb.receive_sb_file(data)
            resv["val"] = "ok" if ok is True else "fail"
        except Exception as x:  # noqa: BLE001
            resv.update(kind="exc", val="exc", exc=type(x).__name__, documented=False)
        got = bytes(twin.core.got)
        resv["devGotExact"] = got == data
        resv["devBytes"] = len(got)
        st = mb.status_code if via == "api" else (0 if resv["val"] == "ok" else 1)      # the tool prints the status, its own McuBoot object is gone
        resv["status"] = int(st) if isinstance(st, int) and 0 <= st < 2**31 else 999999
        resv["reads"] = twin.reads
        mtrace = {"id": f"sys-{i}", "transport": transport, "ev": [c10.norm(e) for e in [call] + twin.trace + [resv]]}
        sent.update(ok=resv["val"] == "ok" and resv["status"] == 0, devGotExact=resv["devGotExact"], devBytes=len(got), fileLen=len(data))
        rom_ev = c04_rom.run(got, one.kek, max_payload_log=4096)
    return {"id": f"sys-{i}", "kind": "anchor", "mode": "clean", "given": {}, "ref": {}, "ev": evs + [sent] + rom_ev, "text": text, "mboot": mtrace,
            "transport": transport, "mps": mps, "via": via}


def run_lane(v, progs, tier, prop):
    """progs: construct-event histories from BdProgGen.  Adds violations to v under property `prop`."""
    runner = c19.Runner()
    one.runner = runner
    one.kek = bytes.fromhex(open(os.path.join(c19.KEYS, "SBkek_PUF.txt")).read().strip())
    c04_rom.selftest()
    hs = [h for h in progs if eligible(h)]
    r = rng("SYS", "pick")
    r.shuffle(hs)
    hs = hs[: (150 if tier == "quick" else 1500)]
    for h in hs:
        for ev in h:
            if ev["ev"] == "Stmt" and ev["st"]["s"] == "load_file":
                runner.files(ev["st"]["data"])
    jobs = [(i, h, ("serial", "hid")[i % 2], (32, 64, 200)[i % 3]) for i, h in enumerate(hs)]
    traces = pmap(one, jobs, chunksize=8)
    if len(traces) < 20:
        raise Machinery(f"system lane: only {len(traces)} programs")
    rej, res = tlc.tv("SYS", "SbLoadTrace", [strip(t) for t in traces], libs=LIBS, heap="8g", timeout=1200)
    # canary on a trace the composition ACCEPTED: the same trace with the first decoded command moved by one word must be rejected
    good = next((t for t in traces if t["id"] not in rej and t["ev"][-1].get("ev") == "Accept"), None)
    if good is not None:
        bad = json.loads(json.dumps(good))
        bad["id"] = "sys-canary-bad"
        c = next(e for e in bad["ev"] if e.get("ev") == "Cmd")
        c["addr"] = [c["addr"][0], (c["addr"][1] + 4) % 65536]
        g2 = json.loads(json.dumps(good))
        g2["id"] = "sys-canary-good"
        crej, _ = tlc.tv("SYS", "SbLoadTrace", [strip(g2), strip(bad)], libs=LIBS)
        if set(crej) != {"sys-canary-bad"}:
            raise Machinery(f"system lane canary failed: rejected {sorted(crej)}")
    soft = {}
    for x in res.tuples("SOFT"):
        soft.setdefault(x[0], []).append(x[1])
    by = {t["id"]: t for t in traces}
    v.count(len(traces))
    v.traces(len(traces))
    for t in traces:
        v.nontrivial("sys:" + t["text"])
    for tid, (matched, length, evname) in rej.items():
        t = by[tid]
        e = t["ev"][min(matched, len(t["ev"]) - 1)]
        stmts = sorted({x["st"]["s"] for x in t["ev"] if x.get("ev") == "Stmt"})
        v.violation(f"{prop}/e2e/{evname}/{'+'.join(stmts)[:80]}", f"system lane: {t['text'][:300]!r} over {t['transport']} (mps {t['mps']}): event #{matched + 1} "
                    f"({evname}) rejected: {json.dumps(e)[:400]}", {"e2e": True, "text": t["text"], "trace": strip(t), "transport": t["transport"], "mps": t["mps"]})
    for tid, names in soft.items():
        t = by[tid]
        v.violation(f"{prop}/e2e/header/{'+'.join(sorted(names))}", f"system lane: {t['text'][:200]!r}: header clause(s) {sorted(names)} fail on the bytes the device received",
                    {"e2e": True, "text": t["text"], "trace": strip(t), "transport": t["transport"], "mps": t["mps"]})
    # the link part of the same executions, decided by the R-spec of C10
    mts = [t["mboot"] for t in traces if t["mboot"]]
    rej2, _ = tlc.tv("C10", "MbootTrace", mts, heap="8g", timeout=1200)
    v.traces(len(mts))
    for tid, (matched, length, evname) in rej2.items():
        t = by[tid]
        v.violation(f"{prop}/e2e/link/{t['transport']}/{evname}", f"system lane: receive_sb_file of the file built from {t['text'][:200]!r} over {t['transport']}: mboot event "
                    f"#{matched + 1} rejected", {"e2e": True, "text": t["text"], "trace": strip(t), "transport": t["transport"], "mps": t["mps"]})
    acc = sum(1 for t in traces if t["ev"][-1].get("ev") == "Accept")
    v.extra["system_lane_cli"] = sum(1 for t in traces if t["via"] == "cli")
    v.extra["system_lane"] = {"programs": len(traces), "walked_to_accept": acc, "rejected": len(rej), "link_traces": len(mts),
                              "canary": "trace with one decoded command address moved by 4 rejected"}
    say(f"[SYS] {len(traces)} programs: BD text -> SB2.1 -> mboot link -> device -> ROM; {acc} accepted by the ROM automaton, {len(rej)} rejected by the composition")


def strip(t):
    return {"id": t["id"], "kind": t["kind"], "mode": t["mode"], "given": t["given"], "ref": t["ref"], "ev": t["ev"]}


CONSTRUCTS = ("DefOption", "DefOptionStr", "DefConst", "DefKeyblob", "BeginSection", "Stmt")


def replay(w):
    """Re-run one witness of the system lane. Returns True if the composition (or the link spec) rejects it again."""
    runner = c19.Runner()
    one.runner = runner
    one.kek = bytes.fromhex(open(os.path.join(c19.KEYS, "SBkek_PUF.txt")).read().strip())
    hist = [e for e in w["trace"]["ev"] if e.get("ev") in CONSTRUCTS]
    for ev in hist:
        if ev["ev"] == "Stmt" and ev["st"]["s"] == "load_file":
            runner.files(ev["st"]["data"])
    bad = False
    for i in range(3):      # rendering choices (number formats, line breaks) are seeded per run index
        t = one((i, hist, w.get("transport", "serial"), w.get("mps", 32)))
        say(t["text"])
        rej, res = tlc.tv("SYS", "SbLoadTrace", [strip(t)], libs=LIBS)
        soft = res.tuples("SOFT")
        rej2 = tlc.tv("C10", "MbootTrace", [t["mboot"]])[0] if t["mboot"] else {}
        say(json.dumps(t["ev"][-3:])[:600])
        bad = bad or bool(rej) or bool(soft) or bool(rej2)
    return bad
