"""C11 - registers and bit-fields behave as independent bit-vectors.

spec/C11/Registers.tla is the bit-vector semantics, RegFile.tla the state machine of the public operations.
 MC : exhaustive on a tiny layout, lemmas (LastWriteWins, Independent, ViewsConsistent, Frozen ...)
 GEN: TLC emits behaviours (exhaustive to a small depth on the tiny layout, -simulate on generated layouts)
 replay: every behaviour is stepped through a real spsdk.utils.registers.Registers object, the projection of the real
         state (raw bits of every leaf, every bit-field value, enum view, group values, number of registers) is logged
 TV : TLC (RegFileTrace) recomputes every step and rejects a trace whose logged state differs.
 lane "ship" (harness/c11_ship.py, spec/C11/RegFileShipGen.tla): the grouped registers the device database ships - layout read from the declarations,
         tours emitted by TLC, replay on Registers(family, feature, base_key, revision) / FuseRegisters, decided by the same RegFileTrace.
"""
import json
import os

import yaml

from lib import tlc
from lib.common import Machinery, import_spsdk, rng, say, scratch, sha
from lib.verdict import Verdict

PROP = "C11"


# ------------------------------------------------------------------ layouts
def bits_of(v):
    return [i for i in range(v.bit_length()) if v >> i & 1]


def int_of(bits):
    return sum(1 << b for b in bits)


def mk_leaf(name, width, fields, parent=0):
    return {"name": name, "kind": "leaf", "width": width, "reverse": False, "parent": parent, "subs": [], "rso": False, "fields": fields}


def mk_field(name, off, width, reset=0, shr=0, hidden=False, enums=()):
    return {"name": name, "off": off, "width": width, "reset": bits_of(reset), "shr": shr, "hidden": hidden,
            "enums": [{"name": n, "v": bits_of(v)} for n, v in enums]}


def tiny_layout():
    regs = [
        mk_leaf("R0", 8, [mk_field("HIDDEN_BITFIELD_000", 0, 1, hidden=True), mk_field("A", 1, 3, reset=2, enums=[("A_ONE", 1), ("A_FIVE", 5)]),
                          mk_field("B", 4, 2, shr=1), mk_field("HIDDEN_BITFIELD_006", 6, 2, hidden=True)]),
        {"name": "G", "kind": "group", "width": 16, "reverse": True, "parent": 0, "subs": [3, 4], "rso": True, "fields": []},
        mk_leaf("G0", 8, [mk_field("X", 0, 8)], parent=2),
        mk_leaf("G1", 8, [mk_field("Y", 0, 4), mk_field("Z", 4, 4, enums=[("Z_MAX", 15)])], parent=2),
    ]
    return {"regs": regs}


def width_layout(r):
    """Every register width class that is not a power of two (24 .. 96 bits), plain and with reversed byte order, with and without bit-fields."""
    regs = []
    for k, width in enumerate((24, 40, 48, 56, 72, 96)):
        regs.append(mk_leaf(f"W{width}", width, tile_fields(r, f"W{width}", width) if k % 2 else []))
        regs.append(mk_leaf(f"V{width}", width, tile_fields(r, f"V{width}", width) if not k % 2 else []))
        regs[-1]["reverse"] = True
    return {"regs": regs}


def random_layout(r, big=False):
    regs = []
    n_top = r.randrange(2, 5)
    for t in range(n_top):
        kind = r.choice(["leaf", "leaf", "group"])
        if kind == "leaf":
            width = r.choice([8, 16, 32, 32, 64, 24, 40, 48, 56] + ([128, 256, 512, 72, 96] if big else []))          # every multiple of 8 is a legal width
            regs.append(mk_leaf(f"REG{t}", width, tile_fields(r, f"REG{t}", width)))
            # a plain register with reversed byte order (with or without bit-fields): the JSON specification cannot declare it, the Register API can
            regs[-1]["reverse"] = width > 8 and r.random() < 0.3
        else:
            n_sub = r.choice([1, 2, 2, 4] + ([8, 16] if big else []))
            sw = r.choice([8, 16, 32])
            gi = len(regs) + 1
            regs.append({"name": f"GRP{t}", "kind": "group", "width": sw * n_sub, "reverse": r.random() < 0.5, "parent": 0,
                         "subs": list(range(gi + 1, gi + 1 + n_sub)), "rso": r.random() < 0.5, "fields": [], "hexstr": r.random() < 0.5})
            for k in range(n_sub):
                regs.append(mk_leaf(f"GRP{t}_S{k}", sw, tile_fields(r, f"GRP{t}_S{k}", sw, allow_reset=False) if r.random() < 0.6 else [], parent=gi))
    return {"regs": regs}


def tile_fields(r, rname, width, allow_reset=True):
    if r.random() < 0.25:
        return []
    fields, off = [], 0
    while off < width:
        w = min(width - off, r.choice([1, 1, 2, 3, 4, 7, 8, 9, 16, 31, 32, 33]))
        hidden = r.random() < 0.2
        name = f"HIDDEN_BITFIELD_{off:03X}" if hidden else f"F{off}"
        shr = r.choice([0, 0, 0, 0, 2, 8]) if not hidden else 0
        reset = r.getrandbits(w) if (allow_reset and shr == 0 and r.random() < 0.3) else 0
        enums = []
        if not hidden and r.random() < 0.4:
            # enum constants are values as get_value() reads them (for a SHIFT_RIGHT field: multiples of 2^shr)
            vals = r.sample(range(min(1 << w, 64)), k=min(1 << w, r.randrange(1, 4)))
            enums = [(f"{rname}_{name}_E{v << shr}", v << shr) for v in vals]
        fields.append(mk_field(name, off, w, reset=reset, shr=shr, hidden=hidden, enums=enums))
        off += w
    return fields


def to_spsdk(layout):
    """Our layout -> (SPSDK register JSON specification, grouped_registers list)."""
    specs, groups = [], []
    offset = 0
    for i, reg in enumerate(layout["regs"], start=1):
        if reg["kind"] == "group":
            groups.append({"uid": f"uid_{reg['name'].lower()}", "name": reg["name"], "width": reg["width"], "reversed": reg["reverse"],
                           "reverse_subregs_order": reg["rso"], "sub_regs": [f"uid_{layout['regs'][s - 1]['name'].lower()}" for s in reg["subs"]],
                           "config_as_hexstring": bool(reg.get("hexstr", False))})      # the configuration carries the value as bare hex digits
            continue
        spec = {"id": f"uid_{reg['name'].lower()}", "name": reg["name"], "offset_int": hex(offset), "reg_width": str(reg["width"]),
                "description": f"{reg['name']} register", "bitfields": []}
        offset += reg["width"] // 8
        for f in reg["fields"]:
            b = {"id": f"uid_{reg['name'].lower()}_{f['off']}", "width": str(f["width"]), "offset": hex(f["off"]),
                 "reset_value_int": hex(int_of(f["reset"])), "description": "field"}
            if not f["hidden"]:
                b["name"] = f["name"]
            if f["shr"]:
                b["config_preprocess"] = f"SHIFT_RIGHT:COUNT={f['shr']};DESC=shifted"
            if f["enums"]:
                b["values"] = [{"name": e["name"], "value": hex(int_of(e["v"])), "description": "enum"} for e in f["enums"]]
            spec["bitfields"].append(b)
        specs.append(spec)
    return {"cpu": "verif", "groups": [{"group": {"name": "g", "description": "g"}, "registers": specs}]}, groups


class Real:
    """A real Registers object for a layout + the operations of the spec."""

    def __init__(self, layout, idx, variant=0):
        from spsdk.utils.registers import Registers

        self.layout = layout
        self.idx = idx
        # how the register file comes into being (not part of the abstract state - the same behaviour must result): loaded from the JSON specification,
        # or built register by register with the public classes and add_register(); byte order of the file big or little
        self.route = "api" if variant % 2 else "spec"
        self.little = bool((variant // 2) % 2)
        self.path = os.path.join(scratch(), f"c11-layout-{sha(layout)}.json")
        if not os.path.exists(self.path):
            spec, groups = to_spsdk(layout)
            with open(self.path, "w") as f:
                json.dump(spec, f)
            with open(self.path + ".groups", "w") as f:
                json.dump(groups, f)
        self.groups = json.load(open(self.path + ".groups"))
        self.Registers = Registers
        self.regs = self.fresh()

    def fresh(self):
        from spsdk.utils.misc import Endianness

        regs = self.Registers(family="VerifDevice", feature="verif", base_endianness=Endianness.LITTLE if self.little else Endianness.BIG)
        if self.route == "spec":
            regs._load_spec(self.path, grouped_regs=self.groups)
        else:
            # the same specification, every register created on its own (Register.create_from_spec) and handed to the file through add_register()
            spec = json.load(open(self.path))
            for grp in spec.get("groups", []):
                for sreg in grp.get("registers", []):
                    reg = regs.register_class.create_from_spec(sreg)
                    group = regs._get_register_group(reg, self.groups)
                    if group:
                        try:
                            greg = regs.get_reg(group["uid"])
                        except Exception:  # noqa: BLE001 - first member of the group
                            greg = regs.register_class(name=group["name"], offset=int(str(group.get("offset", 0)), 0), width=int(str(group.get("width", 0)), 0), uid=group["uid"],
                                                       description=group.get("description", f"Group of {group['name']} registers."),
                                                       reverse=bool(group.get("reversed", False)), config_as_hexstring=group.get("config_as_hexstring", False),
                                                       reverse_subregs_order=group.get("reverse_subregs_order", False), alt_widths=group.get("alternative_widths"))
                            regs.add_register(greg)
                        greg._add_group_reg(reg)
                    else:
                        regs.add_register(reg)
        for reg in self.layout["regs"]:
            if reg["kind"] == "leaf" and reg["reverse"]:
                regs.find_reg(reg["name"], include_group_regs=True).reverse = True      # = Register(..., reverse=True); set before any value is written
        return regs

    def reg(self, r):
        return self.regs.find_reg(self.layout["regs"][r - 1]["name"], include_group_regs=True)

    def field(self, r, f, how=0):
        reg = self.reg(r)
        fl = self.layout["regs"][r - 1]["fields"][f - 1]
        if how % 2 == 0:
            return reg.find_bitfield(fl["name"])
        return reg.get_bitfield(f"uid_{self.layout['regs'][r - 1]['name'].lower()}_{fl['off']}")

    def projection(self):
        L = self.layout["regs"]
        bits, fv, en, gv = [], [], [], []
        for i, rg in enumerate(L, start=1):
            reg = self.reg(i)
            if rg["kind"] == "leaf":
                bits.append(bits_of(reg.get_value(raw=True)))
                vals, ens = [], []
                for k, fl in enumerate(rg["fields"], start=1):
                    bf = self.field(i, k)
                    v = bf.get_value()
                    vals.append(bits_of(v))
                    ev = bf.get_enum_value()
                    names = [e["name"] for e in fl["enums"]]
                    ens.append(names.index(ev) + 1 if ev in names else 0)
                fv.append(vals)
                en.append(ens)
                gv.append([[], []])
            else:
                bits.append([])
                fv.append([])
                en.append([])
                gv.append([bits_of(reg.get_value(raw=True)), bits_of(reg.get_value(raw=False))])
        return {"bits": bits, "n": len(self.regs), "fv": fv, "en": en, "gv": gv}

    def present(self, v, r, width_bits=None):
        k = r.randrange(9)
        if k == 0:
            return v
        if k == 1:
            return hex(v)
        if k == 2:
            return str(v)
        if k == 3:
            return bin(v)
        if k == 4:                       # every spelling of the documented number grammar denotes the same value: upper-case prefix / digits, octal,
            return r.choice([f"0X{v:X}", f"0x{v:X}", f"0B{v:b}", f"0o{v:o}", f"0O{v:o}"])
        if k == 5:                       # suffixes and digit separators
            return r.choice([f"{v}u", f"{hex(v)}ul", f"{v:_}", f"0x{v:_x}"])
        if k == 6:
            return f" {hex(v)} " if r.random() < 0.5 else str(v)
        return v.to_bytes(max(1, (v.bit_length() + 7) // 8), "big")

    def apply(self, a, r):
        """Execute one spec action on the real object. Returns the event (with refused flag where it applies)."""
        from spsdk.exceptions import SPSDKError

        ev = dict(a)
        kind = a["a"]
        if kind == "SetReg":
            try:
                self.reg(a["r"]).set_value(self.present(int_of(a["v"]), r), a["raw"])
                ev["refused"] = False
            except SPSDKError:
                ev["refused"] = True
        elif kind == "SetField":
            v = int_of(a["v"])
            bf = self.field(a["r"], a["f"], r.randrange(2))
            try:
                if r.random() < 0.7:
                    bf.set_value(self.present(v, r))
                else:
                    bf.set_enum_value(r.choice([v, hex(v)]))
                ev["refused"] = False
            except SPSDKError:
                ev["refused"] = True
        elif kind == "SetFieldEnum":
            bf = self.field(a["r"], a["f"], r.randrange(2))
            fl = self.layout["regs"][a["r"] - 1]["fields"][a["f"] - 1]
            name = fl["enums"][a["e"] - 1]["name"] if a["e"] else "NO_SUCH_ENUM_NAME"
            try:
                bf.set_enum_value(name)
                ev["refused"] = False
            except SPSDKError:
                ev["refused"] = True
        elif kind == "Reset":
            self.reg(a["r"]).reset_value(a["raw"])
        elif kind == "ResetAll":
            self.regs.reset_values()
        elif kind == "ExportParse":
            data = self.regs.export()
            new = self.fresh()
            new.parse(data)
            self.regs = new
        elif kind == "ConfigRoundTrip":
            cfg = self.regs.get_config(diff=a["diff"])
            if r.random() < 0.5:
                cfg = yaml.safe_load(yaml.safe_dump(cfg))
            new = self.fresh()
            new.load_yml_config(cfg)
            self.regs = new
        elif kind == "Query":
            self.query(a["q"])
        else:
            raise Machinery(f"unknown action {kind}")
        ev["post"] = self.projection()
        return ev

    def query(self, q):
        regs = self.regs
        if q == "names":
            regs.get_reg_names()
        elif q == "names_grp":
            regs.get_reg_names(include_group_regs=True)
        elif q == "regs_grp":
            regs.get_registers(include_group_regs=True)
        elif q == "find_grp":
            for rg in self.layout["regs"]:
                regs.find_reg(rg["name"], include_group_regs=True)
        elif q == "bitfield_names":
            for reg in regs.get_registers():
                reg.get_bitfield_names()
                reg.get_bitfields()
        elif q == "config":
            regs.get_config()
        elif q == "config_diff":
            regs.get_config(diff=True)
        elif q == "export":
            regs.export()
        elif q == "image_info":
            regs.image_info().draw()
        elif q == "str":
            str(regs)
            for reg in regs.get_registers(include_group_regs=True):
                repr(reg)
        elif q == "hex_values":
            for reg in regs.get_registers():
                reg.get_hex_value()
                reg.get_hex_value(raw=True)
                reg.get_bytes_value()
                reg.get_bytes_value(raw=True)
        elif q == "enum_values":
            for reg in regs.get_registers(include_group_regs=True):
                for bf in reg.get_bitfields():
                    bf.get_enum_value()
                    bf.get_hex_value()
                    bf.get_enum_names()
        elif q == "schema":
            regs.get_validation_schema()
        elif q == "reset_values_get":
            for reg in regs.get_registers(include_group_regs=True):
                reg.get_reset_value()
                for bf in reg.get_bitfields():
                    bf.get_reset_value()
        elif q == "diff":
            regs.get_diff(self.fresh())
        else:
            raise Machinery(f"unknown query {q}")


QUERIES = ["names", "names_grp", "regs_grp", "find_grp", "bitfield_names", "config", "config_diff", "export", "image_info", "str",
           "hex_values", "enum_values", "schema", "reset_values_get", "diff"]


def random_value(r, w):
    k = r.randrange(10)
    if k == 8:        # every hex digit is a decimal digit (a bare-hex configuration value must still be read as hexadecimal)
        return bits_of(int("".join(r.choice("0123456789") for _ in range((w + 3) // 4)), 16) & ((1 << w) - 1))
    if k == 9:        # small value: leading zeros in every fixed-width rendering
        return bits_of(r.choice([1, 2, 9, 0x10, 0x20, 0x99, 0x100]) & ((1 << w) - 1))
    if k == 0:
        return []
    if k == 1:
        return list(range(w))
    if k == 2:
        return [w]  # 2^w: does not fit
    if k == 3:
        return [0, w]
    if k == 4:
        return [w - 1]
    v = r.getrandbits(w)
    return bits_of(v)


def random_behaviour(layouts, r, n):
    li = r.randrange(len(layouts))
    L = layouts[li]["regs"]
    leaves = [i for i, x in enumerate(L, 1) if x["kind"] == "leaf"]
    with_fields = [i for i in leaves if L[i - 1]["fields"]]
    top_leaves = [i for i in leaves if L[i - 1]["parent"] == 0]
    hist = []
    for _ in range(n):
        k = r.randrange(10)
        if k <= 2:
            i = r.randrange(1, len(L) + 1)
            hist.append({"a": "SetReg", "r": i, "v": random_value(r, L[i - 1]["width"]), "raw": r.random() < 0.5})
        elif k <= 5 and with_fields:
            i = r.choice(with_fields)
            f = r.randrange(1, len(L[i - 1]["fields"]) + 1)
            fl = L[i - 1]["fields"][f - 1]
            if fl["enums"] and r.random() < 0.4:
                hist.append({"a": "SetFieldEnum", "r": i, "f": f, "e": r.randrange(0, len(fl["enums"]) + 1)})
            else:
                hist.append({"a": "SetField", "r": i, "f": f, "v": random_value(r, fl["width"] + fl["shr"])})
        elif k == 6 and top_leaves:
            hist.append(r.choice([{"a": "Reset", "r": r.choice(top_leaves), "raw": r.random() < 0.5}, {"a": "ResetAll"}]))
        elif k == 7:
            hist.append({"a": "ExportParse"})
        elif k == 8:
            hist.append({"a": "ConfigRoundTrip", "diff": r.random() < 0.5})
        else:
            hist.append({"a": "Query", "q": r.choice(QUERIES)})
    return {"lay": li + 1, "hist": hist}


def scenario_behaviours(layouts, r):
    """Short targeted histories for every group of every layout (interplay of the group view, its sub-registers and the written configuration)."""
    out = []
    for li, lay in enumerate(layouts, 1):
        L = lay["regs"]
        for gi, g in enumerate(L, 1):
            if g["kind"] != "group":
                continue
            w = g["width"]
            digits = bits_of(int("".join(r.choice("123456789") for _ in range(w // 4)), 16))
            small = bits_of(r.choice([0x10, 0x20, 0x99, 0x100]) & ((1 << w) - 1))
            sub = r.choice(g["subs"])
            sw = L[sub - 1]["width"]
            for v0 in (digits, small):
                # configuration written from a value whose hex digits are all decimal digits / that has leading zeros
                out.append({"lay": li, "hist": [{"a": "SetReg", "r": gi, "v": v0, "raw": False}, {"a": "ConfigRoundTrip", "diff": False},
                                                {"a": "ConfigRoundTrip", "diff": True}]})
            # the group is read, then a sub-register is written behind its back, then the group is read / written out again
            for raw in (False, True):
                out.append({"lay": li, "hist": [{"a": "SetReg", "r": gi, "v": random_value(r, w)[:w], "raw": raw}, {"a": "Query", "q": "config"},
                                                {"a": "SetReg", "r": sub, "v": bits_of(r.getrandbits(sw) | 1), "raw": r.random() < 0.5},
                                                {"a": "Query", "q": "config"}, {"a": "ConfigRoundTrip", "diff": False}, {"a": "ExportParse"}]})
            fl = [(k, f) for k, f in enumerate(L[sub - 1]["fields"], 1) if not f["hidden"]]
            if fl:
                k, f = r.choice(fl)
                out.append({"lay": li, "hist": [{"a": "Query", "q": "config"}, {"a": "SetField", "r": sub, "f": k, "v": bits_of(r.getrandbits(f["width"]) | 1)},
                                                {"a": "Query", "q": "config"}, {"a": "ConfigRoundTrip", "diff": True}, {"a": "ExportParse"}]})
        # every plain register: values of every significant-byte count (1 .. width / 8 bytes), written as a whole (processed and raw), read back, written
        # out as configuration and loaded again, exported and parsed
        for gi, g in enumerate(L, 1):
            if g["kind"] != "leaf" or g["parent"] or g["width"] < 16:
                continue
            w = g["width"]
            for nb in sorted({1, 2, 3, w // 8 - 1, w // 8}):
                v0 = bits_of((r.getrandbits(8 * nb) | (0x81 << (8 * (nb - 1)))) & ((1 << w) - 1))
                out.append({"lay": li, "hist": [{"a": "SetReg", "r": gi, "v": v0, "raw": nb % 2 == 0}, {"a": "Query", "q": "config"}, {"a": "ConfigRoundTrip", "diff": False},
                                                {"a": "ExportParse"}, {"a": "SetReg", "r": gi, "v": v0, "raw": nb % 2 == 1}, {"a": "ConfigRoundTrip", "diff": True}]})
    return out


def replay_behaviour(layouts, beh, tid, r):
    real = Real(layouts[beh["lay"] - 1], beh["lay"], variant=tid)          # the four ways of making the register file, in rotation
    evs = [{"a": "Init", "post": real.projection()}]
    for a in beh["hist"]:
        try:
            evs.append(real.apply(a, r))
        except Exception as e:  # noqa: BLE001 - a crash of a public operation is an observation, decided by the spec (no matching action)
            evs.append({"a": "Crash", "of": a["a"], "exc": type(e).__name__, "msg": str(e)[:200]})
            break
    return {"id": tid, "lay": beh["lay"], "ev": evs, "made": f"{real.route}/{'little' if real.little else 'big'}-endian"}


def arg_class(layout, ev):
    a = ev.get("a")
    if a == "Crash":
        return f"{ev['of']}/crash:{ev['exc']}"
    if a == "SetField":
        fl = layout["regs"][ev["r"] - 1]["fields"][ev["f"] - 1]
        v, w = int_of(ev["v"]) >> fl["shr"], fl["width"]
        cls = "value=2^w" if v == 1 << w else "value>2^w" if v > 1 << w else "in-range"
        return f"SetField/{cls}/refused={ev.get('refused')}"
    if a == "SetReg":
        reg = layout["regs"][ev["r"] - 1]
        v = int_of(ev["v"])
        cls = "too-big" if v >= 1 << reg["width"] else "in-range"
        feat = reg["kind"] + ("+reversed" if reg["reverse"] else "") + ("+rso" if reg["rso"] else "")
        return f"SetReg/{cls}/{feat}/raw={ev.get('raw')}"
    if a == "Query":
        return f"Query/{ev['q']}"
    if a == "ConfigRoundTrip":
        return f"ConfigRoundTrip/diff={ev['diff']}"
    return str(a)


def validate(v, layouts, layout_file, traces):
    rej, res = tlc.tv("C11", "RegFileTrace", traces, env={"LAYOUT_FILE": layout_file, "MENU": "full"}, heap="8g")
    v.traces(len(traces))
    v.extra.setdefault("tv_states", 0)
    v.extra["tv_states"] += res.distinct
    by_id = {t["id"]: t for t in traces}
    for tid, (matched, length, evname) in rej.items():
        t = by_id[tid]
        ev = t["ev"][matched] if matched < len(t["ev"]) else t["ev"][-1]
        key = f"C11/{arg_class(layouts[t['lay'] - 1], ev)}"
        v.violation(key, f"trace {tid}: event #{matched + 1} ({evname}) is not a step of the register-file spec", {"layout": layouts[t["lay"] - 1], "trace": t, "failed_event": matched + 1})
    return rej


def run(tier):
    import_spsdk()
    v = Verdict(PROP, tier)
    r = rng(PROP)
    sc = scratch()

    # ---- MC on the tiny layout
    tiny_file = os.path.join(sc, "c11-tiny.json")
    json.dump([tiny_layout()], open(tiny_file, "w"))
    mc = tlc.mc("C11", "RegFile", "RegFileMC.cfg", env={"LAYOUT_FILE": tiny_file, "MC_LEVEL": 3, "MENU": "small" if tier == "quick" else "full"}, heap="8g", timeout=1800,
                require_actions=("DoSetReg", "DoSetRegTooBig", "DoSetField", "DoSetFieldTooBig", "DoSetFieldEnum", "DoSetFieldUnknownEnum",
                                 "DoReset", "ResetAll", "ExportParse", "ConfigRoundTrip", "Query"))
    v.add_mc(mc)
    say(f"[C11] MC done {v.timer.s()}s: {mc.distinct} states")

    # ---- GEN 1: exhaustive behaviours to depth D on the tiny layout
    depth = 2
    g1 = tlc.run("C11", "RegFileGen", "RegFileGen.cfg", env={"LAYOUT_FILE": tiny_file, "GEN_DEPTH": depth, "MENU": "small" if tier == "quick" else "full"}, workers=1, deadlock=False, heap="8g")
    behs = g1.json_prints()
    v.add_mc(g1)
    if len(behs) < 100:
        raise Machinery(f"GEN produced only {len(behs)} behaviours:\n{g1.out[-2000:]}")
    layouts1 = [tiny_layout()]
    say(f"[C11] GEN1 done {v.timer.s()}s: {len(behs)} behaviours")
    traces = [replay_behaviour(layouts1, b, i, r) for i, b in enumerate(behs)]
    v.count(len(traces))
    say(f"[C11] replay1 done {v.timer.s()}s")
    for t in traces:
        v.nontrivial(json.dumps([t["lay"], [(e.get("a"), e.get("r"), e.get("f"), e.get("v"), e.get("q")) for e in t["ev"]]]))
    v.sample(traces[len(traces) // 2])

    rej1 = validate(v, layouts1, tiny_file, traces)
    say(f"[C11] TV1 done {v.timer.s()}s")

    # ---- canary: corrupt one logged bit of a trace the spec ACCEPTED, it must be rejected (a trace of the real code that the spec rejects is a
    # violation of the run above, never a machinery failure)
    accepted = [t for t in traces if t["id"] not in rej1]
    if accepted:
        good = json.loads(json.dumps(accepted[len(accepted) // 3]))
        bad = json.loads(json.dumps(good))
        good["id"], bad["id"] = "canary-good", "canary-bad"
        last = bad["ev"][-1]["post"]["bits"][0]
        bad["ev"][-1]["post"]["bits"][0] = [b for b in last if b != 7] if 7 in last else last + [7]
        rej, _ = tlc.tv("C11", "RegFileTrace", [good, bad], env={"LAYOUT_FILE": tiny_file, "MENU": "full"})
        if set(rej) != {"canary-bad"}:
            raise Machinery(f"canary failed: rejected {sorted(rej)} (expected only canary-bad)")
        v.extra["canary"] = "accepted trace accepted again, the same trace with one flipped logged bit rejected"
    else:
        v.extra["canary"] = "skipped: the spec rejected every trace of the real code (all reported as violations)"

    # ---- lane "ship": the grouped registers the device database ships (layout = the declarations, replay on Registers(family, feature, ...))
    import c11_ship

    ship = c11_ship.run_lane(v, tier, r)

    # ---- GEN 2: simulated long behaviours on generated layouts
    n_lay = 6 if tier == "quick" else 40
    layouts2 = [random_layout(r, big=(i % 2 == 1)) for i in range(n_lay)] + [width_layout(r)]
    lay_file = os.path.join(sc, "c11-layouts.json")
    json.dump(layouts2, open(lay_file, "w"))
    num = 30 if tier == "quick" else 600
    g2 = tlc.run("C11", "RegFileGen", "RegFileGen.cfg", env={"LAYOUT_FILE": lay_file, "GEN_DEPTH": 12, "MENU": "full"}, workers=1, deadlock=False,
                 simulate=f"num={num}", depth=15, heap="8g")
    behs2 = g2.json_prints()
    if len(behs2) < num // 2:
        raise Machinery(f"simulation produced only {len(behs2)} behaviours:\n{g2.out[-2000:]}")
    say(f"[C11] GEN2 done {v.timer.s()}s: {len(behs2)} behaviours")
    # seeded random behaviours over the same action alphabet (code -> spec direction only: TLC decides them all the same)
    behs2 += [random_behaviour(layouts2, r, 16) for _ in range(400 if tier == "quick" else 6000)]
    behs2 += scenario_behaviours(layouts2, r)
    traces2 = [replay_behaviour(layouts2, b, 100000 + i, r) for i, b in enumerate(behs2)]
    say(f"[C11] replay2 done {v.timer.s()}s")
    v.count(len(traces2))
    for t in traces2:
        v.nontrivial(json.dumps([t["lay"], [(e.get("a"), e.get("r"), e.get("f"), e.get("v"), e.get("q")) for e in t["ev"]]]))
    v.sample(traces2[0])
    validate(v, layouts2, lay_file, traces2)

    v.cov["rule"] = (
        f"behaviours = all action sequences of length {depth} on the tiny layout (TLC exhaustive) + {len(behs2)} simulated behaviours of "
        f"length 12 on {n_lay} generated layouts (widths 8..512, tiled bit-fields, enums, SHIFT_RIGHT processors, groups with reversed "
        "byte order and reversed sub-register order); every behaviour is replayed on a real Registers object; distinct by (layout, action sequence); "
        f"lane ship: every grouped register the device database declares ({ship['cases']} declarations in {ship['files']} register files of all families / revisions / "
        f"features, {ship['layouts']} distinct layouts read from the declarations) x the tours of RegFileShipGen (full-width values through both views, one value per "
        f"sub-register slot, members written behind the group, refusals, member bit-fields, configuration and export round trips; quick tier: all tours on the first member "
        f"of each of the {ship['classes']} classes of byte-identical declaration + register file, the full-width and refusal tours on every declaration) = {ship['traces']} traces on "
        "Registers(family, feature, base_key, revision) / FuseRegisters(family, revision)"
    )
    v.assumptions += [
        "hidden (reserved) registers and alternative widths are not generated (parse skips hidden registers - observation recorded under C12)",
        "reversed byte order is generated on group registers only (the only way the JSON specification can declare it)",
        "sub-registers of groups have zero reset values (reset of a group register is not defined by the property)",
        "lane ship: on groups that declare alternative widths only values that occupy the declared width in both views are written (what a shorter value means there is "
        "not modelled); export -> parse is driven only on register files that declare a memory image (every register its own byte range: PFR, FCF, some fuse maps); "
        "reset operations are not driven on shipped groups; the number of registers of a shipped file is taken from the object as constructed (asserted constant, not its value); "
        "register files without grouped registers are not driven (their data nits - overlaps, bit-fields not tiling, duplicate names - are C12's Layout clauses)",
    ]
    return v.finish()


def replay(path):
    import_spsdk()
    w = json.load(open(path))["witness"]
    layout = w["layout"]
    if w.get("case"):                                  # lane ship: the real object comes from the device database
        import c11_ship

        sc = scratch()
        f = os.path.join(sc, "replay-layout.json")
        layout = c11_ship.layout_of_case(w["case"]) or layout          # the layout is re-read from the declarations of the tree under test
        json.dump([layout], open(f, "w"))
        hist = [{k: x for k, x in e.items() if k not in ("post", "refused")} for e in w["trace"]["ev"][1:] if e["a"] != "Crash"]
        t = c11_ship.replay_tour(c11_ship.make_real_class(), w["case"], layout, 1, hist, w["trace"]["id"], rng(PROP, "replay"))
        rej, _ = tlc.tv("C11", "RegFileTrace", [t], env={"LAYOUT_FILE": f, "MENU": "full"})
        if rej:
            k = list(rej.values())[0]
            say(f"VIOLATION property=C11 replay={path}")
            say(f"  rejected at event {k[0] + 1}: {json.dumps(t['ev'][min(k[0], len(t['ev']) - 1)])[:400]}")
            return 1
        say("replay: trace accepted by the spec")
        return 0
    sc = scratch()
    f = os.path.join(sc, "replay-layout.json")
    json.dump([layout], open(f, "w"))
    beh = {"lay": 1, "hist": [{k: x for k, x in e.items() if k not in ("post", "refused")} for e in w["trace"]["ev"][1:] if e["a"] != "Crash"]}
    tid = w["trace"].get("id", 0)
    t = replay_behaviour([layout], beh, tid if isinstance(tid, int) else 0, rng(PROP, "replay"))     # the trace id carries the construction variant
    rej, _ = tlc.tv("C11", "RegFileTrace", [t], env={"LAYOUT_FILE": f, "MENU": "full"})
    if rej:
        say(f"VIOLATION property=C11 replay={path}")
        say(f"  rejected at event {list(rej.values())[0][0] + 1}: {json.dumps(t["ev"][min(list(rej.values())[0][0], len(t["ev"]) - 1)])[:400]}")
        return 1
    say("replay: trace accepted by the spec")
    return 0
