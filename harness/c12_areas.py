"""C12 - adapters for the register-backed configuration areas of SPSDK and layout extraction from the device database.

Two independent views are built for every area (kind, family, revision, sub-area):
 * the LAYOUT (what spec/C12/CfgArea.tla reasons about) is read here from the database files themselves (register JSON,
   grouped_registers, computed_fields, seal_start/seal_count, preset file) - never from SPSDK's Register objects;
 * the ADAPTER drives the area's public API (template / schema / load / set / export / parse / config) and projects the real
   object to the raw value of every leaf register of the layout.
"""
import json
import os
import struct

import yaml

import c12_rawdb as R

# ------------------------------------------------------------------ small helpers


def bits_of(v):
    res, i = [], 0
    while v:
        if v & 1:
            res.append(i)
        v >>= 1
        i += 1
    return res


def int_of(bits):
    return sum(1 << b for b in bits)


def to_int(x, default=0):
    """Numbers of the database files: int, '0x..', '0b..', decimal strings, with optional '_' separators."""
    if x is None:
        return default
    if isinstance(x, bool):
        return int(x)
    if isinstance(x, int):
        return x
    s = str(x).strip().replace("_", "")
    if s.lower().startswith("0x"):
        return int(s, 16)
    if s.lower().startswith("0b"):
        return int(s[2:], 2)
    return int(s, 10)


def to_bool(x):
    if isinstance(x, str):
        return x.strip().lower() in ("true", "1", "yes", "t")
    return bool(x)


# documented sizes of the binary forms (NXP reference manuals / boot ROM documentation) - not read from SPSDK classes
DOC_SIZE = {"cmpa": 512, "cfpa": 512, "romcfg": 304, "cmactable": 128, "bca": 64, "fcf": 16, "fcb": 512}
SEAL_WORD = int.from_bytes(b"SEAL", "little")
COMPUTE = {"pfr_reg_inverse_high_half": "inv_hi16", "pfr_reg_inverse_lower_8_bits": "inv_lo8"}


# ------------------------------------------------------------------ layout from database files
def parse_shr(spec):
    """'SHIFT_RIGHT:COUNT=k;DESC=...' -> k ; anything else -> None (unknown processor)."""
    if not spec:
        return 0
    head, _, params = str(spec).partition(":")
    if head.strip().upper() != "SHIFT_RIGHT":
        return None
    for p in params.split(";"):
        k, _, val = p.partition("=")
        if k.strip().upper() == "COUNT":
            return to_int(val)
    return None


def leaf_from_spec(spec):
    """One register of a register JSON file -> leaf entry of the layout (bit-field offsets are cumulative widths)."""
    width = to_int(spec.get("reg_width", 32))
    reg_reset = to_int(spec.get("reset_value_int", 0))
    fields, off = [], 0
    preset = reg_reset
    ambiguous = False
    for b in spec.get("bitfields", []) or []:
        w = to_int(b.get("width", 0))
        hidden_name = f"HIDDEN_BITFIELD_{off:03X}"
        name = b.get("name", hidden_name)
        reset = to_int(b.get("reset_value_int", 0))
        shr = parse_shr(b.get("config_preprocess"))
        mask = ((1 << w) - 1) << off
        if reset:
            if (reg_reset & mask) and (reg_reset & mask) != ((reset << off) & mask):
                ambiguous = True
            preset = (preset & ~mask) | ((reset << off) & mask)
        enums, all_names, name_value = {}, [], {}
        for e in b.get("values", []) or []:
            try:
                enums.setdefault(to_int(e.get("value")), e.get("name"))
                all_names.append(e.get("name"))
                name_value.setdefault(str(e.get("name")), to_int(e.get("value")))
            except ValueError:
                pass
        fields.append({"name": name, "uid": b.get("id", ""), "off": off, "width": w, "reset": bits_of(reset), "shr": shr if shr is not None else 0,
                       "shr_unknown": shr is None, "hidden": name == hidden_name, "enums": enums, "decl_off": b.get("offset"),
                       "enum_names_unique": len(set(all_names)) == len(all_names), "name_value": name_value})
        off += w
    return {"name": spec.get("name", "N/A"), "uid": spec.get("id", ""), "kind": "leaf", "width": width, "reverse": False, "parent": 0, "subs": [], "rso": False,
            "fields": fields, "off": to_int(spec.get("offset_int", 0)), "hidden": to_bool(spec.get("is_reserved", False)),
            "preset": bits_of(preset & ((1 << width) - 1)), "preset_ambiguous": ambiguous or preset >= (1 << width), "fields_width": off,
            "comp": "", "compfield": 0, "cond": {"c": 0, "f": 0, "op": "", "k": 0}, "altw": [], "hexstr": False}


def layout_from_files(spec_file, grouped, computed=None):
    """Register JSON + grouped_registers (+ computed_fields) -> layout {"regs": [...]} in SPSDK's register order.

    A group entry is placed where its first member appears in the file; members follow in FILE order (that is the order in
    which a value is distributed over them)."""
    with open(spec_file, "r", encoding="utf-8") as f:
        spec = json.load(f)
    grouped = grouped or []
    regs, by_uid, notes, unresolved = [], {}, [], []
    group_idx = {}
    seen_off, seen_name = {}, set()
    for g in spec.get("groups", []):
        for rs in g.get("registers", []):
            leaf = leaf_from_spec(rs)
            grp = next((x for x in grouped if leaf["uid"] in x.get("sub_regs", [])), None)
            if grp is not None:
                if grp["uid"] not in group_idx:
                    regs.append({"name": grp["name"], "uid": grp["uid"], "kind": "group", "width": to_int(grp.get("width", 0)), "decl_width": to_int(grp.get("width", 0)),
                                 "reverse": to_bool(grp.get("reversed", False)), "parent": 0, "subs": [], "rso": to_bool(grp.get("reverse_subregs_order", False)),
                                 "fields": [], "off": to_int(grp.get("offset", 0)), "hidden": False, "preset": [], "preset_ambiguous": False, "fields_width": 0,
                                 "comp": "", "compfield": 0, "cond": {"c": 0, "f": 0, "op": "", "k": 0}, "altw": [to_int(a) for a in (grp.get("alternative_widths") or [])],
                                 "hexstr": to_bool(grp.get("config_as_hexstring", False)), "decl_subs": list(grp.get("sub_regs", []))})
                    group_idx[grp["uid"]] = len(regs)
                gi = group_idx[grp["uid"]]
                leaf["parent"] = gi
                regs.append(leaf)
                regs[gi - 1]["subs"].append(len(regs))
                if regs[gi - 1]["off"] == 0 and len(regs[gi - 1]["subs"]) == 1:
                    regs[gi - 1]["off"] = leaf["off"]
                by_uid[leaf["uid"]] = len(regs)
                continue
            if not leaf["hidden"] and leaf["name"] in seen_name:
                notes.append(f"duplicate register name {leaf['name']}")
                continue
            if leaf["off"] != 0 and leaf["off"] in seen_off:
                notes.append(f"alias {leaf['name']} of {regs[seen_off[leaf['off']] - 1]['name']} at offset {leaf['off']:#x}")
                regs[seen_off[leaf["off"]] - 1].setdefault("aliases", []).append(leaf["name"])
                continue
            regs.append(leaf)
            if not leaf["hidden"]:
                seen_name.add(leaf["name"])
            if leaf["off"] != 0:
                seen_off[leaf["off"]] = len(regs)
            by_uid[leaf["uid"]] = len(regs)
    for g in regs:
        if g["kind"] == "group":
            sw = sum(regs[s - 1]["width"] for s in g["subs"])
            g["subs_width"] = sw
            if g["width"] == 0:
                g["width"] = sw
            g["missing_subs"] = [u for u in g.get("decl_subs", []) if u not in by_uid]
    for reg_uid, flds in (computed or {}).items():
        ri = by_uid.get(reg_uid)
        if ri is None:
            notes.append(f"computed register {reg_uid} not in the register file")
            unresolved.append(f"computed register {reg_uid}")
            continue
        for fuid, method in flds.items():
            fi = next((k for k, fl in enumerate(regs[ri - 1]["fields"], 1) if fl["uid"] == fuid), 0)
            regs[ri - 1]["comp"] = COMPUTE.get(method, "unknown:" + str(method))
            regs[ri - 1]["compfield"] = fi
            if fi:
                regs[ri - 1]["fields"][fi - 1]["hidden"] = True
                regs[ri - 1]["fields"][fi - 1]["computed"] = True
            else:
                notes.append(f"computed bit-field {fuid} not in register {reg_uid}")
                unresolved.append(f"computed bit-field {fuid}")
            if method not in COMPUTE:
                unresolved.append(f"compute rule {method}")
    return {"regs": regs, "notes": notes, "by_uid": by_uid, "unresolved": unresolved}


def mark_overlaps(lay):
    """binfree: leaves whose byte range overlaps another top-level entry (data that cannot be asserted per register)."""
    spans = []
    for i, r in enumerate(lay["regs"], 1):
        if r["kind"] == "leaf":
            spans.append((r["off"], r["off"] + r["width"] // 8, i))
    spans.sort()
    free = set()
    for k in range(len(spans)):
        for m in range(k + 1, len(spans)):
            if spans[m][0] >= spans[k][1]:
                break
            free.add(spans[k][2])
            free.add(spans[m][2])
    for i, r in enumerate(lay["regs"], 1):
        r["binfree"] = i in free


def dup_field_names(r):
    names = [f["name"] for f in r["fields"] if not f["hidden"]]
    return len(set(names)) != len(names)


def config_faithful(r):
    """A whole-register value of this register survives its own configuration (which is written bit-field by bit-field)."""
    return (not r["fields"]) or (r.get("fields_width", r["width"]) == r["width"] and not dup_field_names(r)
                                 and all(f.get("enum_names_unique", True) and not f.get("shr_unknown") for f in r["fields"]))


def tla_layout(lay):
    """The part of a layout the TLA+ specification reads."""
    if lay.get("hasbin", True):
        mark_overlaps(lay)
    regs = []
    for r in lay["regs"]:
        regs.append({"kind": r["kind"], "width": r["width"], "reverse": r["reverse"], "parent": r["parent"], "subs": r["subs"], "rso": r["rso"],
                     "fields": [{"off": f["off"], "width": f["width"], "shr": f["shr"], "reset": f["reset"], "hidden": bool(f["hidden"])} for f in r["fields"]],
                     "off": r["off"], "hidden": bool(r["hidden"]), "preset": r["preset"], "comp": r["comp"] if r["comp"] in ("", "inv_hi16", "inv_lo8") else "", "cond": r["cond"],
                     "declw": r.get("decl_width", 0), "subsw": r.get("subs_width", 0), "nmiss": len(r.get("missing_subs", [])), "altw": list(r.get("altw", [])),
                     "presetdc": bool(r.get("preset_ambiguous")) or r["comp"].startswith("unknown"), "binfree": bool(r.get("binfree", False))})
    return {"regs": regs, "size": lay.get("size", 0), "hasbin": bool(lay.get("hasbin", True)), "seal": lay.get("seal", []), "sizefld": lay.get("sizefld", {"r": 0, "f": 0}),
            "kind": lay.get("kind", ""), "leaves": [i for i, r in enumerate(regs, 1) if r["kind"] == "leaf"],
            "computed": [i for i, r in enumerate(regs, 1) if r["kind"] == "leaf" and r["comp"] != ""], "hascond": any(r["cond"]["c"] != 0 for r in regs),
            "free": [i for i, r in enumerate(regs, 1) if r["kind"] == "leaf" and (r["binfree"] or r["presetdc"])],
            "ovl": [i for i, r in enumerate(regs, 1) if r["kind"] == "leaf" and r["binfree"]], "nbad": len(lay.get("unresolved", [])),
            "dupenum": [i for i, r in enumerate(lay["regs"], 1) if any(not f.get("enum_names_unique", True) for f in r["fields"])],
            "dupfield": [i for i, r in enumerate(lay["regs"], 1) if not r["hidden"] and dup_field_names(r)],
            "uncovered": [i for i, r in enumerate(lay["regs"], 1) if not r["hidden"] and r["fields"] and r.get("fields_width", r["width"]) != r["width"]]}


# ------------------------------------------------------------------ adapters
class Refused(Exception):
    """The area refused an operation the property says it must accept."""


def yaml_load(text):
    """Independent YAML reading (PyYAML safe loader - the loader SPSDK's own configuration reader falls back to)."""
    data = yaml.safe_load(text)
    if not isinstance(data, dict):
        raise ValueError("template is not a YAML mapping")
    return data


def revisions(family):
    from spsdk.utils.database import DatabaseManager

    dev = DatabaseManager().db.devices.get(family)
    return [r.name for r in dev.revisions], dev.latest_rev


class Area:
    """Base adapter. `sub` is the sub-area (memory type, peripheral ...), "" when there is none."""

    kind = ""
    feature = ""
    settings_key = "settings"
    has_binary = True
    incremental = True     # SetValues works on the current object (else: a new object from template + all writes so far)

    def __init__(self, family, rev, sub=""):
        self.family, self.rev, self.sub = family, rev, sub

    # -- identification
    @property
    def ident(self):
        return {"kind": self.kind, "family": self.family, "rev": self.rev, "sub": self.sub}

    def key(self):
        return f"{self.kind}/{self.family}/{self.rev}/{self.sub or '-'}"

    # -- database side
    def db(self):
        from spsdk.utils.database import get_db

        return get_db(self.family, self.rev)

    def base_key(self):
        return []

    def layout(self):
        db = self.db()
        bk = self.base_key()
        spec_file = db.get_file_path(self.feature, bk + ["reg_spec"])
        grouped = db.get_list(self.feature, bk + ["grouped_registers"], [])
        lay = layout_from_files(spec_file, grouped, self.computed())
        lay["files"] = [spec_file]
        lay["kind"] = self.kind
        lay["hasbin"] = self.has_binary
        lay["size"] = DOC_SIZE.get(self.kind, 0)
        extent = max([r["off"] + r["width"] // 8 for r in lay["regs"] if r["parent"] == 0] or [0])
        lay["extent"] = extent
        if self.kind == "fcb" and extent != lay["size"]:
            # XSPI flash configuration blocks of the RT7xx are longer than the 512-byte FlexSPI block; no document available here
            lay["size"] = extent
            lay["notes"].append(f"size {extent} taken from the register file (no documented size)")
        self.finish_layout(lay)
        return lay

    def computed(self):
        return {}

    def finish_layout(self, lay):
        pass

    # -- the register map: what the RAW database files say (c12_rawdb - no SPSDK database code) / what the real object exposes
    def raw_parts(self):
        """[(part name, name of the register file as the merged raw features give it, grouped_registers)]."""
        bk = self.base_key()
        return [("", str(R.value(self.family, self.rev, self.feature, bk + ["reg_spec"])), R.value(self.family, self.rev, self.feature, bk + ["grouped_registers"], []))]

    def file_map(self, path, grouped):
        """Names, offsets (+ OTP indexes of fuse maps), widths of every register and group of one register file, in canonical order."""
        lay = layout_from_files(path, grouped)
        otp = R.otp_indexes(path) if self.kind == "fuses" else {}
        res = []
        for r in lay["regs"]:
            leaf = r["kind"] == "leaf"
            res.append(R.entry(r["name"], r["off"] if (leaf or self.has_binary) else -1, r["width"], otp.get(r["uid"], -1) if leaf else -1))
        return R.canon(res)

    def map_registers(self, obj):
        """[register file object of the real area] - one per part."""
        return [self.registers(obj)]

    def observed_maps(self, obj):
        out = []
        for regs in self.map_registers(obj):
            res = []
            for x in regs:
                subs = list(getattr(x, "sub_regs", None) or [])
                otp = getattr(x, "otp_index", None)
                res.append(R.entry(x.name, x.offset if (not subs or self.has_binary) else -1, x.width, -1 if (otp is None or subs) else otp))
                for y in subs:
                    otp = getattr(y, "otp_index", None)
                    res.append(R.entry(y.name, y.offset, y.width, -1 if otp is None else otp))
            out.append(R.canon(res))
        return out

    def map_facts(self, obj):
        """The `parts` of the Layout event: per part the alias chain as the raw database.yaml files name it (device folder first), which folders hold
        a file of the name the feature gives (f: index into the table of distinct files, 0 = none), the register map of every such file, and the map
        the real object exposes.  WHICH file is prescribed and whether the object agrees with it is decided by TLC (clause RegisterMap)."""
        parts, notes = [], []
        try:
            raw = self.raw_parts()
        except R.RawError as e:
            raw, notes = [], [f"raw walk: {e}"]
        try:
            obs = self.observed_maps(obj) if obj is not None else None
        except Exception as e:  # noqa: BLE001 - an object that cannot show its registers has no map (the spec decides)
            obs, notes = None, notes + [f"observed map: {type(e).__name__}: {e}"[:200]]
        for k, (pname, fname, grouped) in enumerate(raw):
            chain, files, idx = [], [], {}
            try:
                for dev, path in R.chain_files(self.family, fname):
                    if path is not None and path not in idx:
                        files.append(self.file_map(path, grouped))
                        idx[path] = len(files)
                    chain.append({"d": dev, "f": idx.get(path, 0)})
            except R.RawError as e:
                chain, files, notes = [], [], notes + [f"raw walk: {e}"]
            parts.append({"name": pname, "file": fname, "chain": chain, "files": files, "obs": (obs[k] if obs is not None and k < len(obs) else [])})
        if not parts:
            parts.append({"name": "", "file": "", "chain": [], "files": [], "obs": (obs[0] if obs else [])})
        return parts, notes

    # -- real side (overridden)
    def new(self):
        raise NotImplementedError

    def template(self):
        raise NotImplementedError

    def check(self, cfg):
        """Validate a configuration with the area's own schema (raises on refusal)."""
        from spsdk.utils.schema_validator import check_config

        check_config(cfg, self.schemas())

    def schemas(self):
        raise NotImplementedError

    def load(self, cfg):
        raise NotImplementedError

    def set_values(self, obj, settings):
        raise NotImplementedError

    def export(self, obj, **kw):
        return obj.export()

    def parse(self, data):
        raise NotImplementedError

    def verify(self, obj):
        return True

    def config_text(self, obj):
        """The configuration of the object as the YAML text the tool would write."""
        raise NotImplementedError

    def wrap(self, settings):
        """Full configuration dictionary around register settings."""
        raise NotImplementedError

    def registers(self, obj):
        return obj.registers

    def raw_values(self, obj, lay):
        """uid-indexed raw value of every leaf of the layout (None: the real object has no such register)."""
        regs = self.registers(obj)
        res = []
        for r in lay["regs"]:
            if r["kind"] != "leaf":
                res.append(None)
                continue
            try:
                res.append(regs.get_reg(r["uid"]).get_value(raw=True))
            except Exception:  # noqa: BLE001 - a missing register is an observation (decided by the spec)
                res.append(None)
        return res


def commented(title, schemas, cfg=None):
    from spsdk.utils.schema_validator import CommentedConfig

    cc = CommentedConfig(title, schemas)
    return cc.get_template() if cfg is None else cc.get_config(cfg)


class PfrArea(Area):
    feature = "pfr"
    cls_name = ""

    @property
    def cls(self):
        from spsdk.pfr import pfr

        return getattr(pfr, self.cls_name)

    @classmethod
    def list_areas(cls):
        from spsdk.pfr import pfr

        return [(f, "") for f in getattr(pfr, cls.cls_name).get_supported_families()]

    def base_key(self):
        return [self.kind]

    def computed(self):
        return self.db().get_dict(self.feature, [self.kind, "computed_fields"], {})

    def finish_layout(self, lay):
        db = self.db()
        try:
            dsize = db.get_int(self.feature, [self.kind, "size"])
        except Exception:  # noqa: BLE001
            dsize = None
        lay["db_size"] = dsize
        lay["seal"] = []
        try:
            start = db.get_str(self.feature, [self.kind, "seal_start"])
            count = db.get_int(self.feature, [self.kind, "seal_count"])
        except Exception:  # noqa: BLE001
            start, count = None, 0
        if start and count:
            si = lay["by_uid"].get(start)
            if si:
                s_off = lay["regs"][si - 1]["off"]
                sealed = [i for i, r in enumerate(lay["regs"], 1) if r["kind"] == "leaf" and s_off <= r["off"] < s_off + 4 * count]
                if all(lay["regs"][i - 1]["width"] == 32 and (lay["regs"][i - 1]["off"] - s_off) % 4 == 0 for i in sealed) and len(sealed) == count:
                    lay["seal"] = sealed
                else:
                    lay["notes"].append("seal range does not consist of seal_count aligned 32-bit registers")
                    lay["unresolved"].append("seal range")
            else:
                lay["unresolved"].append(f"seal_start {start}")
        rot = next((i for i, r in enumerate(lay["regs"], 1) if r["name"] == "ROTKH" and r["parent"] == 0), 0)
        lay["rotkh"] = rot
        try:
            lay["rot_type"] = db.get_str("cert_block", "rot_type")
        except Exception:  # noqa: BLE001
            lay["rot_type"] = None

    def new(self):
        return self.cls(family=self.family, revision=self.rev)

    def schemas(self):
        return self.cls.get_validation_schemas(family=self.family, revision=self.rev)

    def template(self):
        return commented(f"{self.feature.upper()} {self.kind.upper()} configuration template", self.schemas())

    def check(self, cfg):
        self.cls.validate_config(cfg)

    def load(self, cfg):
        from spsdk.pfr.pfr import BaseConfigArea

        obj = BaseConfigArea.load_from_config(cfg)
        if type(obj) is not self.cls:  # noqa: E721
            raise Refused(f"load_from_config returned {type(obj).__name__}")
        return obj

    def set_values(self, obj, settings):
        obj.set_config(settings)
        return obj

    def export(self, obj, **kw):
        return obj.export(draw=False, **kw)

    def parse(self, data):
        obj = self.new()
        obj.parse(data)
        return obj

    def wrap(self, settings):
        return {"family": self.family, "revision": self.rev, "type": self.kind.upper(), "settings": settings}

    def config_text(self, obj):
        return commented(f"{self.kind.upper()} configuration", self.schemas(), obj.get_config())


class Cmpa(PfrArea):
    kind, cls_name = "cmpa", "CMPA"


class Cfpa(PfrArea):
    kind, cls_name = "cfpa", "CFPA"


class Romcfg(PfrArea):
    kind, cls_name, feature = "romcfg", "ROMCFG", "ifr"


class Cmactable(PfrArea):
    kind, cls_name, feature = "cmactable", "CMACTABLE", "ifr"


class SegArea(Area):
    """BCA / FCF: plain register segments."""

    cls_path = ("", "")

    @property
    def cls(self):
        import importlib

        return getattr(importlib.import_module(self.cls_path[0]), self.cls_path[1])

    @classmethod
    def list_areas(cls):
        import importlib

        c = getattr(importlib.import_module(cls.cls_path[0]), cls.cls_path[1])
        return [(f, "") for f in c.get_supported_families()]

    def new(self):
        return self.cls(family=self.family, revision=self.rev)

    def schemas(self):
        return self.cls.get_validation_schemas(self.family, self.rev)

    def template(self):
        return self.cls.generate_config_template(self.family, self.rev)

    def load(self, cfg):
        return self.cls.load_from_config(cfg)

    def set_values(self, obj, settings):
        obj.registers.load_yml_config(settings)
        return obj

    def parse(self, data):
        return self.cls.parse(data, family=self.family, revision=self.rev)

    def wrap(self, settings):
        return {"family": self.family, "revision": self.rev, self.settings_key: settings}

    def config_text(self, obj):
        return obj.create_config()


class Bca(SegArea):
    kind, feature, settings_key, cls_path = "bca", "bca", "bca", ("spsdk.image.bca.bca", "BCA")


class Fcf(SegArea):
    kind, feature, settings_key, cls_path = "fcf", "fcf", "fcf", ("spsdk.image.fcf.fcf", "FCF")


class Fcb(SegArea):
    kind, feature, settings_key, cls_path = "fcb", "fcb", "fcb_settings", ("spsdk.image.fcb.fcb", "FCB")

    @classmethod
    def list_areas(cls):
        from spsdk.image.fcb.fcb import FCB

        return [(f, mt.label) for f in FCB.get_supported_families() for mt in FCB.get_supported_memory_types(f)]

    def mt(self):
        from spsdk.image.mem_type import MemoryType

        return MemoryType.from_label(self.sub)

    def base_key(self):
        return ["mem_types", self.sub]

    def new(self):
        return self.cls(family=self.family, mem_type=self.mt(), revision=self.rev)

    def schemas(self):
        return self.cls.get_validation_schemas(self.family, self.mt(), self.rev)

    def template(self):
        return self.cls.generate_config_template(self.family, self.mt(), self.rev)

    def parse(self, data):
        return self.cls.parse(data, family=self.family, mem_type=self.mt(), revision=self.rev)

    def wrap(self, settings):
        return {"family": self.family, "revision": self.rev, "type": self.sub, self.settings_key: settings}


class Xmcd(Area):
    kind, feature, settings_key = "xmcd", "xmcd", "xmcd_settings"
    incremental = False

    @classmethod
    def list_areas(cls):
        from spsdk.image.xmcd.xmcd import XMCD

        res = []
        for f in XMCD.get_supported_families():
            for mt in XMCD.get_supported_memory_types(f):
                for ct in XMCD.get_supported_configuration_types(f, mt):
                    res.append((f, f"{mt.label}/{ct.label}"))
        return res

    def types(self):
        from spsdk.image.mem_type import MemoryType
        from spsdk.image.xmcd.xmcd import ConfigurationBlockType

        mt, ct = self.sub.split("/")
        return MemoryType.from_label(mt), ConfigurationBlockType.from_label(ct)

    def layout(self):
        db = self.db()
        mt, ct = self.sub.split("/")
        hfile = db.get_file_path(self.feature, ["header", "reg_spec"])
        bfile = db.get_file_path(self.feature, ["mem_types", mt, ct, "reg_spec"])
        hl = layout_from_files(hfile, db.get_list(self.feature, ["header", "grouped_registers"], []))
        bl = layout_from_files(bfile, db.get_list(self.feature, ["mem_types", mt, ct, "grouped_registers"], []))
        hsize = sum(r["width"] // 8 for r in hl["regs"] if r["parent"] == 0)
        n = len(hl["regs"])
        for r in hl["regs"]:
            r["part"] = "header"
        for r in bl["regs"]:
            r["part"] = "block"
            r["off"] += hsize
            if r["parent"]:
                r["parent"] += n
            r["subs"] = [s + n for s in r["subs"]]
        lay = {"regs": hl["regs"] + bl["regs"], "notes": hl["notes"] + bl["notes"], "by_uid": {}, "files": [hfile, bfile], "kind": self.kind, "hasbin": True, "size": 0,
               "seal": [], "hsize": hsize}
        # header: the block size bit-field must hold the total size; interface / block type are set by the constructor
        hdr = next((i for i, r in enumerate(lay["regs"], 1) if r["part"] == "header" and r["name"] == "header"), 0)
        lay["sizefld"] = {"r": 0, "f": 0}
        lay["hdr"] = hdr
        if hdr:
            names = [f["name"] for f in lay["regs"][hdr - 1]["fields"]]
            if "configurationBlockSize" in names:
                lay["sizefld"] = {"r": hdr, "f": names.index("configurationBlockSize") + 1}
            # the constructor writes the identity of the area into the header (XMCD header definition of the reference manual:
            # memoryInterface 0 = FlexSPI/XSPI RAM, 1 = SEMC SDRAM; configurationBlockType 0 = simplified, 1 = full)
            h = lay["regs"][hdr - 1]
            val = int_of(h["preset"])
            for fname, fval in (("memoryInterface", 1 if mt == "semc_sdram" else 0), ("configurationBlockType", 1 if ct == "full" else 0)):
                if fname in names:
                    fl = h["fields"][names.index(fname)]
                    mask = ((1 << fl["width"]) - 1) << fl["off"]
                    val = (val & ~mask) | ((fval << fl["off"]) & mask)
            h["preset"] = bits_of(val)
        # configOption1 exists only when configOption0.optionSize != 0
        c0 = next((i for i, r in enumerate(lay["regs"], 1) if r["part"] == "block" and r["name"] == "configOption0"), 0)
        c1 = next((i for i, r in enumerate(lay["regs"], 1) if r["part"] == "block" and r["name"] == "configOption1"), 0)
        if c0 and c1:
            names = [f["name"] for f in lay["regs"][c0 - 1]["fields"]]
            if "optionSize" in names:
                lay["regs"][c1 - 1]["cond"] = {"c": c0, "f": names.index("optionSize") + 1, "op": "ne", "k": 0}
        return lay

    def raw_parts(self):
        mt, ct = self.sub.split("/")
        return [("header", str(R.value(self.family, self.rev, self.feature, ["header", "reg_spec"])), R.value(self.family, self.rev, self.feature, ["header", "grouped_registers"], [])),
                ("block", str(R.value(self.family, self.rev, self.feature, ["mem_types", mt, ct, "reg_spec"])),
                 R.value(self.family, self.rev, self.feature, ["mem_types", mt, ct, "grouped_registers"], []))]

    def map_registers(self, obj):
        return [obj.header.registers, obj.config_block.registers]

    def new(self):
        from spsdk.image.xmcd.xmcd import XMCD

        mt, ct = self.types()
        return XMCD(self.family, mt, ct, self.rev)

    def schemas(self):
        from spsdk.image.xmcd.xmcd import XMCD

        mt, ct = self.types()
        return XMCD.get_validation_schemas(self.family, mt, ct, self.rev)

    def template(self):
        from spsdk.image.xmcd.xmcd import XMCD

        mt, ct = self.types()
        return XMCD.generate_config_template(self.family, mt, ct, self.rev)

    def load(self, cfg):
        from spsdk.image.xmcd.xmcd import XMCD

        return XMCD.load_from_config(json.loads(json.dumps(cfg)))   # load_from_config pops keys of its argument

    def parse(self, data):
        from spsdk.image.xmcd.xmcd import XMCD

        return XMCD.parse(data, family=self.family, revision=self.rev)

    def verify(self, obj):
        return not obj.verify().has_errors

    def wrap(self, settings):
        mt, ct = self.sub.split("/")
        return {"family": self.family, "revision": self.rev, "mem_type": mt, "config_type": ct, self.settings_key: settings}

    def config_text(self, obj):
        return obj.create_config()

    def raw_values(self, obj, lay, with_names=False):
        hregs, bregs = obj.header.registers, obj.config_block.registers      # the second one is a deep copy: read it once
        res = []
        for r in lay["regs"]:
            if r["kind"] != "leaf":
                res.append(None)
                continue
            try:
                res.append((hregs if r["part"] == "header" else bregs).get_reg(r["uid"]).get_value(raw=True))
            except Exception:  # noqa: BLE001
                res.append(None)
        if with_names:
            return res, [x.name for x in hregs] + [x.name for x in bregs]
        return res


class Tz(Area):
    kind, feature, settings_key = "tz", "tz", "trustZonePreset"
    incremental = False

    @classmethod
    def list_areas(cls):
        from spsdk.image.trustzone import TrustZone

        return [(f, "") for f in TrustZone.get_supported_families()]

    def layout(self):
        path = self.db().get_file_path(self.feature, "reg_spec")
        with open(path, "r", encoding="utf-8") as f:
            text = f.read()
        try:
            presets = json.loads(text)
        except json.JSONDecodeError:
            presets = yaml.safe_load(text)
        regs = []
        for i, (name, val) in enumerate(presets.items()):
            regs.append({"name": name, "uid": name, "kind": "leaf", "width": 32, "reverse": False, "parent": 0, "subs": [], "rso": False, "fields": [], "off": 4 * i,
                         "hidden": False, "preset": bits_of(to_int(val) & 0xFFFFFFFF), "preset_ambiguous": False, "fields_width": 0, "comp": "", "compfield": 0,
                         "cond": {"c": 0, "f": 0, "op": "", "k": 0}, "altw": [], "hexstr": False})
        return {"regs": regs, "notes": [], "by_uid": {r["uid"]: i for i, r in enumerate(regs, 1)}, "files": [path], "kind": self.kind, "hasbin": True,
                "size": 4 * len(regs), "seal": []}

    def raw_parts(self):
        return [("", str(R.value(self.family, self.rev, self.feature, ["reg_spec"])), [])]

    def file_map(self, path, grouped):
        with open(path, "r", encoding="utf-8") as f:
            text = f.read()
        try:
            presets = json.loads(text)
        except json.JSONDecodeError:
            presets = yaml.safe_load(text)
        return R.canon([R.entry(name, 4 * i, 32) for i, name in enumerate(presets)])

    def observed_maps(self, obj):
        return [R.canon([R.entry(name, 4 * i, 32) for i, name in enumerate(obj.presets)])]

    def new(self):
        from spsdk.image.trustzone import TrustZone

        return TrustZone.custom(self.family, {}, self.rev)

    def schemas(self):
        from spsdk.image.trustzone import TrustZone

        return TrustZone.get_validation_schemas(self.family, self.rev)

    def template(self):
        from spsdk.image.trustzone import TrustZone

        t = TrustZone.generate_config_template(self.family, self.rev)
        if len(t) != 1:
            raise Refused(f"{len(t)} templates")
        return next(iter(t.values()))

    def load(self, cfg):
        from spsdk.image.trustzone import TrustZone

        return TrustZone.from_config(cfg)

    def parse(self, data):
        from spsdk.image.trustzone import TrustZone

        return TrustZone.from_binary(self.family, data, self.rev)

    def wrap(self, settings):
        return {"family": self.family, "revision": self.rev, "tzpOutputFile": "tz.bin", self.settings_key: settings}

    def config_text(self, obj):
        # the class offers no configuration writer; the parsed customisations are the configuration
        return yaml.safe_dump(self.wrap(dict(obj.customs)))

    def raw_values(self, obj, lay):
        from spsdk.utils.misc import value_to_int

        merged = dict(obj.presets)
        merged.update(obj.customs or {})
        return [value_to_int(merged[r["name"]]) if r["name"] in merged else None for r in lay["regs"]]


class FusesArea(Area):
    kind, feature, settings_key = "fuses", "fuses", "registers"
    has_binary = False

    @classmethod
    def list_areas(cls):
        from spsdk.fuses.fuses import Fuses

        return [(f, "") for f in Fuses.get_supported_families()]

    def new(self):
        from spsdk.fuses.fuses import Fuses

        return Fuses(self.family, self.rev)

    def schemas(self):
        from spsdk.fuses.fuses import Fuses

        return Fuses.get_validation_schemas(self.family, self.rev)

    def template(self):
        from spsdk.fuses.fuses import Fuses

        return Fuses.generate_config_template(self.family, self.rev)

    def load(self, cfg):
        from spsdk.fuses.fuses import Fuses

        return Fuses.load_from_config(cfg)

    def set_values(self, obj, settings):
        obj.load_config(self.wrap(settings))
        return obj

    def export(self, obj, **kw):
        return None

    def wrap(self, settings):
        return {"family": self.family, "revision": self.rev, self.settings_key: settings}

    def config_text(self, obj):
        return commented("Fuses configuration", self.schemas(), obj.get_config())

    def registers(self, obj):
        return obj.fuse_regs


class Memcfg(Area):
    kind, feature, settings_key = "memcfg", "memcfg", "settings"

    @classmethod
    def list_areas(cls):
        from spsdk.memcfg.memcfg import MemoryConfig

        return [(f, p) for f in MemoryConfig.get_supported_families() for p in MemoryConfig.get_supported_peripherals(f)]

    def base_key(self):
        return ["peripherals", self.sub]

    def finish_layout(self, lay):
        rule = self.db().get_str(self.feature, ["peripherals", self.sub, "ow_counts_rule"])
        lay["ow_rule"] = rule
        vis = [i for i, r in enumerate(lay["regs"], 1) if r["parent"] == 0 and not r["hidden"]]
        lay["size"] = 0
        if not vis:
            return
        first = lay["regs"][vis[0] - 1]
        names = [f["name"] for f in first["fields"]]
        if rule == "OptionSize" and "OptionSize" in names:
            for n, i in enumerate(vis):
                if n >= 1:
                    lay["regs"][i - 1]["cond"] = {"c": vis[0], "f": names.index("OptionSize") + 1, "op": "ge", "k": n}
        elif rule == "AcTimingMode" and "AcTimingMode" in names:
            fl = first["fields"][names.index("AcTimingMode")]
            ud = [v for v, nm in fl["enums"].items() if nm == "UserDefined"]
            for n, i in enumerate(vis):
                if n >= 1:
                    lay["regs"][i - 1]["cond"] = {"c": vis[0], "f": names.index("AcTimingMode") + 1, "op": "eq", "k": ud[0] if ud else -1}
        elif rule != "All":
            lay["notes"].append(f"unknown option word count rule {rule}")

    def new(self):
        from spsdk.memcfg.memcfg import MemoryConfig

        return MemoryConfig(self.family, self.sub, self.rev)

    def schemas(self):
        return self.new().get_validation_schemas()

    def template(self):
        from spsdk.utils.registers import Registers

        from spsdk.utils.schema_validator import CommentedConfig

        return CommentedConfig(main_title=f"Option Words Configuration template for {self.family}, {self.sub}.", schemas=self.schemas(),
                               note="Note for settings:\n" + Registers.TEMPLATE_NOTE).get_template()

    def load(self, cfg):
        from spsdk.memcfg.memcfg import MemoryConfig

        return MemoryConfig.load_config(cfg)

    def set_values(self, obj, settings):
        obj.regs.load_yml_config(settings)
        return obj

    def export(self, obj, **kw):
        return obj.option_words_to_bytes(obj.option_words)

    def parse(self, data):
        from spsdk.memcfg.memcfg import MemoryConfig

        return MemoryConfig.parse(data, self.family, self.sub, self.rev)

    def wrap(self, settings):
        obj = self.new()
        return {"family": self.family, "revision": self.rev, "peripheral": self.sub, "interface": obj.interface, self.settings_key: settings}

    def config_text(self, obj):
        return obj.get_yaml()

    def registers(self, obj):
        return obj.regs


KINDS = {c.kind: c for c in (Cmpa, Cfpa, Romcfg, Cmactable, Bca, Fcf, Fcb, Xmcd, Tz, FusesArea, Memcfg)}


def make(ident):
    return KINDS[ident["kind"]](ident["family"], ident["rev"], ident["sub"])


def enumerate_areas():
    """Every (kind, family, revision, sub-area) SPSDK offers - through each class's own queries."""
    res = []
    for kind, cls in KINDS.items():
        for family, sub in cls.list_areas():
            revs, latest = revisions(family)
            for rev in revs:
                res.append({"kind": kind, "family": family, "rev": rev, "sub": sub, "latest": rev == latest})
    return res


def decode_binary(lay, data, leaves):
    """Executor for exported bytes: the little-endian value at the offset of every leaf that lies inside the binary (None for
    the others - the spec decides whether they had to be there), and whether every byte outside those registers holds one
    constant fill value."""
    vals = [None] * len(lay["regs"])
    covered = bytearray(len(data))
    for i in leaves:
        r = lay["regs"][i - 1]
        n = r["width"] // 8
        if r["off"] + n > len(data):
            continue
        vals[i - 1] = int.from_bytes(data[r["off"]:r["off"] + n], "little")
        for k in range(r["off"], r["off"] + n):
            covered[k] = 1
    gaps = {data[k] for k in range(len(data)) if not covered[k]}
    return vals, len(gaps) <= 1


def pack_words(words):
    return struct.pack(f"<{len(words)}I", *words)
