"""Independent executor for Secure Binary 2.0 / 2.1 (property C04).

Walks the bytes of a file along the boot-ROM acceptance automaton of spec/C04/Sb2Rom.tla and logs ONE event per automaton
step together with every number it used.  The executor decides nothing: TLC re-computes every range from the header
fields logged earlier (trace validation) and demands ok = TRUE for the crypto facts.

Written from the file format (elftosb / MCU-bootloader documentation, anchored on the elftosb goldens in anchors/C04), not
from spsdk/sbfile/sb2/*.  Trusted base: struct, hashlib, hmac, `cryptography` primitives called directly (AES-ECB block
function, RFC 3394 unwrap, X.509 DER parsing, RSA PKCS#1 v1.5 verification), bit-serial CRC-32/MPEG-2.  AES-CTR is built
here from the block function: counter block = nonce[0:12] || LE32(nonce[12:16] + index of the 16-byte block in the file).

The executor is TOTAL: it stops at the first event that carries a false fact, every loop is bounded by the file length.
"""
import hashlib
import hmac as _hmac
import struct
import warnings

from cryptography import x509
from cryptography.hazmat.primitives import hashes, keywrap
from cryptography.hazmat.primitives.asymmetric import padding as _apad
from cryptography.hazmat.primitives.asymmetric import rsa as _rsa
from cryptography.hazmat.primitives.ciphers import Cipher, algorithms, modes

warnings.filterwarnings("ignore", message=".*serial number.*")      # tampered certificates
HDR_FMT = "<16s4s4s2BH4I4H4sQ12HI4s"
HDR_SIZE = struct.calcsize(HDR_FMT)  # 96
assert HDR_SIZE == 96


# facts: the walk ends at the first event that carries a false one
FACTS = ("ok", "chkOk", "tagIsTag", "tagHmacOk", "sane", "markOk", "crcOk", "hdrOk", "chainOk", "rootInTable", "sig1ok", "sig2ok", "longEnough")


class _Stop(Exception):
    pass


def limbs(v):
    """32-bit word -> [hi16, lo16] (TLC integers are 32-bit signed)."""
    v &= 0xFFFFFFFF
    return [v >> 16, v & 0xFFFF]


def crc32_mpeg2(data):
    c = 0xFFFFFFFF
    for b in data:
        c ^= b << 24
        for _ in range(8):
            c = ((c << 1) ^ 0x04C11DB7) & 0xFFFFFFFF if c & 0x80000000 else (c << 1) & 0xFFFFFFFF
    return c


_CRC_TABLE = []
for _i in range(256):
    _c = _i << 24
    for _ in range(8):
        _c = ((_c << 1) ^ 0x04C11DB7) & 0xFFFFFFFF if _c & 0x80000000 else (_c << 1) & 0xFFFFFFFF
    _CRC_TABLE.append(_c)


def crc32_mpeg2_fast(data):
    """Table form of the same polynomial division (self-tested against the bit-serial form)."""
    c = 0xFFFFFFFF
    for b in data:
        c = ((c << 8) & 0xFFFFFFFF) ^ _CRC_TABLE[(c >> 24) ^ b]
    return c


def _ecb(key, blk):
    e = Cipher(algorithms.AES(key), modes.ECB()).encryptor()
    return e.update(blk) + e.finalize()


def _xor(a, b):
    return bytes(x ^ y for x, y in zip(a, b))


def _mac(key, data):
    return _hmac.new(key, data, hashlib.sha256).digest()


def _bcd(word_be):
    """16-bit BCD word -> decimal number, -1 if a nibble is not a decimal digit."""
    v = 0
    for sh in (12, 8, 4, 0):
        d = (word_be >> sh) & 0xF
        if d > 9:
            return -1
        v = v * 10 + d
    return v


def _chk(hdr16):
    c = 0x5A
    for b in hdr16[1:16]:
        c = (c + b) & 0xFF
    return c


def selftest():
    assert crc32_mpeg2(b"\xff\xff\xff") == 0xFF000000  # published check value used in DESIGN.md 3.4
    assert crc32_mpeg2(b"123456789") == 0x0376E6E7
    assert crc32_mpeg2_fast(b"123456789") == 0x0376E6E7
    # FIPS-197 C.3
    assert _ecb(bytes(range(32)), bytes.fromhex("00112233445566778899aabbccddeeff")).hex() == "8ea2b7ca516745bfeafc49904b496089"
    # RFC 4231 test case 2
    assert _mac(b"Jefe", b"what do ya want for nothing?").hex().startswith("5bdcc146bf60754e")


def run(data, kek, max_payload_log=4096):
    """-> list of events. The last event is Accept iff the executor walked the whole file."""
    ev = []
    limit = 4 * (len(data) // 16) + 64

    def log(**k):
        ev.append(k)
        if any(k.get(f) is False for f in FACTS) or len(ev) > limit:
            raise _Stop()

    try:
        _run(bytes(data), bytes(kek), log, max_payload_log)
    except _Stop:
        pass
    except Exception as x:  # noqa: BLE001  - malformed input the automaton has no step for: the walk ends here
        ev.append({"ev": "Stuck", "why": f"{type(x).__name__}: {x}"[:120]})
    return ev


def _parse_cert_block(data, at, log, extra):
    """Certificate block v1 at byte offset `at`. Returns (end offset aligned to 16, list of certificates)."""
    (csig, _cmaj, _cmin, clen, _cflags, cbuild, cimglen, ccount, ctablen) = struct.unpack_from("<4s2H6I", data, at)
    hdr_ok = csig == b"cert" and clen == 32 and 1 <= ccount <= 4 and ctablen < len(data)
    if not hdr_ok:
        log(ev="ParseCertBlock", at=at, hdrOk=False)
    off = at + 32
    certs, walked = [], 0
    for _ in range(ccount):
        (ln,) = struct.unpack_from("<I", data, off)
        off += 4
        if ln > len(data) - off:
            log(ev="ParseCertBlock", at=at, hdrOk=False)
        der = data[off:off + ln]
        if len(der) >= 4 and der[0] == 0x30 and der[1] == 0x82:  # an entry may be padded: the certificate ends where its DER says
            der = der[:4 + int.from_bytes(der[2:4], "big")]
        certs.append(x509.load_der_x509_certificate(der))
        off += ln
        walked += 4 + ln
    rkht = data[off:off + 128]
    off += 128
    end = (off + 15) // 16 * 16
    chain_ok = True
    for c in certs:
        if not isinstance(c.public_key(), _rsa.RSAPublicKey):
            chain_ok = False
    if chain_ok:
        # the root is self-signed, every further certificate is signed by its predecessor
        for i, c in enumerate(certs):
            parent = certs[i - 1] if i else c
            try:
                parent.public_key().verify(c.signature, c.tbs_certificate_bytes, _apad.PKCS1v15(), c.signature_hash_algorithm)
            except Exception:  # noqa: BLE001
                chain_ok = False
    root_in = False
    root_idx = -1
    if chain_ok:
        pn = certs[0].public_key().public_numbers()
        nb = pn.n.to_bytes((pn.n.bit_length() + 7) // 8, "big")
        eb = pn.e.to_bytes((pn.e.bit_length() + 7) // 8, "big")
        rkh = hashlib.sha256(nb + eb).digest()
        for i in range(4):
            if rkht[i * 32:i * 32 + 32] == rkh:
                root_in, root_idx = True, i
                break
    log(ev="ParseCertBlock", at=at, hdrOk=True, count=ccount, tableLen=ctablen, walkedLen=walked, endOff=end, imgLen=cimglen,
        build=limbs(cbuild), chainOk=chain_ok, rootInTable=root_in, rootIdx=root_idx,
        rkth=hashlib.sha256(rkht).hexdigest(), **extra)
    return end, certs


def _verify_sig(data, certs, frm, to, sig_at, log):
    key = certs[-1].public_key()
    siglen = key.key_size // 8
    sig = data[sig_at:sig_at + siglen]
    ok = len(sig) == siglen
    if ok:
        try:
            key.verify(sig, data[frm:to], _apad.PKCS1v15(), hashes.SHA256())
        except Exception:  # noqa: BLE001
            ok = False
    log(ev="VerifySignature", frm=frm, to=to, sigAt=sig_at, sigLen=siglen, ok=ok)
    return siglen


def _run(data, kek, log, max_payload_log):
    nblk = len(data) // 16
    if len(data) < 208:
        log(ev="ParseHeader", fileBlocks=nblk, fileRem=len(data) % 16, longEnough=False)
    (nonce, _p, sig1, maj, mnr, flags, image_blocks, first_tag, first_id, cert_off, hdr_blocks, kb_block, kb_cnt, max_mac, sig2,
     ts, pv0, _, pv1, _, pv2, _, cv0, _, cv1, _, cv2, _, build, _p2) = struct.unpack_from(HDR_FMT, data)
    sw = lambda w: ((w & 0xFF) << 8) | (w >> 8)  # noqa: E731  version words are big-endian BCD
    ctr0 = int.from_bytes(nonce[12:], "little")
    tsec, tus = divmod(ts, 1000000)
    log(ev="ParseHeader", fileBlocks=nblk, fileRem=len(data) % 16, longEnough=True, sig1ok=sig1 == b"STMP", sig2ok=sig2 == b"sgtl",
        major=maj, minor=mnr, flags=flags, imageBlocks=min(image_blocks, 2**31 - 1), firstTag=min(first_tag, 2**31 - 1),
        firstId=limbs(first_id), certOff=min(cert_off, 2**31 - 1), hdrBlocks=hdr_blocks, kbBlock=kb_block, kbCount=kb_cnt, maxMac=max_mac,
        pv=[_bcd(sw(pv0)), _bcd(sw(pv1)), _bcd(sw(pv2))], cv=[_bcd(sw(cv0)), _bcd(sw(cv1)), _bcd(sw(cv2))], build=limbs(build),
        ts=[min(tsec >> 16, 2**31 - 1), tsec & 0xFFFF, tus], nonceCtr=limbs(ctr0), nonce=nonce.hex(), ctrNoWrap=ctr0 + nblk < 2**32)
    v21 = (maj, mnr) == (2, 1)
    signed = bool(flags & 0x8)
    sha = v21 and bool(flags & 0x8000)

    # ---- key blob: RFC 3394 unwrap of 72 bytes -> DEK || MAC
    kb = data[kb_block * 16:(kb_block + kb_cnt) * 16]
    try:
        keys = keywrap.aes_key_unwrap(kek, kb[:72])
        ok = len(keys) == 64
    except Exception:  # noqa: BLE001
        keys, ok = bytes(64), False
    log(ev="UnwrapKeyBlob", at=kb_block, n=kb_cnt, ok=ok, keys=hashlib.sha256(keys).hexdigest()[:32])
    dek, mac = keys[:32], keys[32:]

    def dec(blk_index, blk):
        c = (ctr0 + blk_index) & 0xFFFFFFFF
        return _xor(blk, _ecb(dek, nonce[:12] + c.to_bytes(4, "little")))

    certs = []
    if v21:
        cert_end, certs = _parse_cert_block(data, cert_off, log, {})
        sig_at = cert_end + (32 if sha else 0)
        siglen = _verify_sig(data, certs, 0, sig_at, sig_at, log)
        cur = (sig_at + siglen) // 16
        if sha:
            log(ev="CheckSha", at=cert_end, frm=cur * 16, to=len(data), ok=hashlib.sha256(data[cur * 16:]).digest() == data[cert_end:cert_end + 32])
    else:
        # SB 2.0: the header MAC is the HMAC of the header itself
        log(ev="CheckHeaderMac", over=[0, HDR_SIZE], ok=_mac(mac, data[:HDR_SIZE]) == data[HDR_SIZE:HDR_SIZE + 32])
        cur = kb_block + kb_cnt

    sec = 0
    first = True
    cert_section_pending = (not v21) and signed
    while cur < image_blocks and cur < nblk:
        tag_enc = data[cur * 16:cur * 16 + 16]
        tag = dec(cur, tag_enc)
        (crc, t, fl, addr, count, dat) = struct.unpack("<2BH3L", tag)
        nh = dat
        tag_hmac = data[cur * 16 + 16:cur * 16 + 48]
        sane = count <= nblk and nh <= nblk
        sno = -1 if cert_section_pending else sec
        log(ev="SectionTag", sec=sno, at=cur, ctrOff=cur, chkOk=_chk(tag) == crc, tagIsTag=t == 1, uid=limbs(addr), flags=fl,
            count=count if sane else -1, hmacCount=nh if sane else -1, sane=sane, tagHmacOk=_mac(mac, tag_enc) == tag_hmac,
            cert=cert_section_pending, markOk=(addr == struct.unpack("<L", b"sign")[0]) if cert_section_pending else True)
        if v21 and first:
            # SB 2.1: the header MAC covers the tag HMAC and the HMAC table of the first section
            tbl = data[cur * 16 + 16:cur * 16 + 16 + 32 + nh * 32]
            log(ev="CheckHeaderMac", over=[cur * 16 + 16, cur * 16 + 16 + 32 + nh * 32], ok=_mac(mac, tbl) == data[HDR_SIZE:HDR_SIZE + 32])
        first = False
        tab = cur + 3  # tag block + 2 blocks tag HMAC
        body = tab + 2 * nh
        per = (count // nh) if nh else 0
        b = body
        for k in range(nh):
            n = per if k < nh - 1 else count - per * (nh - 1)
            ok = _mac(mac, data[b * 16:(b + n) * 16]) == data[(tab + 2 * k) * 16:(tab + 2 * k + 2) * 16]
            log(ev="SectionHmac", sec=sno, k=k, entryAt=tab + 2 * k, firstBlk=b, nBlk=n, ok=ok)
            b += n
        if cert_section_pending:
            # clear-text certificate section of a signed SB 2.0 file
            cert_end, certs = _parse_cert_block(data, body * 16, log, {})
            log(ev="SectionEnd", sec=sno, next=body + count)
            cert_section_pending = False
            cur = body + count
            continue
        plain = b"".join(dec(i, data[i * 16:i * 16 + 16]) for i in range(body, body + count))
        o = 0
        i = 0
        while o < len(plain):
            h = plain[o:o + 16]
            (crc, t, fl, addr, cnt, dat) = struct.unpack("<2BH3L", h)
            nb = 1
            extra = {"crcOk": True, "payload": [], "payloadLen": 0}
            if t == 2:  # LOAD: payload padded to whole blocks, CRC-32/MPEG-2 over the padded payload
                pl = (cnt + 15) // 16 * 16
                fits = pl <= len(plain) - o - 16
                payload = plain[o + 16:o + 16 + pl] if fits else b""
                nb += pl // 16 if fits else 0
                extra = {"crcOk": fits and crc32_mpeg2_fast(payload) == dat, "payloadLen": len(payload),
                         "payload": list(payload) if len(payload) <= max_payload_log else [],
                         "payloadSha": hashlib.sha256(payload).hexdigest()}
            log(ev="Cmd", sec=sec, i=i, at=body + o // 16, nBlk=nb, tag=t, chkOk=_chk(h) == crc, flags=fl, addr=limbs(addr), cnt=limbs(cnt),
                dat=limbs(dat), **extra)
            o += nb * 16
            i += 1
        log(ev="SectionEnd", sec=sec, next=body + count)
        cur = body + count
        sec += 1
    if (not v21) and signed:
        if not certs:
            log(ev="VerifySignature", frm=0, to=image_blocks * 16, sigAt=image_blocks * 16, sigLen=0, ok=False)
        _verify_sig(data, certs, 0, image_blocks * 16, image_blocks * 16, log)
    log(ev="Accept", cur=cur, nSections=sec)
