"""C15 - credential-object lane: histories of ONE debug-credential object.

R-spec: spec/C15/DatTerms.tla (object model: Sign / Set f / Export / Parse; an export verifies at the device exactly when the signature
the object holds was made over the values it exports).
 GEN : DatCredGen - TLC explores the reference object breadth first and prints every history of up to six operations that ends with an
       observation (5268), checks the lemmas CredExportVerifies / ParsedIsWire in every state
 exec: every history on a NEW real credential object (DebugCredentialCertificateRsa / ...Ecc / DebugCredentialEdgeLockEnclave / ...V2),
       made by create_from_yaml_config; Set f assigns the public attribute of field class f; every exported credential is read and
       verified by the device twin (c15_dev, `cryptography` primitives), every Parse goes through DebugCredentialCertificate.parse
 TV  : DatTrace (lane "cred") - steps the object model along the logged operations and decides every export / parse

Nothing here decides: the functions below execute, observe and count.
"""
import json
import os

import c15_dev as D
from lib.common import Machinery, rng

PROP = "C15"
FIELDS = ("socc", "uuid", "socu", "vu", "beacon", "dck")
SETTABLE = {"classic": FIELDS, "ele1": FIELDS, "ele2": ("socc", "socu", "beacon")}
ATTR = {"socc": "socc", "uuid": "uuid", "socu": "cc_socu", "vu": "cc_vu", "beacon": "cc_beacon", "dck": "dck_pub"}   # public attributes of the classes
ATTR2 = {"socc": "socc", "socu": "socu", "beacon": "beacon"}                                                    # documented property setters of the v2 class
ALT_DCK = ("intr", "evil")


def _m():
    import c15

    return c15


def enc(vals):
    """Field values in the shape the spec compares (limbs, byte list, key name)."""
    M = _m()
    return {"socc": M.limbs(vals["socc"]), "uuid": list(vals["uuid"]), "socu": M.limbs(vals["socu"]), "vu": M.limbs(vals["vu"]), "beacon": M.limbs(vals["beacon"]),
            "dck": vals["dck"]}


def enc1(f, v):
    if f == "uuid":
        return list(v)
    if f == "dck":
        return v
    return _m().limbs(v)


def clskey(case):
    return case["cls"] if case["cls"] != "classic" else ("rsa" if case["ver"][0] == 1 else "ecc")


def op(name, f="-"):
    return {"op": name, "f": f}


def hkey(ops):
    return json.dumps([[o["op"], o["f"]] for o in ops])


# ------------------------------------------------------------------ the two hosts
class SpsdkCred:
    """The credential object of SPSDK and what a user does with it."""

    def __init__(self, sc):
        M = _m()
        self.M, self.sc, self.host = M, sc, M.Host(sc)
        self.cls, self.ver = sc["case"]["cls"], tuple(sc["case"]["ver"])
        self.ks = M.KEYSET[self.ver]
        self.obj = None

    def new(self, vals, rot, used):
        from spsdk.dat.debug_credential import DebugCredentialCertificate, DebugCredentialEdgeLockEnclaveV2, ProtocolVersion

        M, fam = self.M, self.sc["fam"]
        if self.cls == "ele2":
            cfg = {"family": fam["family"], "revision": fam["revision"], "cc_socu": hex(vals["socu"]), "uuid": "0x" + vals["uuid"].hex(), "fuse_version": 0,
                   "public_key_0": M.kp(vals["dck"], self.ks, "pub"), "signing_key_0": M.kp(rot[used], self.ks, "pem")}
            self.obj = DebugCredentialEdgeLockEnclaveV2.create_from_yaml_config(config=cfg)
            return
        cred = {"uuid": vals["uuid"], "socu": vals["socu"], "vu": vals["vu"], "beacon": vals["beacon"], "rot": rot, "used": used, "dck": vals["dck"]}
        version = ProtocolVersion(f"{self.ver[0]}.{self.ver[1]}") if self.sc["explicit_version"] else None
        self.obj = DebugCredentialCertificate.create_from_yaml_config(config=self.host.dc_config(cred), version=version)

    def sign(self):
        self.obj.sign()

    def set(self, f, v):
        if f == "dck":
            from spsdk.crypto.utils import extract_public_key

            v = extract_public_key(self.M.kp(v, self.ks, "pub"))
        setattr(self.obj, (ATTR2 if self.cls == "ele2" else ATTR)[f], v)

    def export(self):
        return self.obj.export()

    def parse(self, data, names):
        """The host goes on with the object SPSDK's parser makes of the bytes; returns (field values it reports, does it export the same bytes)."""
        from spsdk.dat.debug_credential import DebugCredentialCertificate

        M = self.M
        p = DebugCredentialCertificate.parse(data)
        self.obj = p
        size = D.ver_size(list(self.ver))
        if self.cls == "ele2":
            out = {"socc": M.limbs(p.socc), "uuid": list(p.uuid), "socu": M.limbs(p.socu), "vu": [0, 0], "beacon": M.limbs(p.beacon),
                   "dck": names(D.pub_from_blob("ecc", p.dck_pub.export(), size))}
        else:
            out = dict(M.spsdk_fields(p), dck=names(D.pub_from_blob(D.ver_kind(list(self.ver)), p.export_dck_pub(), size)))
        try:
            same = p.export() == data
        except Exception:  # noqa: BLE001
            same = False
        return out, same, type(p).__name__


class RefCred:
    """The same object made of the device twin's own tools (canary: its traces do not depend on the tree under test).
    stale = True: a signer that keeps a signature it already has - the defect class the lane exists for; its trace must be rejected."""

    class Refused(Exception):
        pass

    def __init__(self, sc, stale=False):
        M = _m()
        self.M, self.sc, self.stale = M, sc, stale
        self.cls, self.ver = sc["case"]["cls"], list(sc["case"]["ver"])
        self.ks = M.KEYSET[tuple(self.ver)]
        self.ele = self.cls == "ele1"

    def new(self, vals, rot, used):
        M = self.M
        self.v, self.sig, self.used = dict(vals), None, used
        self.pubs = [D.load_pub(M.kp(k, self.ks, "pub")) for k in rot]
        self.priv = D.load_priv(M.kp(rot[used], self.ks, "pem"))
        self.siglen = self.pubs[used].sig_len()

    def _signed(self, priv):
        v = self.v
        return D.forge_dc(self.ele, self.ver, v["socc"], v["uuid"], v["socu"], v["vu"], v["beacon"], self.pubs, self.used,
                          D.load_pub(self.M.kp(v["dck"], self.ks, "pub")), priv)

    def sign(self):
        if self.stale and self.sig:
            return
        if self.priv is None:
            raise RefCred.Refused("no signing key")
        self.sig = self._signed(self.priv)[-self.siglen:]

    def set(self, f, v):
        self.v[f] = v

    def export(self):
        if not self.sig:
            raise RefCred.Refused("not signed")
        # the bytes in front of the signature are the CURRENT values (the throw-away signature made on the way is cut off)
        return self._signed(D.load_priv(self.M.kp("intr", self.ks, "pem")))[:-self.siglen] + self.sig

    def parse(self, data, names):
        M = self.M
        w = D.walk_dc(data, self.ele)
        if w.get("err"):
            raise ValueError(w["err"])
        self.v = {"socc": w["socc"], "uuid": w["uuid"], "socu": w["cc_socu"], "vu": w["cc_vu"], "beacon": w["cc_beacon"], "dck": names(w["dck_pub"])}
        self.sig, self.priv = w["sig"], None
        return dict(M.twin_fields(w), dck=names(w["dck_pub"])), True, "RefCred"


# ------------------------------------------------------------------ values
def flip(r, v, bits):
    return v ^ (1 << r.randrange(bits))


def pick(r, f, cur, sc, dck0):
    """Another value for field class f: drawn from its value classes (random, zero, all ones, one bit away from the current value)."""
    if f == "uuid":
        c = cur["uuid"]
        near = bytearray(c)
        near[r.randrange(16)] ^= 1 << r.randrange(8)
        cands = [bytes(r.randrange(1, 256) for _ in range(16)), bytes(16), bytes(8) + bytes(r.randrange(1, 256) for _ in range(8)), bytes(near)]
    elif f in ("socu", "vu"):
        cands = [r.getrandbits(32), 0, 0xFFFFFFFF, flip(r, cur[f], 32)]
    elif f == "beacon":
        cands = [r.randrange(1 << 16), 0, 0xFFFF, flip(r, cur[f], 16)]
        if sc["case"]["cls"] != "ele2":    # classic and enclave (ECC format) credentials: a 4-byte field - values above the 16-bit boundary and with the top bit
            cands += [0x10000 | r.randrange(1 << 16), 0x80000000 | r.getrandbits(31)]
    elif f == "socc":
        cands = [x for x in [sc["fam"]["socc"]] + list(sc["soccs"]) if x != cur["socc"]]
        return cands[r.randrange(len(cands))]
    else:
        cands = [x for x in (dck0,) + ALT_DCK if x != cur["dck"]]
        return cands[r.randrange(len(cands))]
    k = r.randrange(len(cands))
    for i in range(len(cands)):
        if cands[(k + i) % len(cands)] != cur[f]:
            return cands[(k + i) % len(cands)]
    raise Machinery(f"no other value for {f}")


# ------------------------------------------------------------------ observation of an exported credential (device twin)
def observe(M, case, data, pubs, names):
    cls, used = case["cls"], case["used"]
    base = {"e": "CredExport", "ok": True, "walk": True, "len": len(data), "exc": "", "msg": ""}
    if cls == "ele2":
        c = D.walk_cert2(data)
        if c.get("err"):
            return dict(base, walk=False, err=c["err"])
        scheme = "ecdsa-" + D.ECC_HASH[c["size"]]
        signer = next((i for i, p_ in enumerate(pubs) if D.verify(p_, c["sig"], c["signed"], scheme)), -1)
        return dict(base, fields=M.table(c["fields"]), end=c["end"],
                    out={"socc": M.limbs(c["socc"]), "uuid": list(c["uuid"]), "socu": M.limbs(c["cc_socu"]), "vu": [0, 0], "beacon": M.limbs(c["cc_beacon"]),
                         "dck": names(c["dck_pub"])},
                    flagsOk=bool(c["perm_ok"] and c["reserved_ok"] and c["size"] == D.ver_size(list(case["ver"])) and c["rec_flags"] == 0 and c["srk_id"] == 0
                                 and c["fuse_version"] == 0),
                    rotIdx=signer, tableOk=bool(c["srk_hash_ok"]), to=len(c["signed"]), sigAt=c["sig_at"], sigLen=len(c["sig"]), scheme=scheme,
                    sigOk=D.verify(pubs[used], c["sig"], c["signed"], scheme), **{"from": 0})
    ele = cls == "ele1"
    dc = D.walk_dc(data, ele)
    if dc.get("err"):
        return dict(base, walk=False, err=dc["err"])
    dev = D.Device(b"", 0, b"", ele)
    scheme = dev.dc_scheme(dc)
    return dict(base, fields=M.table(dc["fields"]), end=dc["end"], out=dict(M.twin_fields(dc), dck=names(dc["dck_pub"])), flagsOk=bool(dc.get("flags_ok", True)),
                rotIdx=next((i for i, p_ in enumerate(pubs) if dc["rot_pub"] == p_), -1), tableOk=bool(M.table_ok(dc, pubs, ele)),
                to=len(dc["signed"]), sigAt=dc["sig_at"], sigLen=len(dc["sig"]), scheme=scheme,
                sigOk=bool(D.verify(pubs[used], dc["sig"], dc["signed"], scheme) and dev.rot_key_listed(dc)), **{"from": 0})


# ------------------------------------------------------------------ one scenario = one trace of the lane
def run_cred_scenario(sc):
    M = _m()
    case, fam = sc["case"], sc["fam"]
    ver, used, cls = list(case["ver"]), case["used"], case["cls"]
    ks = M.KEYSET[tuple(ver)]
    ev = [M.case_event(sc, ks)]
    trace = {"id": sc["id"], "ev": ev, "sc": sc, "wit": {"blobs": {}}}
    rot, dck0 = M.key_names(sc)
    pubs = [D.load_pub(M.kp(k, ks, "pub")) for k in rot]
    pool = {n: D.load_pub(M.kp(n, ks, "pub")) for n in (dck0,) + ALT_DCK}

    def names(pub):
        if pub is None:
            return "none"
        return next((n for n in (dck0,) + ALT_DCK if pool[n] == pub), "other")

    for hs in sc["chists"]:
        r = rng(PROP, "cred", sc["id"], hs["k"])
        small = not case["wild"] and (sc["id"] + hs["k"]) % 7 == 3          # a device whose UUID is a small number
        uuid = bytes(16) if case["wild"] else (bytes(8) if small else b"") + bytes(r.randrange(1, 256) for _ in range(8 if small else 16))
        vals = {"socc": fam["socc"], "uuid": uuid, "socu": r.getrandbits(32), "vu": 0 if cls == "ele2" else r.getrandbits(32),
                "beacon": 0 if cls == "ele2" else M.width_value(r, sc["id"] + hs["k"]), "dck": dck0}   # the 32-bit word of the format at its width boundaries
        cred = RefCred(sc, sc.get("refhost") == "stale") if sc.get("refhost") else SpsdkCred(sc)
        try:
            cred.new(vals, rot, used)
        except Exception as e:  # noqa: BLE001 - SPSDK refused the configuration: nothing was created
            ev.append({"e": "CredNew", "k": hs["k"], "ok": False, "exc": M.exc_name(e), "msg": str(e)[:200]})
            continue
        ev.append({"e": "CredNew", "k": hs["k"], "ok": True, "exc": "", "msg": "", "via": "ele2-class" if cls == "ele2" else sc["via"], "in": enc(vals)})
        cur, last = dict(vals), None
        for o in hs["ops"]:
            if o["op"] == "Sign":
                try:
                    cred.sign()
                    ev.append({"e": "CredSign", "ok": True, "exc": "", "msg": ""})
                except Exception as e:  # noqa: BLE001 - refused: the object stays as it is
                    ev.append({"e": "CredSign", "ok": False, "exc": M.exc_name(e), "msg": str(e)[:120]})
            elif o["op"] == "Set":
                v = pick(r, o["f"], cur, sc, dck0)
                try:
                    cred.set(o["f"], v)       # assignment to the public attribute / documented property
                    cur[o["f"]] = v
                    ev.append({"e": "CredSet", "ok": True, "f": o["f"], "to": enc1(o["f"], v), "exc": "", "msg": ""})
                except Exception as e:  # noqa: BLE001 - refused: the object stays as it is
                    ev.append({"e": "CredSet", "ok": False, "f": o["f"], "to": enc1(o["f"], v), "exc": M.exc_name(e), "msg": str(e)[:120]})
            elif o["op"] == "Export":
                try:
                    data = cred.export()
                except Exception as e:  # noqa: BLE001 - refused: nothing was exported
                    ev.append({"e": "CredExport", "ok": False, "walk": False, "len": 0, "exc": M.exc_name(e), "msg": str(e)[:120]})
                    continue
                last = data
                try:
                    ev.append(observe(M, case, data, pubs, names))
                except Exception as e:  # noqa: BLE001 - the twin could not read the bytes: decided by the spec like a walk error
                    ev.append({"e": "CredExport", "ok": True, "walk": False, "len": len(data), "err": f"{M.exc_name(e)}: {e}"[:160], "exc": "", "msg": ""})
            else:
                if last is None:
                    break                 # nothing was ever exported: there is nothing to parse (the history ends here)
                try:
                    out, same, name = cred.parse(last, names)
                    ev.append({"e": "CredParse", "ok": True, "out": out, "reexport": bool(same), "cls": name, "exc": "", "msg": ""})
                except Exception as e:  # noqa: BLE001 - decided by the spec; no object to go on with
                    ev.append({"e": "CredParse", "ok": False, "reexport": False, "cls": "", "exc": M.exc_name(e), "msg": str(e)[:160]})
                    break
                cur = _values_of(last, cls, names, dck0)      # the spec keeps track itself; `pick` needs them to draw ANOTHER value
        if last is not None and "dc" not in trace["wit"]["blobs"]:
            trace["wit"]["blobs"]["dc"] = last.hex()
    ev.append({"e": "Done"})
    return trace


def _values_of(data, cls, names, dck0):
    """Current values after a Parse, as far as `pick` needs them (to draw ANOTHER value): read by the twin from the parsed bytes."""
    if cls == "ele2":
        c = D.walk_cert2(data)
        if c.get("err"):
            return {"socc": -1, "uuid": b"", "socu": -1, "vu": -1, "beacon": -1, "dck": dck0}
        return {"socc": c["socc"], "uuid": c["uuid"], "socu": c["cc_socu"], "vu": 0, "beacon": c["cc_beacon"], "dck": names(c["dck_pub"])}
    w = D.walk_dc(data, cls == "ele1")
    if w.get("err"):
        return {"socc": -1, "uuid": b"", "socu": -1, "vu": -1, "beacon": -1, "dck": dck0}
    return {"socc": w["socc"], "uuid": w["uuid"], "socu": w["cc_socu"], "vu": w["cc_vu"], "beacon": w["cc_beacon"], "dck": names(w["dck_pub"])}


# ------------------------------------------------------------------ planning
def core_histories(settable, k0):
    """Histories every scenario of the lane executes: for EACH settable field class sign - export - set - sign again - export again -
    parse; the unsigned export; a set between export and export (then signed again); the parsed object changed and signed; signing and
    exporting twice."""
    S, X, P = op("Sign"), op("Export"), op("Parse")
    res = [[S, X, op("Set", f), S, X, P] for f in settable]
    f1, f2 = settable[k0 % len(settable)], settable[(k0 + 1) % len(settable)]
    a, b = sorted((f1, f2), key=FIELDS.index)
    res += [[X, S, X], [S, S, X, X], [S, X, op("Set", f1), X, S, X], [S, X, P, op("Set", f2), S, X], [S, X, op("Set", a), op("Set", b), S, X],
            [op("Set", f1), S, X, P], [S, op("Set", f2), S, X, P, X]]
    return res


def alt_soccs(M, fam, fams, r):
    """Other SoC classes the credential classes treat exactly alike (same enclave generation, unambiguous): values for Set socc."""
    vals = sorted({g["socc"] for g in fams if g["socc"] != fam["socc"] and (g["ele"], g["cnt"]) == (fam["ele"], fam["cnt"]) and g["latest"]
                   and not g["fclass"].endswith("-oldrev") and M.socc_is_safe(g, fams)})
    return r.sample(vals, k=min(3, len(vals)))


def plan(cases, fams, tier, r, chists, first_id):
    M = _m()
    quick = tier == "quick"
    per_cell = 2 if quick else 8
    # an RSA object is expensive (SPSDK loads and validates the key pair per object: ~0.15 s with RSA-2048, ~0.6 s with RSA-4096; all key types
    # run the same sign() and the same class for EdgeLock): quick tier = the core histories with RSA-2048, four of them with RSA-4096
    n_extra = {"ecc": 48, "rsa2048": 0, "rsa4096": 0} if quick else {"ecc": 330, "rsa2048": 40, "rsa4096": 8}
    pools = {"classic": [f for f in fams if not f["ele"] and f["latest"]],
             "ele1": [f for f in fams if f["ele"] and f["cnt"] == 1 and f["latest"] and not f["fclass"].endswith("-oldrev")],
             "ele2": [f for f in fams if f["ele"] and f["cnt"] == 2 and f["latest"]]}
    plain = [c for c in cases if c.get("lz", "none") == "none"]
    space = {hkey(h) for h in chists}
    order = r.sample(chists, k=len(chists))
    pos = {}
    scs = []
    for cell in sorted({(c["cls"], tuple(c["ver"])) for c in plain}):
        mine = [c for c in plain if (c["cls"], tuple(c["ver"])) == cell]
        wild = [c for c in mine if c["wild"]]
        spec = [c for c in mine if not c["wild"]]
        chosen = [r.choice(spec), r.choice(wild)] + [r.choice(mine) for _ in range(per_cell - 2)]
        pool = pools[cell[0]]
        if not pool:
            raise Machinery(f"no DAT family for credential class {cell[0]}")
        famsel = r.sample(pool, k=min(per_cell, len(pool)))
        for i, case in enumerate(chosen):
            fam = famsel[i % len(famsel)]
            sc = {"lane": "cred", "id": first_id + len(scs), "case": case, "fam": fam, "explicit_version": r.random() < 0.5,
                  "via": r.choice(["yaml-family", "yaml-family", "yaml-revision", "yaml-socc"]), "soccs": alt_soccs(M, fam, fams, r)}
            if sc["via"] == "yaml-socc" and not M.socc_is_safe(fam, fams):
                sc["via"] = "yaml-family"
            settable = [f for f in SETTABLE[case["cls"]] if f != "socc" or sc["soccs"]]
            sc["settable"] = settable
            core = core_histories(settable, len(scs))
            missing = [h for h in core if hkey(h) not in space]
            if missing:
                raise Machinery(f"core credential history {hkey(missing[0])} is not in the space TLC enumerated")
            ck = clskey(case)
            cost = {(1, 0): "rsa2048", (1, 1): "rsa4096"}.get(cell[1], "ecc")
            if quick and cost == "rsa4096":
                k0 = len(scs) % len(settable)
                core = [core[k0], core[(k0 + 3) % len(settable)], core[len(settable)], core[len(settable) + 3]]
            fits = [h for h in order if all(o["op"] != "Set" or o["f"] in settable for o in h)]
            extra = []
            for _ in range(n_extra[cost]):
                p_ = pos.get(ck, 0)
                extra.append(fits[p_ % len(fits)])
                pos[ck] = p_ + 1
            seen, hs = set(), []
            for h in core + extra:
                if hkey(h) not in seen:
                    seen.add(hkey(h))
                    hs.append({"k": len(hs), "ops": h})
            sc["chists"] = hs
            scs.append(sc)
    return scs


# ------------------------------------------------------------------ accounting (non-vacuity of the lane; decides nothing)
def replay_ops(evs):
    """Walk the events of one history: yields (event, info) with info = what Python can tell about the object at that point (for
    counting and for finding keys only - the verdict is TLC's)."""
    signed, pending, resigned, parsed, sets = False, set(), set(), False, []
    for e in evs:
        info = {"signed": signed, "pending": set(pending), "resigned": set(resigned), "parsed": parsed, "sets": list(sets)}
        yield e, info
        if e["e"] == "CredSign" and e["ok"]:
            resigned = set(pending) if signed else set()
            signed, pending = True, set()
        elif e["e"] == "CredSet" and e["ok"]:
            pending.add(e["f"])
            sets.append(e["f"])
        elif e["e"] == "CredParse" and e["ok"]:
            parsed = True


def histories_of(ev):
    """[(index of the CredNew event, [events of that history])]"""
    res = []
    for i, e in enumerate(ev):
        if e["e"] == "CredNew":
            res.append((i, [e]))
        elif e["e"].startswith("Cred") and res:
            res[-1][1].append(e)
    return res


def account(v, traces):
    stats = {"histories": 0, "steps": 0, "exports_decided": 0, "exports_after_resign": {}, "parses": 0, "refused": {}}
    for t in traces:
        case = t["sc"]["case"]
        ck = clskey(case)
        for (_, evs), hs in zip(histories_of(t["ev"]), t["sc"]["chists"]):
            stats["histories"] += 1
            v.nontrivial(("credhist", ck, hkey(hs["ops"])))
            for e, info in replay_ops(evs):
                stats["steps"] += 1
                if e.get("ok") is False:
                    k = f"{ck}/{e['e']}/{e['exc']}"
                    stats["refused"][k] = stats["refused"].get(k, 0) + 1
                if e["e"] == "CredExport" and e["ok"] and info["signed"] and not info["pending"]:
                    stats["exports_decided"] += 1
                    for f in info["resigned"]:
                        stats["exports_after_resign"][f"{ck}/{f}"] = stats["exports_after_resign"].get(f"{ck}/{f}", 0) + 1
                if e["e"] == "CredParse" and e["ok"]:
                    stats["parses"] += 1
    v.count(stats["steps"])
    # every class of credential was signed again after a change of every field class it lets the user set, and exported
    planned = {(clskey(t["sc"]["case"]), f) for t in traces for f in t["sc"]["settable"]}
    for ck, must in (("rsa", ("uuid", "socu", "vu", "beacon", "dck")), ("ecc", ("uuid", "socu", "vu", "beacon", "dck")), ("ele1", ("uuid", "socu", "vu", "beacon", "dck")),
                     ("ele2", ("socu", "beacon"))):
        for f in must:
            if (ck, f) not in planned:
                raise Machinery(f"credential lane: no history with 'set {f}' was planned for class {ck}")
    for ck, f in sorted(planned):
        if True:
            if not stats["exports_after_resign"].get(f"{ck}/{f}"):
                raise Machinery(f"credential lane: no export after 'set {f}, sign again' was observed for class {ck}: refused = {json.dumps(stats['refused'])[:500]}")
    if not stats["parses"]:
        raise Machinery("credential lane: no parse step was executed")
    return stats


# ------------------------------------------------------------------ finding keys, continuation
def finding_detail(t, matched):
    """Names the rejected step of the lane for the finding key (class of history, not the history itself)."""
    ev = t["ev"]
    e = ev[matched]
    start = max(i for i in range(matched + 1) if ev[i]["e"] == "CredNew") if any(x["e"] == "CredNew" for x in ev[:matched + 1]) else matched
    info = {"signed": False, "pending": set(), "resigned": set(), "parsed": False, "sets": []}
    for x, inf in replay_ops(ev[start:matched + 1]):
        info = inf
    origin = "parsed" if info["parsed"] else "created"
    if "exc" in e and e.get("ok") is False:
        what = f"exc={e['exc']}"
    elif e["e"] == "CredExport":
        if not info["signed"]:
            what = "exported-unsigned"
        elif not e.get("walk"):
            what = "walk-error"
        elif not e.get("sigOk"):
            what = "not-verified"
        else:
            what = "fields-or-layout"
    elif e["e"] == "CredParse":
        what = "reexport" if e.get("ok") and not e.get("reexport") else "fields"
    else:
        what = "not-a-step"
    # class of history, not the history: was a field changed before the rejected step (and not yet signed again), or signed again since
    past = "set-unsigned" if info["pending"] else "set-and-signed-again" if info["resigned"] else "set-earlier" if info["sets"] else "no-set"
    return f"{origin}/{past}/{what}"


def cut_history(t, matched, new_id):
    """The trace without the history the rejected event belongs to (the other histories of the scenario are still decided)."""
    ev = t["ev"]
    starts = [i for i in range(matched + 1) if ev[i]["e"] == "CredNew"]
    if not starts:
        return None
    a = starts[-1]
    b = next((i for i in range(matched + 1, len(ev)) if ev[i]["e"] in ("CredNew", "Done")), len(ev))
    return dict(t, id=new_id, ev=json.loads(json.dumps(ev[:a] + ev[b:])))


def witness(t, matched):
    """Witness of a rejected step: the scenario with the ONE history concerned (same index, hence the same values on replay)."""
    ev = t["ev"]
    starts = [i for i in range(matched + 1) if ev[i]["e"] == "CredNew"]
    if not starts:
        return {"sc": t["sc"], "ev": ev[:matched + 1], "blobs": {}}
    a = starts[-1]
    b = next((i for i in range(matched + 1, len(ev)) if ev[i]["e"] in ("CredNew", "Done")), len(ev))
    k = ev[a]["k"]
    sc = dict(t["sc"], chists=[h for h in t["sc"]["chists"] if h["k"] == k])
    return {"sc": sc, "ev": [ev[0]] + ev[a:b] + [{"e": "Done"}], "blobs": t.get("wit", {}).get("blobs", {}), "failed_event": matched - a + 2}


# ------------------------------------------------------------------ canary: traces of the reference object (no SPSDK anywhere)
CANARY_FAM = {"cb21": {"family": "canary-ecc", "revision": "a0", "latest": True, "socc": 0x00C0FFEE, "ele": False, "cnt": 0, "sha256": False, "rot_type": "cert_block_21",
                       "fclass": "cb21", "swapped": False},
              "cb1": {"family": "canary-rsa", "revision": "a0", "latest": True, "socc": 0x00C0FFE1, "ele": False, "cnt": 0, "sha256": False, "rot_type": "cert_block_1",
                      "fclass": "cb1", "swapped": False},
              "cb21-sha256": {"family": "canary-ecc-sha256", "revision": "a0", "latest": True, "socc": 0x00C0FFE3, "ele": False, "cnt": 0, "sha256": True,
                              "rot_type": "cert_block_21", "fclass": "cb21-sha256", "swapped": False},
              "ele1": {"family": "canary-ele", "revision": "a0", "latest": True, "socc": 0x00C0FFE2, "ele": True, "cnt": 1, "sha256": False, "rot_type": "srk_table_ahab",
                       "fclass": "ele1", "swapped": False}}


def canary_traces(chists):
    """-> (good traces, bad traces, {id of a bad trace: event name it must be rejected at}).  The good ones come from RefCred (the twin's
    own tools on a made-up family: no line of the tree under test runs); the bad ones are single-field corruptions of the first good one,
    plus the trace of a reference signer that keeps a signature it already has (the defect class of the lane)."""
    r = rng(PROP, "cred-canary")
    order = r.sample(chists, k=len(chists))
    good = []
    cells = [("classic", [2, 0], 3, 1, False, "cb21"), ("classic", [1, 0], 2, 1, True, "cb1"), ("ele1", [2, 1], 4, 3, False, "ele1"), ("classic", [2, 1], 1, 0, True, "cb21")]
    scs = []
    for k, (cls, ver, nk, used, wild, fc) in enumerate(cells):
        case = {"kind": "case", "cls": cls, "ver": ver, "nkeys": nk, "used": used, "wild": wild, "lz": "none", "coord": "-"}
        hs = core_histories(FIELDS, k) + order[40 * k:40 * (k + 1)]
        sc = {"lane": "cred", "id": 999900 + k, "case": case, "fam": CANARY_FAM[fc], "explicit_version": False, "via": "yaml-family",
              "soccs": [0x00C0FF00 + k, 0x00C0FF10 + k], "refhost": "ref", "chists": [{"k": i, "ops": h} for i, h in enumerate(hs)]}
        scs.append(sc)
        t = run_cred_scenario(sc)
        if t["ev"][-1]["e"] != "Done" or not any(e["e"] == "CredParse" and e["ok"] for e in t["ev"]):
            raise Machinery(f"canary: the reference credential object's trace is incomplete for {cls} {ver}")
        good.append({"id": f"good-cred-{cls}-{ver[0]}.{ver[1]}", "ev": t["ev"]})
    g = good[0]
    bad, at = [], {}

    def mutate(name, where, fn):
        b = json.loads(json.dumps(g))
        b["id"] = name
        hist = histories_of(b["ev"])
        fn(hist)
        bad.append(b)
        at[name] = where

    # history 0 = Sign, Export, Set socc, Sign, Export, Parse: events [CredNew, CredSign, CredExport, CredSet, CredSign, CredExport, CredParse]
    mutate("bad-cred-stale-signature", "CredExport", lambda h: h[0][1][5].update(sigOk=False))
    mutate("bad-cred-old-value", "CredExport", lambda h: h[1][1][5]["out"].update(uuid=h[1][1][2]["out"]["uuid"]))        # history 1 sets the uuid
    mutate("bad-cred-range", "CredExport", lambda h: h[0][1][5].update(to=h[0][1][5]["to"] - 4))
    mutate("bad-cred-parse", "CredParse", lambda h: h[2][1][6]["out"].update(socu=[h[2][1][6]["out"]["socu"][0] ^ 1, h[2][1][6]["out"]["socu"][1]]))
    mutate("bad-cred-reexport", "CredParse", lambda h: h[0][1][6].update(reexport=False))
    ux = next(i for i, (_, evs) in enumerate(histories_of(g["ev"])) if [e["e"] for e in evs[:2]] == ["CredNew", "CredExport"])
    mutate("bad-cred-unsigned-export", "CredExport", lambda h: h[ux][1][1].update(ok=True))
    mutate("bad-cred-set-nothing", "CredSet", lambda h: h[0][1][3].update(to=h[0][1][0]["in"]["socc"]))                  # a Set that changes nothing is not a step
    stale = run_cred_scenario(dict(scs[0], id=999950, refhost="stale"))
    bad.append({"id": "bad-cred-signer-keeps-signature", "ev": stale["ev"]})
    at["bad-cred-signer-keeps-signature"] = "CredExport"
    return good, bad, at
