"""setup_cmd body: tools present, every TLA+ module parses, spsdk under test is the one in /repo."""
import glob
import os
import sys

sys.path.insert(0, os.path.dirname(os.path.abspath(__file__)))
from lib import tlc  # noqa: E402
from lib.common import ROOT, import_spsdk  # noqa: E402

bad = 0
mods = sorted(glob.glob(os.path.join(ROOT, "spec", "*", "*.tla")))
for m in mods:
    ok, out = tlc.sany(m, libs=("C04", "C19", "C10", "C02", "C06", "C07", "C14", "C05", "C11", "C15") if os.sep + "SYS" + os.sep in m else ())      # spec/SYS composes specifications of several properties
    if not ok:
        bad += 1
        print("SANY FAILED", m)
        print(out[-2000:])
print(f"SANY: {len(mods) - bad}/{len(mods)} modules parse")
import_spsdk()
print("spsdk import ok")
sys.exit(1 if bad else 0)
