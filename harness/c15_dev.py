"""C15 - device twin: an independent reader / verifier of debug credentials (DC), challenges (DAC) and responses (DAR).

Nothing in this module imports spsdk. The byte layouts follow the R-spec (spec/C15/DatLayout.tla); their field order was
taken from the anchored artefacts under /verif/anchors/C15 (new_dck_rsa2048.cert, new_dck_secp256r1.cert,
lpc55s3x_dck_secp384r1.cert, rt118x_ecc256.dc, rt118x_rsa2048.dc, sample_dac*.bin) and is re-verified on them by
`selftest_anchors()` at the start of every run. Crypto facts come from `cryptography` primitives called directly and hashlib.

Every walker is total: it stops at the first field that does not fit and never loops on a length taken from the file.
"""
import hashlib
import struct

from cryptography.exceptions import InvalidSignature
from cryptography.hazmat.primitives import hashes, serialization
from cryptography.hazmat.primitives.asymmetric import ec, padding, rsa
from cryptography.hazmat.primitives.asymmetric import utils as autils

CURVES = {32: ec.SECP256R1(), 48: ec.SECP384R1(), 66: ec.SECP521R1()}
HASHES = {"sha256": hashes.SHA256, "sha384": hashes.SHA384, "sha512": hashes.SHA512}
ECC_HASH = {32: "sha256", 48: "sha384", 66: "sha512"}


# ------------------------------------------------------------------ keys
class Pub:
    """A public key as plain numbers."""

    def __init__(self, kind, a, b, size):
        self.kind = kind  # "rsa": a = n, b = e, size = modulus bytes ; "ecc": a = x, b = y, size = coordinate bytes
        self.a, self.b, self.size = a, b, size

    def blob(self):
        """The key as the classic credentials embed it: modulus || exponent (4 bytes BE)  /  x || y."""
        if self.kind == "rsa":
            return self.a.to_bytes(self.size, "big") + self.b.to_bytes(4, "big")
        return self.a.to_bytes(self.size, "big") + self.b.to_bytes(self.size, "big")

    def crypto(self):
        if self.kind == "rsa":
            return rsa.RSAPublicNumbers(self.b, self.a).public_key()
        return ec.EllipticCurvePublicNumbers(self.a, self.b, CURVES[self.size]).public_key()

    def sig_len(self):
        return self.size if self.kind == "rsa" else 2 * self.size

    def __eq__(self, o):
        return isinstance(o, Pub) and (self.kind, self.a, self.b, self.size) == (o.kind, o.a, o.b, o.size)


def load_pub(path):
    data = open(path, "rb").read()
    if b"PRIVATE KEY" in data:
        k = serialization.load_pem_private_key(data, None).public_key()
    else:
        k = serialization.load_pem_public_key(data)
    return from_crypto(k)


def from_crypto(k):
    n = k.public_numbers()
    if isinstance(k, rsa.RSAPublicKey):
        return Pub("rsa", n.n, n.e, (k.key_size + 7) // 8)
    return Pub("ecc", n.x, n.y, (k.curve.key_size + 7) // 8)


def pub_from_blob(kind, blob, size):
    """Inverse of Pub.blob() (RSA exponent in 3 or 4 bytes); returns None if the blob does not describe a usable key."""
    try:
        if kind == "rsa":
            if len(blob) not in (size + 3, size + 4):
                return None
            p = Pub("rsa", int.from_bytes(blob[:size], "big"), int.from_bytes(blob[size:], "big"), size)
        else:
            if len(blob) != 2 * size:
                return None
            p = Pub("ecc", int.from_bytes(blob[:size], "big"), int.from_bytes(blob[size:], "big"), size)
        p.crypto()
        return p
    except Exception:  # noqa: BLE001 - not a point of the curve / malformed numbers
        return None


def verify(pub, sig, msg, scheme):
    """scheme: 'pkcs1-sha256' | 'pss-sha256' | 'pss-sha384' | 'pss-sha512' | 'ecdsa-sha256' | 'ecdsa-sha384' | 'ecdsa-sha512'."""
    if pub is None or scheme.count("-") != 1:
        return False
    pad, h = scheme.split("-")
    if h not in HASHES:
        return False
    try:
        if pub.kind == "rsa":
            if pad == "pkcs1":
                pub.crypto().verify(sig, msg, padding.PKCS1v15(), HASHES[h]())
            elif pad == "pss":
                pub.crypto().verify(sig, msg, padding.PSS(mgf=padding.MGF1(HASHES[h]()), salt_length=padding.PSS.AUTO), HASHES[h]())
            else:
                return False
            return True
        if pad != "ecdsa" or len(sig) != 2 * pub.size:
            return False
        r, s = int.from_bytes(sig[: pub.size], "big"), int.from_bytes(sig[pub.size:], "big")
        pub.crypto().verify(autils.encode_dss_signature(r, s), msg, ec.ECDSA(HASHES[h]()))
        return True
    except (InvalidSignature, ValueError):
        return False


def scheme_for(pub, ele):
    """Signature scheme of the protocol for a key: RSA = PKCS#1 v1.5 / SHA-256 (PSS on EdgeLock-enclave devices), ECDSA with the
    hash of the curve size."""
    if pub.kind == "rsa":
        return "pss-sha256" if ele else "pkcs1-sha256"
    return "ecdsa-" + ECC_HASH[pub.size]


# ------------------------------------------------------------------ version tables (mirrors DatLayout.tla; the spec recomputes everything)
def ver_kind(ver):
    return "rsa" if ver[0] == 1 else "ecc"


def ver_size(ver):
    """Modulus bytes (RSA) or coordinate bytes (ECC) of the protocol version; 0 if unknown."""
    return {(1, 0): 256, (1, 1): 512, (2, 0): 32, (2, 1): 48, (2, 2): 66}.get(tuple(ver), 0)


def le32(b, o):
    return struct.unpack_from("<L", b, o)[0]


def limbs(v):
    return [v & 0xFFFF, v >> 16]


# ------------------------------------------------------------------ credential walkers
class Walk:
    def __init__(self, data):
        self.d = data
        self.o = 0
        self.fields = []  # [name, offset, length] in the order walked
        self.err = None

    def take(self, name, n):
        if self.err:
            return b""
        if n < 0 or self.o + n > len(self.d):
            self.err = f"{name}: needs {n} bytes at {self.o}, file has {len(self.d)}"
            return b""
        v = self.d[self.o:self.o + n]
        self.fields.append([name, self.o, n])
        self.o += n
        return v


def walk_dc(data, ele):
    """Walk a classic (RSA 1.x / ECC 2.x) or EdgeLock-enclave (container version 1) credential.
    Returns a dict: fields (table), values, keys, signature, or {'err': ...}."""
    w = Walk(data)
    head = w.take("version", 4)
    if w.err:
        return {"err": w.err, "fields": w.fields}
    ver = list(struct.unpack("<2H", head))
    size = ver_size(ver)
    if not size:
        return {"err": f"unknown protocol version {ver}", "fields": w.fields}
    kind = ver_kind(ver)
    out = {"ver": ver, "kind": kind}
    socc = w.take("socc", 4)
    uuid = w.take("uuid", 16)
    rot_blob = b""
    table = []
    srk = None
    if kind == "rsa" and not ele:
        meta = w.take("rotmeta", 128)
        dck = w.take("dck", size + 4)
        cc = w.take("cc_socu", 4) + w.take("cc_vu", 4) + w.take("cc_beacon", 4)
        rot_blob = w.take("rotpub", size + 4)
        if w.err:
            return {"err": w.err, "fields": w.fields}
        table = [meta[i * 32:(i + 1) * 32] for i in range(4)]
        nkeys = len([t for t in table if any(t)])
        used = None  # RSA credentials carry no index: the used key is the one whose hash is in the table
        out["meta"] = meta
    else:
        cc = w.take("cc_socu", 4) + w.take("cc_vu", 4) + w.take("cc_beacon", 4)
        flags_b = w.take("rotflags", 4)
        if w.err:
            return {"err": w.err, "fields": w.fields}
        flags = le32(flags_b, 0)
        nkeys, used = (flags >> 4) & 0xF, (flags >> 8) & 0xF
        out["flags"] = limbs(flags)
        out["flags_ok"] = bool(flags >> 31) and (flags & ~(0x80000000 | 0xFF0)) == 0
        if not out["flags_ok"] or not (1 <= nkeys <= 4 and used < nkeys):
            return {"err": f"rot flags: count {nkeys}, used {used}", "fields": w.fields}
        if ele:
            srk = walk_srk_table(w)
            if w.err or srk.get("err"):
                return {"err": w.err or srk["err"], "fields": w.fields}
            if len(srk["records"]) != nkeys:
                return {"err": f"SRK table has {len(srk['records'])} records, flags say {nkeys}", "fields": w.fields}
            rot = srk["records"][used]["pub"]
            # anchor rt118x_rsa2048.dc: the enclave credential embeds an RSA debug key as modulus || exponent in 3 bytes
            dck_len = (size + 3) if kind == "rsa" else 2 * size
            dck = w.take("dck", dck_len)
            out["meta"] = flags_b + srk["raw"]
        else:
            hl = {32: 32, 48: 48, 66: 64}[size]
            tb = w.take("rottable", nkeys * hl if nkeys > 1 else 0)
            table = [tb[i * hl:(i + 1) * hl] for i in range(nkeys)] if nkeys > 1 else []
            rot_blob = w.take("rotpub", 2 * size)
            dck = w.take("dck", 2 * size)
            out["meta"] = flags_b + tb
    siglen = size if kind == "rsa" else 2 * size
    sig_at = w.o
    sig = w.take("signature", siglen)
    if w.err:
        return {"err": w.err, "fields": w.fields}
    if ele:
        rot_pub = rot
    else:
        rot_pub = pub_from_blob(kind, rot_blob, size)
    out.update(
        fields=w.fields, end=w.o, sig_at=sig_at, sig=sig, signed=data[:sig_at],
        socc=le32(socc, 0), uuid=uuid, cc_socu=le32(cc, 0), cc_vu=le32(cc, 4), cc_beacon=le32(cc, 8),
        nkeys=nkeys, used=used, table=table, rot_pub=rot_pub, rot_blob=rot_blob,
        dck_blob=dck, dck_pub=pub_from_blob(kind, dck, size), srk=srk, size=size,
    )
    return out


SRK_SIGN = {0x21: "pkcs1", 0x22: "pss", 0x27: "ecdsa"}
SRK_HASH = {0: "sha256", 1: "sha384", 2: "sha512"}
SRK_KEYSIZE = {1: ("ecc", 32), 2: ("ecc", 48), 3: ("ecc", 66), 5: ("rsa", 256), 6: ("rsa", 384), 7: ("rsa", 512)}


def walk_srk_table(w):
    """AHAB SRK table, container version 1 (anchors rt118x_*.dc): header {version 0x42, length LE16, tag 0xD7}, records
    {tag 0xE1, length LE16, sign alg, hash alg, key size, 0, flags, len1 LE16, len2 LE16, param1, param2}."""
    start = w.o
    h = w.take("srk_table_header", 4)
    if w.err:
        return {"err": w.err}
    tag, length, version = h[0], struct.unpack_from("<H", h, 1)[0], h[3]
    if tag != 0xD7 or version != 0x42:
        return {"err": f"SRK table header tag {tag:#x} version {version:#x}"}
    end = start + length
    if end > len(w.d):
        return {"err": "SRK table longer than the file"}
    recs = []
    while w.o < end and len(recs) < 4:
        rs = w.o
        rh = w.take(f"srk_record{len(recs)}", 12)
        if w.err:
            return {"err": w.err}
        rtag, rlen, salg, halg, ksz, _r, rflags, l1, l2 = struct.unpack("<BHBBBBBHH", rh)
        if rtag != 0xE1 or rlen != 12 + l1 + l2 or rs + rlen > end:
            return {"err": f"SRK record {len(recs)}: tag {rtag:#x}, length {rlen}, params {l1}+{l2}"}
        p1 = w.take(f"srk_param1_{len(recs)}", l1)
        p2 = w.take(f"srk_param2_{len(recs)}", l2)
        if w.err:
            return {"err": w.err}
        kind, size = SRK_KEYSIZE.get(ksz, (None, 0))
        if kind is None or salg not in SRK_SIGN or halg not in SRK_HASH:
            return {"err": f"SRK record {len(recs)}: unknown algorithm / key size ({salg:#x}, {halg}, {ksz})"}
        pub = None
        consistent = False
        if kind == "rsa":
            consistent = l1 == size and SRK_SIGN.get(salg) in ("pkcs1", "pss")
            if consistent:
                pub = pub_from_blob("rsa", p1 + int.from_bytes(p2, "big").to_bytes(4, "big"), size) if l2 <= 4 else None
        elif kind == "ecc":
            consistent = l1 == size and l2 == size and SRK_SIGN.get(salg) == "ecdsa"
            if consistent:
                pub = pub_from_blob("ecc", p1 + p2, size)
        recs.append({"pub": pub, "sign": SRK_SIGN.get(salg), "hash": SRK_HASH.get(halg), "flags": rflags, "consistent": consistent and pub is not None,
                     "len": rlen})
    if w.o != end:
        return {"err": f"SRK table: records end at {w.o}, header says {end}"}
    return {"records": recs, "raw": w.d[start:end], "len": length}


# ------------------------------------------------------------------ reference RoT hashes (the C03 constructions, from the KEYS)
def rsa_key_hash(pub):
    """RKTH v1 entry: SHA-256 over modulus || exponent, both big endian without leading zero bytes."""
    n, e = pub.a, pub.b
    return hashlib.sha256(n.to_bytes((n.bit_length() + 7) // 8, "big") + e.to_bytes((e.bit_length() + 7) // 8, "big")).digest()


def ecc_key_hash(pub):
    return hashlib.new(ECC_HASH[pub.size], pub.blob()).digest()


def ref_rot_hash(kind, pubs):
    """Root-of-trust hash of a key set as the image side defines it: cert block v1 (RSA): SHA-256 over the four 32-byte slots
    (unused = zeros); cert block v2.1 (ECC): the hash of the single key, or the hash over the concatenated key hashes."""
    if kind == "rsa":
        tbl = b"".join(rsa_key_hash(p) for p in pubs) + bytes(32 * (4 - len(pubs)))
        return hashlib.sha256(tbl).digest()
    hs = [ecc_key_hash(p) for p in pubs]
    if len(hs) == 1:
        return hs[0]
    return hashlib.new(ECC_HASH[pubs[0].size], b"".join(hs)).digest()


def srk_record_bytes(pub, flags, hash_name):
    """AHAB SRK record (container version 1) of a key - used for the reference SRK table of the EdgeLock-enclave credentials."""
    if pub.kind == "rsa":
        salg, ksz = 0x22, {256: 5, 384: 6, 512: 7}[pub.size]
        p1 = pub.a.to_bytes(pub.size, "big")
        p2 = pub.b.to_bytes(4, "big")  # anchor rt118x_rsa2048.dc: exponent in four bytes
    else:
        salg, ksz = 0x27, {32: 1, 48: 2, 66: 3}[pub.size]
        p1, p2 = pub.a.to_bytes(pub.size, "big"), pub.b.to_bytes(pub.size, "big")
    halg = {"sha256": 0, "sha384": 1, "sha512": 2}[hash_name]
    return struct.pack("<BHBBBBBHH", 0xE1, 12 + len(p1) + len(p2), salg, halg, ksz, 0, flags, len(p1), len(p2)) + p1 + p2


def ref_srk_table(pubs, flags=0):
    recs = b"".join(srk_record_bytes(p, flags, "sha256" if p.kind == "rsa" else ECC_HASH[p.size]) for p in pubs)
    return struct.pack("<BHB", 0xD7, 4 + len(recs), 0x42) + recs


def rot_hash_from_dc(dc, ele):
    """The value the device compares with its fuses, computed from the credential BYTES alone."""
    if ele:
        return hashlib.sha256(dc["srk"]["raw"]).digest()
    if dc["kind"] == "rsa":
        return hashlib.sha256(dc["meta"]).digest()
    h = ECC_HASH[dc["size"]]
    if dc["nkeys"] == 1:
        return hashlib.new(h, dc["rot_blob"]).digest()
    return hashlib.new(h, b"".join(dc["table"])).digest()


def slot_entries(dc, ele):
    """What the hashed structure of a credential holds per slot, read from the BYTES (short fingerprints, for equality patterns): the four
    32-byte entries of an RSA table, the key hashes of an ECC table (one key: the hash of the embedded key), the records of an SRK table."""
    if ele:
        raw, out, o = dc["srk"]["raw"], [], 4
        for rc in dc["srk"]["records"]:
            out.append(hashlib.sha256(raw[o:o + rc["len"]]).hexdigest()[:16])
            o += rc["len"]
        return out
    if dc["kind"] == "rsa":
        return [t.hex()[:16] for t in dc["table"]]
    if dc["nkeys"] == 1:
        return [hashlib.new(ECC_HASH[dc["size"]], dc["rot_blob"]).hexdigest()[:16]]
    return [t.hex()[:16] for t in dc["table"]]


# ------------------------------------------------------------------ challenge and response
def build_dac(ver, socc, uuid, rkth, challenge, revocation=0, pinned=0, default=0, vu=0):
    """DAC bytes (anchors sample_dac*.bin): version, socc, uuid, revocation, RoT hash, pinned, default, vu, challenge."""
    return struct.pack("<2HL", ver[0], ver[1], socc) + uuid + struct.pack("<L", revocation) + rkth + struct.pack("<3L", pinned, default, vu) + challenge


def walk_dar(data, dc_len, ver):
    """DAR = DC || beacon || [uuid, ECC versions] || signature of the debug-credential key."""
    w = Walk(data)
    dc = w.take("dc", dc_len)
    beacon = w.take("beacon", 4)
    uuid = w.take("uuid", 16) if ver_kind(ver) == "ecc" else b""
    body_end = w.o
    size = ver_size(ver)
    sig = w.take("signature", size if ver_kind(ver) == "rsa" else 2 * size)
    if w.err:
        return {"err": w.err, "fields": w.fields}
    return {"fields": w.fields, "dc": dc, "beacon": le32(beacon, 0), "beacon_b": beacon, "uuid": uuid, "sig": sig, "body_end": body_end,
            "end": w.o, "trailing": len(data) - w.o}


def response_message(dc_bytes, beacon_b, uuid, challenge, binds_uuid):
    """What the device signs-checks: it uses ITS OWN uuid and ITS OWN outstanding challenge."""
    return dc_bytes + beacon_b + (uuid if binds_uuid else b"") + challenge


class Device:
    """The acceptance automaton of the R-spec (Dat.tla: CheckDcSignature, CheckRotHash, CheckDcBinding, CheckResponseSignature)
    run on real bytes. `fuses` = RoT hash burnt into the device, compared over min(len) bytes."""

    def __init__(self, uuid, socc, fuses, ele):
        self.uuid, self.socc, self.fuses, self.ele = uuid, socc, fuses, ele

    def verdict(self, dar_bytes, challenge):
        """Returns (verdict, detail): verdict = 'Accept' or the name of the first check that failed."""
        dc = walk_dc(dar_bytes, self.ele)  # the credential comes first and delimits itself
        if dc.get("err"):
            return "Malformed", dc["err"]
        ver = dc["ver"]
        dar = walk_dar(dar_bytes, dc["end"], ver)
        if dar.get("err") or dar["trailing"]:
            return "Malformed", dar.get("err") or "trailing bytes"
        if not verify(dc["rot_pub"], dc["sig"], dc["signed"], self.dc_scheme(dc)):
            return "CheckDcSignature", ""
        h = rot_hash_from_dc(dc, self.ele)
        n = min(len(h), len(self.fuses))
        if h[:n] != self.fuses[:n] or not self.rot_key_listed(dc):
            return "CheckRotHash", ""
        if dc["socc"] != self.socc or (any(dc["uuid"]) and dc["uuid"] != self.uuid):
            return "CheckDcBinding", ""
        binds = ver_kind(ver) == "ecc"
        if binds and dar["uuid"] != self.uuid:
            return "CheckResponseSignature", "uuid field"
        msg = response_message(dar["dc"], dar["beacon_b"], self.uuid, challenge, binds)
        if dc["dck_pub"] is None or not verify(dc["dck_pub"], dar["sig"], msg, scheme_for(dc["dck_pub"], self.ele)):
            return "CheckResponseSignature", ""
        return "Accept", ""

    def dc_scheme(self, dc):
        if self.ele:
            rec = dc["srk"]["records"][dc["used"]]
            return f"{rec['sign']}-{rec['hash']}"
        return scheme_for(dc["rot_pub"], False) if dc["rot_pub"] else "pkcs1-sha256"

    def rot_key_listed(self, dc):
        """The RoT public key that signed must be the one the hashed structure commits to."""
        if self.ele:
            return True  # the key is taken from the hashed table itself
        if dc["rot_pub"] is None:
            return False
        if dc["kind"] == "rsa":
            return rsa_key_hash(dc["rot_pub"]) in dc["table"]
        if dc["nkeys"] == 1:
            return True  # the hash IS the hash of the key
        return dc["table"][dc["used"]] == ecc_key_hash(dc["rot_pub"])


# ------------------------------------------------------------------ EdgeLock enclave, container version 2 (AHAB certificate + signed message)
# No golden artefact of this variant exists in the repository's tests; the layout follows the format tables in the documentation
# strings of spsdk/image/ahab (certificate, signature block v2, SRK table array, signed message) - listed as an assumption.
def _hdr_vlt(b):
    """AHAB header, version first: version, length LE16, tag."""
    return b[0], struct.unpack_from("<H", b, 1)[0], b[3]


def walk_cert2(data):
    """AHAB certificate version 2 used as debug credential: header, signature offset, permissions, permission data
    (socc, socu, beacon), fuse version, uuid, SRK record + SRK data of the debug key, signature container."""
    w = Walk(data)
    h = w.take("hdr", 4)
    so = w.take("sig_offset", 2)
    perm = w.take("permissions", 2)
    socc = w.take("socc", 4)
    socu = w.take("cc_socu", 4)
    beacon = w.take("cc_beacon", 4)
    fv = w.take("fuse_version", 4)
    uuid = w.take("uuid", 16)
    rec_at = w.o
    rec = w.take("srk_record", 12)
    if w.err:
        return {"err": w.err, "fields": w.fields}
    version, length, tag = _hdr_vlt(h)
    if (version, tag) != (2, 0xAF) or length > len(data):
        return {"err": f"certificate header version {version} tag {tag:#x} length {length}", "fields": w.fields}
    rtag, rlen, salg, halg, ksz, _r, rflags, l1, l2 = struct.unpack("<BHBBBBBHH", rec)
    kind, size = SRK_KEYSIZE.get(ksz, (None, 0))
    if rtag != 0xE1 or rlen != 76 or kind != "ecc" or salg != 0x27 or halg not in SRK_HASH or (l1, l2) != (size, size):
        return {"err": f"certificate SRK record: tag {rtag:#x} length {rlen} alg {salg:#x}/{halg} key {ksz} params {l1}+{l2}", "fields": w.fields}
    dh = w.take("srk_data_hash", 64)
    sd_at = w.o
    sdh = w.take("srk_data_header", 8)
    key = w.take("dck", 2 * size)
    sig_at = w.o
    sh = w.take("sig_header", 8)
    sig = w.take("signature", 2 * size)
    if w.err:
        return {"err": w.err, "fields": w.fields}
    sv, sl, st = _hdr_vlt(sdh)
    gv, gl, gt = _hdr_vlt(sh)
    if (sv, sl, st) != (0, 8 + 2 * size, 0x5D) or (gv, gl, gt) != (0, 8 + 2 * size, 0xD8) or any(sh[4:]):
        return {"err": f"certificate SRK data / signature container headers {sdh.hex()} {sh.hex()}", "fields": w.fields}
    if length != w.o or struct.unpack("<H", so)[0] != sig_at:
        return {"err": f"certificate length {length} / signature offset {struct.unpack('<H', so)[0]}: walked {w.o} / {sig_at}", "fields": w.fields}
    hn = SRK_HASH[halg]
    digest = hashlib.new(hn, data[sd_at:sig_at]).digest()
    return {"fields": w.fields, "end": w.o, "sig_at": sig_at, "sig": sig, "signed": data[:sig_at], "socc": le32(socc, 0), "cc_socu": le32(socu, 0),
            "cc_beacon": le32(beacon, 0), "uuid": uuid, "perm": perm[1], "perm_ok": perm[1] == 0x02 and perm[0] == 0xFD, "fuse_version": fv[0],
            "reserved_ok": not any(fv[1:]), "size": size, "hash": hn, "dck_pub": pub_from_blob("ecc", key, size), "dck_blob": key,
            "srk_hash_ok": dh == digest + bytes(64 - len(digest)), "srk_id": sdh[4], "rec_flags": rflags}


def srk2_record(pub, flags=0, srk_id=0):
    """SRK record (v2) and SRK data container of a key."""
    hn = ECC_HASH[pub.size]
    sd = struct.pack("<BHBB3x", 0, 8 + 2 * pub.size, 0x5D, srk_id) + pub.blob()
    dg = hashlib.new(hn, sd).digest()
    rec = struct.pack("<BHBBBBBHH", 0xE1, 76, 0x27, {"sha256": 0, "sha384": 1, "sha512": 2}[hn], {32: 1, 48: 2, 66: 3}[pub.size], 0, flags, pub.size, pub.size)
    return rec + dg + bytes(64 - len(dg)), sd


def ref_srk_table2(pubs):
    recs = b"".join(srk2_record(p, 0, i)[0] for i, p in enumerate(pubs))
    return struct.pack("<BHB", 0xD7, 4 + len(recs), 0x43) + recs


def walk_msg2(data):
    """Signed message (container version 2) carrying the debug-authentication request: container header, message descriptor,
    message header, payload (challenge vector, beacon), signature block: header, SRK table array (table + data of the used key),
    container signature, certificate."""
    w = Walk(data)
    ch = w.take("container_header", 16)
    w.take("msg_descriptor", 36)
    mh = w.take("msg_header", 8)
    muuid = w.take("msg_uuid", 8)
    chal = w.take("challenge", 32)
    beacon = w.take("beacon", 2)
    sb_at = w.o
    sb = w.take("sigblock_header", 16)
    if w.err:
        return {"err": w.err, "fields": w.fields}
    version, length, tag = _hdr_vlt(ch)
    flags = le32(ch, 4)
    sb_off = struct.unpack_from("<H", ch, 12)[0]
    if (version, tag) != (2, 0x89) or sb_off != sb_at or length > len(data) or mh[6] != 0xC8:
        return {"err": f"container header version {version} tag {tag:#x} length {length} signature block at {sb_off} (walked {sb_at}) command {mh[6]:#x}", "fields": w.fields}
    bv, bl, bt = _hdr_vlt(sb)
    cert_off, srk_off, sig_off, blob_off = struct.unpack_from("<4H", sb, 4)
    if (bv, bt) != (1, 0x90) or srk_off != 16 or blob_off != 0 or sb_at + bl != length:
        return {"err": f"signature block header {sb.hex()}", "fields": w.fields}
    ah = w.take("srk_array_header", 8)
    th_at = w.o
    th = w.take("srk_table_header", 4)
    if w.err:
        return {"err": w.err, "fields": w.fields}
    av, al, at = _hdr_vlt(ah)
    ttag, tlen, tver = th[0], struct.unpack_from("<H", th, 1)[0], th[3]
    if (av, at, ah[4]) != (0, 0x5A, 1) or (ttag, tver, tlen) != (0xD7, 0x43, 4 + 4 * 76):
        return {"err": f"SRK table array / table headers {ah.hex()} {th.hex()}", "fields": w.fields}
    recs = []
    for i in range(4):
        rb = w.take("srk_record", 76)
        if w.err:
            return {"err": w.err, "fields": w.fields}
        rtag, rlen, salg, halg, ksz, _r, rflags, l1, l2 = struct.unpack_from("<BHBBBBBHH", rb, 0)
        kind, size = SRK_KEYSIZE.get(ksz, (None, 0))
        if rtag != 0xE1 or rlen != 76 or kind != "ecc" or salg != 0x27 or halg not in SRK_HASH or (l1, l2) != (size, size):
            return {"err": f"SRK record {i}: {rb[:12].hex()}", "fields": w.fields}
        recs.append({"size": size, "hash": SRK_HASH[halg], "flags": rflags, "digest": rb[12:]})
    table_raw = data[th_at:w.o]
    sd_at = w.o
    sdh = w.take("srk_data_header", 8)
    if w.err:
        return {"err": w.err, "fields": w.fields}
    used = sdh[4]
    sv, sl, st = _hdr_vlt(sdh)
    if used > 3 or st != 0x5D or sv != 0 or sl != 8 + 2 * recs[used]["size"] or ((flags >> 4) & 0xF) != used or len({r_["size"] for r_ in recs}) != 1:
        return {"err": f"SRK data header {sdh.hex()} (container flags {flags:#x})", "fields": w.fields}
    size = recs[used]["size"]
    rot = w.take("rotpub", 2 * size)
    if sb_at + srk_off + al != w.o or sb_at + sig_off != w.o:
        return {"err": f"SRK array length {al} / signature offset {sig_off}: walked to {w.o - sb_at}", "fields": w.fields}
    sig_at = w.o
    sh = w.take("sig_header", 8)
    sig = w.take("signature", 2 * size)
    if w.err:
        return {"err": w.err, "fields": w.fields}
    gv, gl, gt = _hdr_vlt(sh)
    if (gv, gl, gt) != (0, 8 + 2 * size, 0xD8) or any(sh[4:]) or sb_at + cert_off != w.o:
        return {"err": f"signature container header {sh.hex()} / certificate offset {cert_off}: walked to {w.o - sb_at}", "fields": w.fields}
    cert_at = w.o
    cert = w.take("dc", length - w.o)
    pad = w.take("pad", len(data) - w.o)
    if w.err or any(pad) or len(pad) >= 8:
        return {"err": w.err or f"{len(pad)} bytes after the container", "fields": w.fields}
    dg = hashlib.new(recs[used]["hash"], data[sd_at:sig_at]).digest()
    return {"fields": w.fields, "end": w.o, "length": length, "sig_at": sig_at, "sig": sig, "signed": data[:sig_at], "challenge": chal,
            "beacon": struct.unpack("<H", beacon)[0], "msg_uuid": muuid, "cert": cert, "cert_at": cert_at, "used": used, "size": size,
            "rot_pub": pub_from_blob("ecc", rot, size), "table_raw": table_raw, "srk_data_ok": recs[used]["digest"] == dg + bytes(64 - len(dg)),
            "srk_set": flags & 0xF, "recs": recs}


class Device2:
    """Acceptance automaton of an enclave that takes signed messages of container version 2.  The container signature (debug key)
    covers everything from the container header to the SRK table array; the certificate (= the credential) follows the signature and
    is authenticated by its own signature under the selected SRK.  Order of the checks chosen so that the binding check comes last."""

    def __init__(self, uuid, socc, fuses):
        self.uuid, self.socc, self.fuses = uuid, socc, fuses

    def verdict(self, dar_bytes, challenge):
        m = walk_msg2(dar_bytes)
        if m.get("err"):
            return "Malformed", m["err"]
        c = walk_cert2(m["cert"])
        if c.get("err"):
            return "Malformed", c["err"]
        if hashlib.sha512(m["table_raw"]).digest() != self.fuses or not m["srk_data_ok"] or m["srk_set"] != 2:
            return "CheckRotHash", ""
        if m["rot_pub"] is None or not verify(m["rot_pub"], c["sig"], c["signed"], "ecdsa-" + m["recs"][m["used"]]["hash"]):
            return "CheckDcSignature", ""
        if not c["srk_hash_ok"] or c["dck_pub"] is None or not verify(c["dck_pub"], m["sig"], m["signed"], "ecdsa-" + c["hash"]) or m["challenge"] != challenge:
            return "CheckResponseSignature", ""
        if not c["perm_ok"] or c["socc"] != self.socc or (any(c["uuid"]) and c["uuid"] != self.uuid):
            return "CheckDcBinding", ""
        return "Accept", ""


# ------------------------------------------------------------------ the intruder's own tools (he does not use SPSDK)
_priv_cache = {}


def load_priv(path):
    if path not in _priv_cache:
        data = open(path, "rb").read()
        try:
            _priv_cache[path] = serialization.load_pem_private_key(data, None, unsafe_skip_rsa_key_validation=True)
        except TypeError:  # older cryptography
            _priv_cache[path] = serialization.load_pem_private_key(data, None)
    return _priv_cache[path]


def sign(priv, msg, scheme):
    pad, h = scheme.split("-")
    if pad == "pkcs1":
        return priv.sign(msg, padding.PKCS1v15(), HASHES[h]())
    if pad == "pss":
        return priv.sign(msg, padding.PSS(mgf=padding.MGF1(HASHES[h]()), salt_length=padding.PSS.DIGEST_LENGTH), HASHES[h]())
    size = (priv.curve.key_size + 7) // 8
    r, s = autils.decode_dss_signature(priv.sign(msg, ec.ECDSA(HASHES[h]())))
    return r.to_bytes(size, "big") + s.to_bytes(size, "big")


def forge_dc(ele, ver, socc, uuid, socu, vu, beacon, rot_pubs, used, dck_pub, rot_priv):
    """A credential made with the intruder's own tools from the layouts of DatLayout.tla, signed with a key HE owns."""
    kind = ver_kind(ver)
    head = struct.pack("<2HL", ver[0], ver[1], socc) + uuid
    cc = struct.pack("<3L", socu, vu, beacon)
    n = len(rot_pubs)
    if ele:
        dck = dck_pub.a.to_bytes(dck_pub.size, "big") + dck_pub.b.to_bytes(3, "big") if kind == "rsa" else dck_pub.blob()
        body = head + cc + struct.pack("<L", 0x80000000 | (used << 8) | (n << 4)) + ref_srk_table(rot_pubs) + dck
        scheme = ("pss-sha256" if kind == "rsa" else "ecdsa-" + ECC_HASH[rot_pubs[used].size])
    elif kind == "rsa":
        meta = b"".join(rsa_key_hash(p) for p in rot_pubs) + bytes(32 * (4 - n))
        body = head + meta + dck_pub.blob() + cc + rot_pubs[used].blob()
        scheme = "pkcs1-sha256"
    else:
        tbl = b"".join(ecc_key_hash(p) for p in rot_pubs) if n > 1 else b""
        body = head + cc + struct.pack("<L", 0x80000000 | (used << 8) | (n << 4)) + tbl + rot_pubs[used].blob() + dck_pub.blob()
        scheme = "ecdsa-" + ECC_HASH[rot_pubs[used].size]
    return body + sign(rot_priv, body, scheme)


def forge_dar(dc_bytes, beacon, uuid, challenge, binds, dck_priv, scheme):
    body = dc_bytes + struct.pack("<L", beacon) + (uuid if binds else b"")
    return body + sign(dck_priv, body + challenge, scheme)


# ------------------------------------------------------------------ anchors
def selftest_anchors(adir):
    """Run the walkers over the golden artefacts: every credential must be consumed exactly, its signature must verify under the
    embedded RoT key over all preceding bytes. Returns a list of problems (empty = fine)."""
    import os

    bad = []
    for name, ele, want in [
        ("new_dck_rsa2048.cert", False, ([1, 0], 940, 1)),
        ("new_dck_secp256r1.cert", False, ([2, 0], 232, 1)),
        ("lpc55s3x_dck_secp384r1.cert", False, ([2, 1], 520, 4)),
        ("rt118x_ecc256.dc", True, ([2, 0], 476, 4)),
        ("rt118x_rsa2048.dc", True, ([1, 0], 1647, 4)),
    ]:
        data = open(os.path.join(adir, name), "rb").read()
        dc = walk_dc(data, ele)
        if dc.get("err"):
            bad.append(f"{name}: {dc['err']}")
            continue
        if (dc["ver"], dc["end"], dc["nkeys"]) != want or dc["end"] != len(data):
            bad.append(f"{name}: walked {(dc['ver'], dc['end'], dc['nkeys'])}, expected {want}")
            continue
        dev = Device(dc["uuid"], dc["socc"], rot_hash_from_dc(dc, ele), ele)
        if not verify(dc["rot_pub"], dc["sig"], dc["signed"], dev.dc_scheme(dc)):
            bad.append(f"{name}: signature does not verify under the embedded RoT key over bytes 0..{dc['sig_at']}")
        if not dev.rot_key_listed(dc):
            bad.append(f"{name}: RoT key not committed to by the RoT meta data")
        flipped = bytearray(data)
        flipped[9] ^= 0x10
        d2 = walk_dc(bytes(flipped), ele)
        if not d2.get("err") and verify(d2["rot_pub"], d2["sig"], d2["signed"], dev.dc_scheme(d2)):
            bad.append(f"{name}: signature still verifies after a bit flip")
    for name, hl in [("sample_dac.bin", 32), ("sample_dac_ecc.bin", 32), ("sample_dac_lpc55s3x.bin", 48)]:
        data = open(os.path.join(adir, name), "rb").read()
        if len(data) != 28 + hl + 12 + 32:
            bad.append(f"{name}: length {len(data)} does not fit the DAC layout with a {hl}-byte hash")
    return bad
