"""Growth beyond the listed properties: EdgeLock Enclave messaging (spsdk/ele) - host as built against the firmware side of the messaging unit.

spec/SYS/EleMsg.tla        reference model: message table, request words / command data the firmware expects for a call, CRC rules, what the
                           firmware answers in a scenario, what a host must hand to its caller
spec/SYS/EleMsgFlow.tla    design model (device || host || shared memory with history), MODEL CHECKED in several configurations; the host as
                           built is REFUTED twice (success response shorter than the command's payload; bootloader status ignored)
spec/SYS/EleMsgGen.tla     GEN form: TLC enumerates the abstract cases (message class x scenario x history x route)
spec/SYS/EleMsgTrace.tla   TRACE form: what the real EleMessageHandlerMBoot / nxpele did to a packet-level bootloader twin, decided by TLC

Not a registered check: `./check sys_ele` prints OBSERVATION lines and exits 0 (2 on machinery failure)."""
import json
import os
import struct

from lib import tlc
from lib.common import ROOT, Machinery, import_spsdk, rng, say, scratch
from lib.ele_twin import Proto, limbs, word, xor_crc
from lib.par import pmap
from lib.ptv import check_complete, prun

FAMILY = "mimxrt1189"
ANCH = os.path.join(ROOT, "anchors", "SYS", "ele")
SIGNED = ["signed_msg_oem_field_return.bin", "signed_msg_key_exchange.bin"]     # signed_msg_key_import.bin does not pass SignedMessage.verify() on this tree (IV length) - the signed-message lane's matter

# message table of the TWIN (what the firmware of a scenario needs to know): command id, nominal response words, response payload words (without CRC),
# response CRC, payload index (0-based) of the response-data address / declared size (+ which half word)
OPS = {
    "ping": (0x01, 2, 0, False, -1, -1, 0), "enable_apc": (0xD2, 2, 0, False, -1, -1, 0), "enable_rtc": (0xD3, 2, 0, False, -1, -1, 0),
    "reset_apc_ctx": (0xD8, 2, 0, False, -1, -1, 0), "start_trng": (0xA3, 2, 0, False, -1, -1, 0), "release_container": (0x89, 2, 0, False, -1, -1, 0),
    "reset": (0xC7, 0, 0, False, -1, -1, 0), "get_fw_status": (0xC5, 3, 1, False, -1, -1, 0), "get_fw_version": (0x9D, 4, 2, False, -1, -1, 0),
    "get_trng_state": (0xA4, 3, 1, False, -1, -1, 0), "dump_debug": (0x21, 23, 20, True, -1, -1, 0), "get_events": (0xA2, 12, 9, True, -1, -1, 0),
    "read_common_fuse": (0x97, 3, 1, False, -1, -1, 0), "read_shadow_fuse": (0xF3, 3, 1, False, -1, -1, 0), "write_fuse": (0xD6, 3, 1, False, -1, -1, 0),
    "write_shadow_fuse": (0xF2, 2, 0, False, -1, -1, 0), "commit": (0xA8, 3, 1, False, -1, -1, 0), "verify_image": (0x88, 4, 2, False, -1, -1, 0),
    "fwd_lifecycle": (0x95, 2, 0, False, -1, -1, 0), "fw_auth": (0x02, 2, 0, False, -1, -1, 0), "oem_cntn_auth": (0x87, 2, 0, False, -1, -1, 0),
    "get_info": (0xDA, 2, 0, False, 1, 2, 0), "derive_key": (0xA9, 2, 0, False, 1, 4, 0), "keyblob_dek": (0xAF, 2, 0, False, 4, 5, 0),
    "keyblob_otfad": (0xAF, 2, 0, False, 4, 5, 0), "keyblob_iee": (0xAF, 2, 0, False, 4, 5, 0), "load_keyblob": (0xA7, 2, 0, False, -1, -1, 0),
    "signed": (0, 2, 0, False, -1, -1, 0),
}
SIMPLE = {"ping": "EleMessagePing", "enable_apc": "EleMessageEnableApc", "enable_rtc": "EleMessageEnableRtc", "reset_apc_ctx": "EleMessageResetApcContext",
          "start_trng": "EleMessageStartTrng", "release_container": "EleMessageReleaseContainer", "reset": "EleMessageReset",
          "get_fw_status": "EleMessageGetFwStatus", "get_fw_version": "EleMessageGetFwVersion", "get_trng_state": "EleMessageGetTrngState",
          "dump_debug": "EleMessageDumpDebugBuffer", "get_events": "EleMessageGetEvents", "get_info": "EleMessageGetInfo"}
WORDS = [0, 1, 0xFFFFFFFF, 0x80000000, 0x4E219CB1, 0x00010000]
FAULTS = ["tag", "cmd", "version", "size_big", "short", "short1", "crc", "payload"]
MBFAILS = ["wr", "mu", "rd", "rd_short"]


def rb(r, n):
    return bytes(r.getrandbits(8) for _ in range(n))


def rw(r):
    return r.choice(WORDS + [r.getrandbits(32)] * 4)


def make(op, r):
    """-> (constructor thunk, args record of the call event, command id).  The thunk builds the message object of the code under test."""
    from spsdk.ele import ele_constants as K
    from spsdk.ele import ele_message as M

    A = {"n": [], "w": [], "key": [], "ctx": [], "ctr": [], "blob": []}
    cmd = OPS[op][0]
    if op in SIMPLE:
        return (lambda: getattr(M, SIMPLE[op])()), A, cmd
    if op == "read_common_fuse":
        i = r.choice([0, 2, 128, 0xFFFF, r.randrange(2, 600)])
        A["n"] = [i]
        return (lambda: M.EleMessageReadCommonFuse(i)), A, cmd
    if op == "read_shadow_fuse":
        i = r.choice([0, 128, 0x10000, r.getrandbits(32)])
        A["w"] = [word(i)]
        return (lambda: M.EleMessageReadShadowFuse(i)), A, cmd
    if op == "write_fuse":
        idx, ln, lock, v = r.choice([0, 128, 2047, r.randrange(0, 2048)]), r.choice([32, 32, 1, 16, 31]), r.random() < 0.4, rw(r)
        A["n"], A["w"] = [idx * 32, ln, int(lock)], [word(v)]
        return (lambda: M.EleMessageWriteFuse(idx * 32, ln, lock, v)), A, cmd
    if op == "write_shadow_fuse":
        i, v = r.choice([0, 128, r.getrandbits(32)]), rw(r)
        A["w"] = [word(i), word(v)]
        return (lambda: M.EleMessageWriteShadowFuse(i, v)), A, cmd
    if op == "commit":
        items = r.sample(list(K.EleInfo2Commit), r.randrange(1, 5))
        A["n"] = [x.tag for x in items]
        return (lambda: M.EleMessageCommit(items)), A, cmd
    if op == "verify_image":
        v = r.choice([1, 3, 0xFF, rw(r)])
        A["w"] = [word(v)]
        return (lambda: M.EleMessageVerifyImage(v)), A, cmd
    if op == "fwd_lifecycle":
        lc = r.choice(list(K.LifeCycleToSwitch))
        A["n"] = [lc.tag]
        return (lambda: M.EleMessageForwardLifeCycleUpdate(lc)), A, cmd
    if op in ("fw_auth", "oem_cntn_auth"):
        a = r.choice([0x20480000, 0x80001000, 0x1FFE4000, r.getrandbits(32) & ~3])
        A["w"] = [word(a)]
        return (lambda: (M.EleMessageEleFwAuthenticate if op == "fw_auth" else M.EleMessageOemContainerAuthenticate)(a)), A, cmd
    if op == "derive_key":
        ks = r.choice([16, 32])
        ctx = rb(r, r.choice([0, 1, 5, 8, 16, 33, 64, 250]))
        A["n"], A["ctx"] = [ks], list(ctx)
        return (lambda: M.EleMessageDeriveKey(ks, ctx if (ctx or r.random() < 0.5) else None)), A, cmd
    if op == "keyblob_dek":
        alg, kl = r.choice([(K.KeyBlobEncryptionAlgorithm.AES_CBC, 16), (K.KeyBlobEncryptionAlgorithm.AES_CBC, 24), (K.KeyBlobEncryptionAlgorithm.AES_CBC, 32),
                            (K.KeyBlobEncryptionAlgorithm.SM4_CBC, 16)])
        kid, key = rw(r), rb(r, kl)
        A["n"], A["w"], A["key"] = [alg.tag], [word(kid)], list(key)
        return (lambda: M.EleMessageGenerateKeyBlobDek(kid, alg, key)), A, cmd
    if op == "keyblob_otfad":
        kid = r.randrange(0, 4) | (r.choice([1, 2]) << 8)
        key, ctr = rb(r, 16), rb(r, 8)
        start, end = r.choice([0, 0x28000000, r.getrandbits(22) << 10]), r.choice([0, 0x28100000, r.getrandbits(22) << 10])
        ro, de, va = (r.random() < 0.5 for _ in range(3))
        A["n"], A["w"], A["key"], A["ctr"] = [4, 4 * ro + 2 * de + va], [word(kid), word(start), word(end)], list(key), list(ctr)
        return (lambda: M.EleMessageGenerateKeyBLobOtfad(kid, key, ctr, start, end, ro, de, va)), A, cmd
    if op == "keyblob_iee":
        alg, kl = r.choice([(K.KeyBlobEncryptionAlgorithm.AES_XTS, 32), (K.KeyBlobEncryptionAlgorithm.AES_XTS, 64), (K.KeyBlobEncryptionAlgorithm.AES_CTR, 16),
                            (K.KeyBlobEncryptionAlgorithm.AES_CTR, 32)])
        mode = r.choice(list(K.KeyBlobEncryptionIeeCtrModes))
        kid, key, ctr, page, region, byp, lock = rw(r), rb(r, kl), rb(r, 16), rw(r), r.randrange(0, 256), r.random() < 0.5, r.random() < 0.5
        A["n"], A["w"], A["key"], A["ctr"] = [alg.tag, mode.tag, region, int(byp), int(lock)], [word(kid), word(page)], list(key), list(ctr)
        return (lambda: M.EleMessageGenerateKeyBlobIee(kid, alg, key, mode, ctr, page, region, byp, lock)), A, cmd
    if op == "load_keyblob":
        kid, blob = rw(r), rb(r, r.choice([48, 72, 88, 37, 120]))
        A["w"], A["blob"] = [word(kid)], list(blob)
        return (lambda: M.EleMessageLoadKeyBLob(kid, blob)), A, cmd
    if op == "signed":
        blob = open(os.path.join(ANCH, r.choice(SIGNED)), "rb").read()
        A["blob"] = list(blob)
        return (lambda: M.EleMessageSigned(blob, FAMILY)), A, blob[0x3A]          # the command byte of the signed message descriptor
    raise Machinery(f"unknown op {op}")


def answer(op, A, r):
    """What the firmware of this call answers in the success case: response payload words (without CRC) and response data."""
    n = OPS[op][2]
    words = [word(r.getrandbits(32)) for _ in range(n)]
    if op == "get_events":
        words[0] = list(struct.pack("<HH", r.choice([0, 1, 8, 9, 3]), 8))
        words[1:] = [[r.choice([0x29, 0xD6])] + w[1:] for w in words[1:]]      # an event is the status word of a response: its status byte is one of the two
    data = b""
    if op == "get_info":
        ver = r.choice([1, 2, 2])
        data = bytes([0xDA, ver]) + struct.pack("<H", 92 if ver == 1 else 160) + rb(r, 156 if ver == 2 else 88)
        data = data + bytes(256 - len(data))
    elif op == "derive_key":
        data = rb(r, A["n"][0])
    elif op.startswith("keyblob"):
        ln = r.choice([48, 72, 88, 136, 512])
        data = bytes([0]) + struct.pack("<H", ln) + bytes([0x81]) + rb(r, ln - 4)
    return words, data


def decode(op, msg):
    """Projection of the message object after the call: the decoded values as words / bytes (no judgement here)."""
    u16 = lambda v: [v & 0xFF, (v >> 8) & 0xFF, 0, 0]  # noqa: E731
    fw, data = [], b""
    if op in ("read_common_fuse", "read_shadow_fuse"):
        fw = [word(msg.fuse_value)]
    elif op == "get_fw_version":
        fw = [word(msg.ele_fw_version_raw), word(msg.ele_fw_version_sha1)]
    elif op == "verify_image":
        fw = [word(msg.valid_image_mask), word(msg.invalid_image_mask)]
    elif op == "get_fw_status":
        fw = [[msg.ele_fw_status & 0xFF, 0, 0, 0]]
    elif op == "get_trng_state":
        fw = [[msg.ele_trng_state & 0xFF, msg.ele_csal_state & 0xFF, 0, 0]]
    elif op == "write_fuse":
        fw = [u16(msg.processed_idx)]
    elif op == "get_events":
        fw = [u16(msg.event_cnt)] + [word(e) for e in msg.events]
    elif op == "dump_debug":
        fw = [word(x) for x in msg.debug_words]
    elif op == "get_info":
        data = bytes([msg.info_cmd & 0xFF, msg.info_version & 0xFF]) + struct.pack("<HHHHB", msg.info_length, msg.info_soc_id, msg.info_soc_rev, msg.info_life_cycle,
                                                                                   msg.info_sssm_state) + msg.info_uuid + msg.info_sha256_rom_patch + msg.info_sha256_fw
        if msg.info_version == 2:
            data += msg.info_oem_srkh + bytes([msg.info_trng_state, msg.info_csal_state, msg.info_imem_state])
    elif op == "derive_key":
        data = msg.get_key()
    elif op.startswith("keyblob"):
        data = msg.key_blob
    return fw, list(data)


def scenario(status=0xD6, ind=0, abort=0, fault="none", mbfail="none"):
    return {"status": status, "ind": ind, "abort": [abort & 0xFF, abort >> 8], "fault": fault, "mbfail": mbfail}


def norm(e):
    return {"ev": e["ev"], "op": e.get("op", "none"), "cmd": int(e.get("cmd", 0)), "n": e.get("n", []), "w": e.get("w", []), "key": e.get("key", []),
            "ctx": e.get("ctx", []), "ctr": e.get("ctr", []), "blob": e.get("blob", []), "base": e.get("base", [0, 0]), "size": int(e.get("size", 0)),
            "tight": bool(e.get("tight", False)), "scen": e.get("scen", scenario()), "rwords": e.get("rwords", []), "rdata": e.get("rdata", []),
            "a": e.get("a", [0, 0]), "d": e.get("d", []), "ok": bool(e.get("ok", False)), "ca": e.get("ca", [0, 0]), "cn": int(e.get("cn", 0)),
            "ra": e.get("ra", [0, 0]), "rn": int(e.get("rn", 0)), "sub": int(e.get("sub", 0)), "nn": int(e.get("nn", 0)),
            "kind": e.get("kind", "none"), "exc": e.get("exc", "none"), "documented": bool(e.get("documented", True)), "status": int(e.get("status", 0)),
            "ind": int(e.get("ind", 0)), "abort": e.get("abort", [0, 0]), "fw": e.get("fw", []), "data": e.get("data", [])}


def fix_n(e):
    """`n` is the argument list in a call event and the byte count in a rd event: keep both type-stable (rd uses its own field)."""
    return e


def twin_scen(op, cmd, sc, words, data):
    t = OPS[op]
    return dict(sc, cmd=cmd, nresp=t[1], rwords=words, rcrc=t[3], rdata=data, rdata_slot=t[4], rsize_slot=t[5], rsize_half=t[6])


CLI_NAMES = {"ping": "ping", "enable_apc": "enable-apc", "enable_rtc": "enable-rtc", "reset_apc_ctx": "reset-apc-context", "reset": "reset",
             "get_fw_status": "get-ele-fw-status", "get_trng_state": "get-ele-trng-state", "get_fw_version": "get-ele-fw-version", "get_info": "get-info",
             "dump_debug": "dump-debug-data", "get_events": "get-events", "start_trng": "start-trng", "release_container": "release-container"}


def argv_of(op, A, r, tag):
    """The nxpele command line that states the same call as the argument record A (A is adjusted where the tool fixes a value)."""
    from spsdk.ele import ele_constants as K

    u32 = lambda w: struct.unpack("<I", bytes(w))[0]  # noqa: E731
    num = lambda v: r.choice([str(v), hex(v)])  # noqa: E731
    wd = os.path.join(scratch(), "ele-cli")
    os.makedirs(wd, exist_ok=True)

    def tofile(data, name):
        pth = os.path.join(wd, f"{tag}-{name}.bin")
        with open(pth, "wb") as f:
            f.write(bytes(data))
        return pth

    if op in CLI_NAMES:
        return [CLI_NAMES[op]]
    if op == "read_common_fuse":
        return ["read-common-fuse", "-i", num(A["n"][0])]
    if op == "read_shadow_fuse":
        return ["read-shadow-fuse", "-i", num(u32(A["w"][0]))]
    if op == "write_fuse":
        A["n"][1] = 32                                            # the tool writes whole fuse words
        return ["write-fuse", "-i", num(A["n"][0] // 32), "-d", hex(u32(A["w"][0]))] + (["--lock"] if A["n"][2] else [])
    if op == "write_shadow_fuse":
        return ["write-shadow-fuse", "-i", num(u32(A["w"][0])), "-d", hex(u32(A["w"][1]))]
    if op == "commit":
        return ["commit"] + [x for t in A["n"] for x in ("-i", K.EleInfo2Commit.from_tag(t).label)]
    if op == "verify_image":
        return ["verify-image", "-m", hex(u32(A["w"][0]))]
    if op == "fwd_lifecycle":
        return ["forward-lifecycle-update", "-l", K.LifeCycleToSwitch.from_tag(A["n"][0]).label]
    if op in ("fw_auth", "oem_cntn_auth"):
        name = "ele-fw-auth" if op == "fw_auth" else "oem-cntn-auth"
        if A["blob"]:
            return [name, "-b", tofile(A["blob"], "cntn")]
        return [name, "-a", hex(u32(A["w"][0]))]
    if op == "derive_key":
        return ["derive-key", "-s", str(A["n"][0])] + (["-c", tofile(A["ctx"], "ctx")] if A["ctx"] else [])
    if op == "keyblob_dek":
        return ["generate-keyblob", "DEK", "-a", K.KeyBlobEncryptionAlgorithm.from_tag(A["n"][0]).label, "-i", num(u32(A["w"][0])), "-k", bytes(A["key"]).hex(),
                "-s", str(8 * len(A["key"]))]
    if op == "signed":
        return ["signed-message", "-b", tofile(A["blob"], "signed")]
    if op == "load_keyblob":
        return ["load-keyblob", "-i", num(u32(A["w"][0])), "-b", tofile(A["blob"], "blob")]
    raise Machinery(f"no command line for {op}")


def run_one(job):
    """job = (id, [(op, scenario)], cmd_exception, (buffer address, size) | None, route) -> trace record"""
    from spsdk.ele import ele_comm
    from spsdk.ele.ele_comm import EleMessageHandlerMBoot
    from spsdk.exceptions import SPSDKError
    from spsdk.mboot.mcuboot import McuBoot

    jid, calls, exc_mode, buf, route = job
    proto = Proto()
    h = None
    if route == "api":
        mb = McuBoot(proto, cmd_exception=exc_mode)
        h = EleMessageHandlerMBoot(mb, FAMILY, comm_buffer_address_override=buf[0] if buf else None, comm_buffer_size_override=buf[1] if buf else None)
    base, size = (buf if buf else (0x1FFE0000, 0xC000))                 # the communication buffer of the family (device database) unless overridden
    evs, lines = [], []
    for ci, (op_, sc) in enumerate(calls):
        op, _, variant = op_.partition(":")
        r = rng("SYS", "ele", jid, ci)
        thunk, A, cmd = make(op, r)
        if variant == "binary":
            A["w"], A["blob"] = [], list(rb(r, r.choice([64, 200, 1024])))
        words, data = answer(op, A, r)
        proto.scen = twin_scen(op, cmd, sc, words, data)
        proto.trace = []
        res = {"ev": "result", "kind": "ret", "exc": "none", "documented": True}
        seen = []
        if route == "api":
            msg = thunk()
            try:
                with h:
                    h.send_message(msg)
            except SPSDKError as e:
                res.update(kind="exc", exc=type(e).__name__)
            except BaseException as e:  # noqa: BLE001
                res.update(kind="exc", exc=type(e).__name__, documented=False)
            seen = [msg]
        else:
            from click.testing import CliRunner

            from spsdk.apps import nxpele
            from spsdk.mboot.interfaces.uart import MbootUARTInterface

            argv = argv_of(op, A, r, f"{jid}-{ci}")
            MbootUARTInterface.scan_single = classmethod(lambda c, **kw: proto)
            orig = EleMessageHandlerMBoot.send_message

            def spy(self, m, _orig=orig, _seen=seen):                   # observation only: which message object the tool built
                _seen.append(m)
                return _orig(self, m)

            EleMessageHandlerMBoot.send_message = spy
            try:
                pre = ["-f", FAMILY, "-p", "TWIN"] + (["--buffer-addr", hex(buf[0]), "--buffer-size", hex(buf[1])] if buf else [])
                cr = CliRunner().invoke(nxpele.main, pre + argv)
            finally:
                EleMessageHandlerMBoot.send_message = orig
            lines.append(" ".join(argv))
            x = cr.exception
            if x is not None and not (isinstance(x, SystemExit) and x.code in (0, None)):
                res.update(kind="exc", exc=type(x).__name__ + (f"({x.code})" if isinstance(x, SystemExit) else ""),
                           documented=isinstance(x, (SPSDKError, SystemExit)))
            elif cr.exit_code != 0:
                res.update(kind="exc", exc=f"exit({cr.exit_code})")
        call = dict(A, ev="call", op=op, cmd=cmd, base=limbs(base), size=size, tight=size < 2048, scen=sc, rwords=words, rdata=list(data))
        fw, dd = ([], [])
        msg = seen[-1] if seen else None
        if res["kind"] == "ret" and msg is not None:
            try:
                fw, dd = decode(op, msg)
            except BaseException as e:  # noqa: BLE001
                res.update(kind="exc", exc="decode:" + type(e).__name__, documented=False)
        if msg is not None:
            res.update(status=msg.status & 0xFF, ind=msg.indication & 0xFF, abort=[msg.abort_code & 0xFF, (msg.abort_code >> 8) & 0xFF])
        res.update(fw=fw, data=dd)
        evs += [call] + proto.trace + [res]
    if h is not None and (limbs(h.comm_buff_addr), h.comm_buff_size) != (limbs(base), size):
        raise Machinery(f"the handler declares another buffer than the lane assumed: {h.comm_buff_addr:#x} {h.comm_buff_size:#x}")
    for e in evs:
        if e["ev"] == "rd":
            e["nn"] = e.pop("n")
    return {"id": jid, "ev": [norm(e) for e in evs], "job": [jid, [[o, s] for o, s in calls], exc_mode, buf, route], "lines": lines}


def applicable(op, ans):
    cmd, nresp, nrw, rcrc = OPS[op][:4]
    if nresp == 0:
        return ans in ("success", "none")
    if ans == "short":
        return nrw > 0 and (op != "write_fuse" or False)   # the index word of write-fuse is optional in the response; payload-less responses cannot be short
    if ans == "corrupt":
        return rcrc                                      # a damaged payload is detectable only where the response carries a CRC
    return True


def concretise(op, entry, r):
    """One entry of a TLC history (bootloader failure point, firmware answer) -> scenario of the twin."""
    ans, bf = entry["ans"], entry["bf"]
    nrw, rcrc = OPS[op][2], OPS[op][3]
    mb = {"none": "none", "wr": "wr", "mu": "mu", "rd": r.choice(["rd", "rd_short"])}[bf]
    if ans in ("success", "none"):
        return scenario(ind=r.choice([0, 0, 0, 0x0A, 0xB9]), mbfail=mb)
    if ans == "failure":
        st, ind, ab = r.choice([(0x29, 0xF4, 0), (0x29, r.choice([0xA7, 0xB9, 0xAD, 0x00]), r.getrandbits(16)), (0x00, 0, 0), (0xD7, 0x12, 0x3456)])
        return scenario(st, ind, ab, mbfail=mb)
    if ans == "short":
        return scenario(fault=r.choice(["short", "short1"]) if nrw + int(rcrc) >= 2 else "short", mbfail=mb)
    if ans == "corrupt":
        return scenario(fault=r.choice(["crc", "payload"]), mbfail=mb)
    return scenario(fault={"big": "size_big"}.get(ans, ans), mbfail=mb)


CLI_OPS = ["ping", "enable_apc", "enable_rtc", "reset_apc_ctx", "reset", "get_fw_status", "get_trng_state", "get_fw_version", "get_info", "dump_debug",
           "get_events", "start_trng", "release_container", "read_common_fuse", "read_shadow_fuse", "write_fuse", "write_shadow_fuse", "commit", "verify_image",
           "fwd_lifecycle", "fw_auth", "oem_cntn_auth", "derive_key", "keyblob_dek", "signed", "load_keyblob"]


def jobs(tier, hists):
    r = rng("SYS", "ele-jobs")
    out = []

    def add(calls, exc_mode=True, buf=None, route="api"):
        out.append((f"e{len(out) + 1}", calls, exc_mode, buf, route))

    quick = tier == "quick"
    ops = list(OPS)
    for h in hists:
        hist, exc = h["hist"], h["exc"]
        ok = [o for o in ops if all(applicable(o, e["ans"]) for e in hist)]
        plain = all(e["ans"] == "success" and e["bf"] == "none" for e in hist)
        if len(hist) == 1 and exc:
            chosen = ok
        else:
            if quick and len(hist) > 1 and r.random() < 0.5:
                continue
            chosen = r.sample(ok, min(len(ok), (1 if quick else 3) if len(hist) > 1 else (3 if quick else 8)))
        for o in chosen:
            for _ in range((2 if quick else 8) if plain and len(hist) == 1 else 1):
                route = "cli" if (exc and len(hist) == 1 and o in CLI_OPS and r.random() < (0.5 if plain else 0.3)) else "api"
                add([(o, concretise(o, e, r)) for e in hist], exc_mode=exc, route=route)
    # multi-message flows over one handler (the buffers are re-used from message to message)
    flows = [["get_fw_status", "get_info", "get_fw_version"], ["start_trng", "get_trng_state", "derive_key"], ["write_fuse", "read_common_fuse", "get_events"],
             ["keyblob_dek", "keyblob_otfad", "keyblob_iee", "load_keyblob"], ["oem_cntn_auth", "verify_image", "release_container"],
             ["signed", "get_events", "commit"], ["fw_auth", "get_fw_status", "ping", "dump_debug"], ["get_info", "fwd_lifecycle", "get_info"]]
    for fl in flows:
        for _ in range(2 if quick else 8):
            add([(o, scenario()) for o in fl])
        k = r.randrange(len(fl))
        add([(o, scenario(0x29, 0xB1, 3) if i == k else scenario()) for i, o in enumerate(fl)])
    # the tool loads the container itself (ele-fw-auth -b / oem-cntn-auth -b): the place it chose must hold the container when the firmware looks
    for o in ("fw_auth", "oem_cntn_auth"):
        for _ in range(2 if quick else 6):
            add([(o + ":binary", scenario())], route="cli")
    # other declared buffers: moved, small, tight
    for op in ("ping", "read_common_fuse", "get_info", "derive_key", "keyblob_dek", "load_keyblob", "signed", "get_events"):
        for buf in [(0x20484000, 0x4000), (0x1FFE0004, 0x2000), (0x1FFE000C, 0x1000), (0x8380FFF0, 0x2000), (0x1FFE0000, 1024), (0x1FFE0000, 600), (0x1FFE0000, 64),
                    (0x1FFE0000, 16)]:
            add([(op, scenario())], buf=buf, route=r.choice(["api", "api", "cli"]) if op in CLI_OPS else "api")
    return out


OP_KEYS = ("values-not-the-firmware's", "data-not-the-firmware's", "status-word-not-the-firmware's", "failure-status-not-surfaced", "fails-without-cause")


def classify(t, matched, evname, why):
    """-> (key, message class).  The verdict is TLC's (why = the clause of EleMsgTrace.tla that failed); this only names the class:
    clause / cause of the scenario / host mode; the message class is part of the key where the clause is about one class's encoding or decoding."""
    calls = [i for i, e in enumerate(t["ev"][:matched + 1]) if e["ev"] == "call"]
    c = t["ev"][calls[-1]] if calls else t["ev"][0]
    sc = c["scen"]
    mode = "" if t["job"][2] else "/status-codes-instead-of-exceptions"
    cause = sc["fault"] if sc["fault"] != "none" else "success" if sc["status"] == 0xD6 else "firmware-says-no"
    if sc["mbfail"] != "none" and (mode or cause == "success"):
        cause = "bootloader-" + sc["mbfail"]
    op = c["op"] + (":binary" if c["op"] in ("fw_auth", "oem_cntn_auth") and c["blob"] else "")
    if evname in ("dev", "rd", "call") or why == "ok":
        return f"twin-disagrees-with-automaton/{evname}", op
    if evname == "result":
        res = t["ev"][matched]
        extra = f":{res['exc']}" if why in ("undocumented-exception", "fails-without-cause") else ""
        m = mode if cause.startswith("bootloader-") else ""
        # the message class is part of the key, except in the status-code mode (its histories are sampled: the classes met there vary with the seed)
        return f"{why}{extra}/{cause}" + (f"/{op}" if (why in OP_KEYS or not mode) else "") + m, op
    stale = sc["mbfail"] == "wr" and not t["job"][2]           # the request words in memory are the ones of the message before (or nobody's)
    return ("request-left-from-the-message-before/bootloader-wr" + mode) if stale else f"request/{op}/{why}", op


MC = (("EleMsgFlow_ideal.cfg", None), ("EleMsgFlow_ideal3.cfg", None), ("EleMsgFlow_built_noshort.cfg", None), ("EleMsgFlow_built.cfg", "NoFalseSuccess"),
      ("EleMsgFlow_statuscodes.cfg", "NoFalseSuccess"), ("EleMsgFlow_crclog.cfg", "NoFalseSuccess"), ("EleMsgFlow_reach.cfg", "Reach"))
MC_ACTIONS = ["HostWrite", "HostWriteFails", "HostMu", "HostMuFails", "DevSuccess", "DevFailure", "DevShort", "DevBadTag", "DevBadCmd", "DevBadVersion", "DevTooBig",
              "DevCorrupt", "HostRead", "HostReadFails", "HostCheck", "NextMsg", "Done"]
GEN = ("EleMsgGen_1_TRUE.cfg", "EleMsgGen_1_FALSE.cfg", "EleMsgGen_2_TRUE.cfg", "EleMsgGen_2_FALSE.cfg")


def model_check(tier):
    """The design model in its configurations (ideal host holds, each as-built variant is refuted, success reachable) + the GEN runs. -> (evidence, histories)"""
    cfgs = [c for c in MC if tier == "thorough" or c[0] != "EleMsgFlow_ideal3.cfg"]
    js = [("run", ("SYS", "EleMsgFlow", cfg), dict(workers=1, deadlock=False, coverage=True, timeout=600)) for cfg, _ in cfgs]
    js += [("run", ("SYS", "EleMsgGen", cfg), dict(workers=1, deadlock=False, timeout=600)) for cfg in GEN]
    results = prun(js, procs=6)
    res = {}
    for (cfg, want), g in zip(cfgs, results):
        res[cfg] = {"violated": g.violated, "distinct": g.distinct, "generated": g.generated}
        if (g.violated or None) != want:
            raise Machinery(f"EleMsgFlow {cfg}: violated={g.violated}, expected {want}\n" + "\n".join(g.out.splitlines()[-30:]))
        if want is None:
            if not g.no_error:
                raise Machinery(f"EleMsgFlow {cfg}: model checking did not complete\n" + "\n".join(g.out.splitlines()[-30:]))
            skip = {"DevShort"} if "noshort" in cfg else set()
            vac = [a for a in MC_ACTIONS if a not in skip and g.coverage.get(a, (0, 0))[1] == 0]
            if vac:
                raise Machinery(f"EleMsgFlow {cfg}: vacuous actions {vac} (coverage {g.coverage})")
    hists = {}
    for cfg, g in zip(GEN, results[len(cfgs):]):
        if g.violated or not g.no_error:
            raise Machinery(f"EleMsgGen {cfg} did not complete:\n" + "\n".join(g.out.splitlines()[-30:]))
        for j in g.json_prints():
            hists[json.dumps(j, sort_keys=True)] = j
        res[cfg] = {"distinct": g.distinct, "generated": g.generated}
    hs = [hists[k] for k in sorted(hists)]
    if len(hs) < 100:
        raise Machinery(f"EleMsgGen produced only {len(hs)} histories")
    res["histories"] = len(hs)
    return res, hs


def canary():
    """Hand-written traces (no SPSDK): a read-common-fuse exchange as the golden words of tests/ele define it; corrupted copies must be rejected."""
    base, size = limbs(0x1FFE0000), 0xC000
    A = {"n": [128], "w": [], "key": [], "ctx": [], "ctr": [], "blob": []}
    call = dict(A, ev="call", op="read_common_fuse", cmd=0x97, base=base, size=size, scen=scenario(), rwords=[word(0x4E219CB1)], rdata=[])
    req = [0x06, 0x02, 0x97, 0x17, 0x80, 0x00, 0x00, 0x00]
    resp = [0x06, 0x03, 0x97, 0xE1, 0xD6, 0x00, 0x00, 0x00, 0xB1, 0x9C, 0x21, 0x4E]
    wr = {"ev": "wr", "a": limbs(0x1FFE0000), "d": req, "ok": True}
    mu = {"ev": "mu", "ca": limbs(0x1FFE0000), "cn": 2, "ra": limbs(0x1FFE0008), "rn": 3, "ok": True, "sub": 0}
    dev = {"ev": "dev", "w": [{"a": limbs(0x1FFE0008), "d": resp}]}
    rd = {"ev": "rd", "a": limbs(0x1FFE0008), "nn": 12, "d": resp, "ok": True}
    res = {"ev": "result", "kind": "ret", "status": 0xD6, "ind": 0, "abort": [0, 0], "fw": [word(0x4E219CB1)], "data": []}
    good = [call, wr, mu, dev, rd, res]

    def variant(i, **k):
        evs = [dict(e) for e in good]
        evs[i].update(k)
        return evs

    cases = {"c-good": good,
             "c-word": variant(1, d=req[:4] + [0x81, 0, 0, 0]),                     # another fuse index reaches the firmware
             "c-size": variant(1, d=[0x06, 0x03] + req[2:]),                         # header size field
             "c-value": variant(5, fw=[word(0x4E219CB0)]),                           # the caller gets another value
             "c-addr": [call, dict(wr, a=limbs(0x1FFEC000)), dict(mu, ca=limbs(0x1FFEC000)), dev, rd, res],      # command outside the declared buffer
             "c-false": [dict(call, scen=scenario(0x29, 0xF4, 0)), wr, mu, dict(dev, w=[{"a": limbs(0x1FFE0008), "d": [0x06, 0x02, 0x97, 0xE1, 0x29, 0xF4, 0, 0]}]),
                         dict(rd, d=[0x06, 0x02, 0x97, 0xE1, 0x29, 0xF4, 0, 0] + resp[8:]), dict(res, status=0x29, ind=0xF4)]}     # success although the firmware said no
    rej, res_ = tlc.tv("SYS", "EleMsgTrace", [{"id": k, "ev": [norm(e) for e in v]} for k, v in cases.items()])
    check_complete(res_, len(cases))
    want = {"c-word": "word-1", "c-size": "word-0", "c-value": "values-not-the-firmware's", "c-addr": "write-outside-declared-buffer", "c-false": "false-success"}
    got = {k: v[3] for k, v in rej.items()}
    if got != want:
        raise Machinery(f"ELE canary failed: rejected {got}, expected {want}")
    return got


def run(tier):
    import_spsdk()
    mc, hists = model_check(tier)
    can = canary()
    js = jobs(tier, hists)
    traces = pmap(run_one, js, chunksize=4)
    rej, res = tlc.tv("SYS", "EleMsgTrace", [{"id": t["id"], "ev": t["ev"]} for t in traces], heap="4g")
    check_complete(res, len(traces))
    by = {t["id"]: t for t in traces}
    raw = {}
    for tid, (matched, length, evname, why) in rej.items():
        k, op = classify(by[tid], matched, evname, why)
        raw.setdefault(k, {}).setdefault(op, []).append(by[tid]["job"])
    classes, opsof = {}, {}
    for k, per in raw.items():
        classes[k] = [j for o in sorted(per) for j in per[o]]
        opsof[k] = sorted(per)
    ncalls = sum(1 for t in traces for e in t["ev"] if e["ev"] == "call")
    out = {"design_model": mc, "canary": can, "executions": len(traces), "messages": ncalls, "rejected": len(rej),
           "tv": {"distinct": res.distinct, "generated": res.generated, "wall": round(res.wall, 1)},
           "classes": {k: {"count": len(v), "message_classes": opsof[k], "example": v[0]} for k, v in sorted(classes.items())}}
    os.makedirs(os.path.join(ROOT, "evidence", "extras"), exist_ok=True)
    with open(os.path.join(ROOT, "evidence", "extras", "sys_ele.json"), "w") as f:
        json.dump(out, f, indent=1)
    for k, v in sorted(classes.items()):
        say(f"OBSERVATION: sys_ele {k} ({len(v)}x; message classes: {','.join(opsof[k])}; e.g. {json.dumps(v[0])[:200]})")
    if any(k.startswith("twin-disagrees") for k in classes):
        raise Machinery("the bootloader twin and the firmware automaton of EleMsgTrace.tla disagree")
    say(f"[SYS/ele] tier={tier} executions={len(traces)} messages={ncalls} rejected={len(rej)} classes={len(classes)} (observations only - not a listed property)")
    return 0


def replay(path):
    return run("quick")
