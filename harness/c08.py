"""C08 - keys and signatures: serialisation is lossless, sign / verify is sound, raw <-> DER converts without loss.

spec/C08/KeyCodec.tla  R-spec 1: the LENGTH ALGEBRA of encodings (key = type, size, leading-byte profile; ECDSA signature =
                       byte length and top bit of r and s), the requirement clauses of the pure codec, the sign / verify
                       parameter matrix, and an I-spec of SPSDK's length-based sniffing (prediction / classification only).
spec/C08/KeyFlow.tla   R-spec 2: the life of a key (export / parse through every format, password, entry point, party) and
                       of a signature (sign / re-encode / tamper / verify through every parameter set and party).
 MC   KeyCodecMC: lemmas over all 30 473 (curve, length profile) cases + emission of the cases;  KeyFlow: complete state graph,
      action properties (only the diagonal verifies, tampering is forever, parse succeeds iff the password matches ...).
 GEN  KeyFlowGen: behaviours of the two flows (exhaustive to a small depth, -simulate for long ones; menu "sweep" = the shape
      Sign - flip one bit - Verify, whose bit position the harness sweeps over every bit of signature / message; menu "pw" =
      Export with a password - Parse for every password class of the spec x everything that may be offered to the container;
      menu "src" = Sign from a private-key FILE (library signature provider / nxpcrypto signature create) for every parameter
      set x every way the password reaches the signer: file open, argument, provider configuration, typed at the prompt).
 EXEC this module: builds integers / picks pool keys with exactly the requested profile, runs SPSDK (library and the
      `nxpcrypto` command line) and the independent base (`cryptography` called directly with the standard parameters;
      pure-Python verification and key construction in lib/refpk.py) in both directions and LOGS facts.  It never compares
      SPSDK with an expectation of its own.
 TV   KeyCodecTrace / KeyFlowTrace: TLC decides every observation / every trace.
"""
import json
import os
import sys

from lib import refpk, tlc
from lib.common import ROOT, Machinery, import_spsdk, rng, say, scratch
from lib.par import pmap
from lib.verdict import Verdict

PROP = "C08"
POOL = os.path.join(ROOT, "keys", "c08")
WRONG = "not the password"
# ---- the password classes of KeyFlow.tla (PwClasses) as concrete texts; TLC checks the shape of every text used against its
# class (PwBinds) and the harness checks that the table and the spec name the same classes
_PWB = "Verif-C08pw"
_PWLONG = "".join(chr(33 + (i * 7) % 90) for i in range(200))
PWS = {
    "plain": _PWB, "lead-sp": " " + _PWB, "trail-sp": _PWB + " ", "both-sp": " " + _PWB + " ", "lead-tab": "\t" + _PWB,
    "trail-tab": _PWB + "\t", "trail-cr": _PWB + "\r", "trail-lf": _PWB + "\n", "trail-crlf": _PWB + "\r\n", "lead-lf": "\n" + _PWB,
    "trail-nbsp": _PWB + "\u00a0", "inner-sp": "Verif C08 pw", "upper": _PWB.upper(),
    "non-ascii": "Verif-C08 pass\u00e9", "non-ascii-nfd": "Verif-C08 passe\u0301",
    "long": _PWLONG, "long-cut": _PWLONG[:72], "single": "x", "single-sp": "x ", "blank": " ",
}
PW = PWS["non-ascii"]  # the password of encrypted key files handed to the command line
_WS = {9, 10, 11, 12, 13, 28, 29, 30, 31, 32, 133, 160}


def pw_text(cls):
    """The text of a password class of the spec ('none' = no password, 'wrong' = an unrelated text)."""
    return None if cls == "none" else WRONG if cls == "wrong" else PWS[cls]


def pw_shape(text):
    """Facts about a password text for PwBinds: code points only, nothing about what any library does with it."""
    cp = [ord(ch) for ch in (text or "")]
    if not cp:
        return {"n": 0, "first": 0, "last": 0, "prev": 0, "inner": 0, "hi": 0, "comb": 0, "lower": 0}
    return {"n": len(cp), "first": cp[0], "last": cp[-1], "prev": cp[-2] if len(cp) > 1 else 0,
            "inner": sum(1 for c in cp[1:-1] if c in _WS), "hi": sum(1 for c in cp if c >= 128 and c not in _WS),
            "comb": sum(1 for c in cp if 0x300 <= c <= 0x36F), "lower": sum(1 for c in cp if 97 <= c <= 122)}
CURVE_OF_BITS = {256: "secp256r1", 384: "secp384r1", 521: "secp521r1"}
HASHES = ("sha256", "sha384", "sha512")


# ================================================================================================ independent base
def _c():
    """`cryptography`, used DIRECTLY (never through spsdk.crypto)."""
    from cryptography.exceptions import InvalidSignature
    from cryptography.hazmat.primitives import hashes, serialization
    from cryptography.hazmat.primitives.asymmetric import ec, padding, rsa, utils

    return dict(InvalidSignature=InvalidSignature, hashes=hashes, S=serialization, ec=ec, padding=padding, rsa=rsa, utils=utils)


def c_hash(name):
    h = _c()["hashes"]
    return {"sha256": h.SHA256, "sha384": h.SHA384, "sha512": h.SHA512}[name]()


def c_curve(bits):
    ec = _c()["ec"]
    return {256: ec.SECP256R1, 384: ec.SECP384R1, 521: ec.SECP521R1}[bits]()


class Key:
    """One concrete pool key: the `cryptography` private key object and its numbers."""

    def __init__(self, kt, size, prof, priv):
        self.kt, self.size, self.prof, self.priv = kt, size, prof, priv
        pn = priv.public_key().public_numbers()
        if kt == "rsa":
            self.pubnum = ("rsa", pn.n, pn.e)
            self.privnum = ("rsa", priv.private_numbers().d, pn.n, pn.e)
            nb = pn.n.to_bytes((pn.n.bit_length() + 7) // 8, "big")
            self.xl, self.yl = [nb[0], nb[1]], [0, 0]
        else:
            c = (size + 7) // 8
            self.pubnum = ("ecc", size, pn.x, pn.y)
            self.privnum = ("ecc", size, priv.private_numbers().private_value)
            self.xl, self.yl = list(pn.x.to_bytes(c, "big")[:2]), list(pn.y.to_bytes(c, "big")[:2])
        self.dflt = None

    @property
    def name(self):
        return f"{self.kt}{self.size}/{self.prof}"


_pool = None


def pool():
    """{(kt, size): [Key, ...]} - every EC point is re-derived with `cryptography` from the stored scalar."""
    global _pool
    if _pool is not None:
        return _pool
    C = _c()
    path = os.path.join(POOL, "ec_pool.json")
    if not os.path.exists(path):
        raise Machinery(f"key pool missing: {path} (run harness/c08_pool.py)")
    res = {}
    data = json.load(open(path))
    for bits, curve in CURVE_OF_BITS.items():
        keys = []
        for prof, d in sorted(data[curve].items()):
            priv = C["ec"].derive_private_key(int(d, 16), c_curve(bits))
            keys.append(Key("ecc", bits, prof, priv))
        res[("ecc", bits)] = keys
    for bits in (2048, 3072, 4096):
        keys = []
        for tag in "ab":
            with open(os.path.join(POOL, f"rsa{bits}_{tag}.pem"), "rb") as f:
                priv = C["S"].load_pem_private_key(f.read(), None)
            if priv.key_size != bits or priv.public_key().public_numbers().e != 65537:
                raise Machinery(f"pool key rsa{bits}_{tag} is not an RSA-{bits} key with e = 65537")
            keys.append(Key("rsa", bits, tag, priv))
        res[("rsa", bits)] = keys
    _pool = res
    return res


def numbers_of(obj, kk):
    """Numbers of a `cryptography` key object (private or public) in the shape of Key.privnum / Key.pubnum."""
    C = _c()
    if kk == "priv":
        if isinstance(obj, C["rsa"].RSAPrivateKey):
            p = obj.private_numbers()
            return ("rsa", p.d, p.public_numbers.n, p.public_numbers.e)
        if isinstance(obj, C["ec"].EllipticCurvePrivateKey):
            return ("ecc", obj.curve.key_size, obj.private_numbers().private_value)
        return ("?", repr(type(obj)))
    if isinstance(obj, C["rsa"].RSAPublicKey):
        p = obj.public_numbers()
        return ("rsa", p.n, p.e)
    if isinstance(obj, C["ec"].EllipticCurvePublicKey):
        p = obj.public_numbers()
        return ("ecc", obj.curve.key_size, p.x, p.y)
    return ("?", repr(type(obj)))


def nxp_bytes(pubnum, el):
    if pubnum[0] == "rsa":
        n, e = pubnum[1], pubnum[2]
        return n.to_bytes((n.bit_length() + 7) // 8, "big") + e.to_bytes(el, "big")
    c = (pubnum[1] + 7) // 8
    return pubnum[2].to_bytes(c, "big") + pubnum[3].to_bytes(c, "big")


def indep_export(cobj, kk, kt, fmt, pwd, el):
    """Export with `cryptography` directly, in the container conventions of the supported serialisations."""
    S = _c()["S"]
    if fmt == "NXP":
        return nxp_bytes(numbers_of(cobj, "pub"), el)
    enc = {"PEM": S.Encoding.PEM, "DER": S.Encoding.DER}[fmt]
    if kk == "priv":
        prot = S.BestAvailableEncryption(pw_text(pwd).encode("utf-8")) if pwd != "none" else S.NoEncryption()
        return cobj.private_bytes(enc, S.PrivateFormat.PKCS8, prot)
    return cobj.public_bytes(enc, S.PublicFormat.PKCS1 if kt == "rsa" else S.PublicFormat.SubjectPublicKeyInfo)


def indep_parse(data, kk, kt, size, fmt, password):
    """Parse with `cryptography` directly (NXP: split by the documented fixed widths) -> cryptography key object."""
    C = _c()
    S = C["S"]
    if fmt == "NXP":
        if kt == "rsa":
            k = size // 8
            if len(data) not in (k + 3, k + 4):
                raise ValueError("NXP RSA length")
            return C["rsa"].RSAPublicNumbers(int.from_bytes(data[k:], "big"), int.from_bytes(data[:k], "big")).public_key()
        c = (size + 7) // 8
        if len(data) != 2 * c:
            raise ValueError("NXP ECC length")
        return C["ec"].EllipticCurvePublicNumbers(int.from_bytes(data[:c], "big"), int.from_bytes(data[c:], "big"), c_curve(size)).public_key()
    pw = password.encode("utf-8") if password else None
    if kk == "priv":
        return (S.load_pem_private_key if fmt == "PEM" else S.load_der_private_key)(data, pw, unsafe_skip_rsa_key_validation=True)
    return (S.load_pem_public_key if fmt == "PEM" else S.load_der_public_key)(data)


def der_payload_len(data, fmt):
    if fmt == "DER":
        return len(data)
    if fmt == "PEM":
        import base64

        body = b"".join(l for l in data.splitlines() if l and not l.startswith(b"-----"))
        try:
            return len(base64.b64decode(body))
        except Exception:  # noqa: BLE001
            return -1
    return 0


def is_encrypted(data, fmt, password):
    """Independent fact: the private-key container does not open without a password (password: the text it was made with)."""
    S = _c()["S"]
    try:
        (S.load_pem_private_key if fmt == "PEM" else S.load_der_private_key)(data, None, unsafe_skip_rsa_key_validation=True)
        return False
    except TypeError:
        return True
    except ValueError:
        # DER: an encrypted PKCS#8 blob is not a PrivateKeyInfo -> it is encrypted iff it opens WITH the password
        try:
            if not password:
                return False
            (S.load_pem_private_key if fmt == "PEM" else S.load_der_private_key)(data, password.encode("utf-8"), unsafe_skip_rsa_key_validation=True)
            return True
        except Exception:  # noqa: BLE001
            return False


def sig_rs(kt, size, enc, sig):
    """(r, s) of an ECDSA signature in the claimed encoding, by the pure-Python codec; None if it is not that encoding."""
    if kt != "ecc":
        return None
    c = (size + 7) // 8
    if enc == "raw":
        if len(sig) != 2 * c:
            return None
        return int.from_bytes(sig[:c], "big"), int.from_bytes(sig[c:], "big")
    try:
        return refpk.der_sig_decode(sig)
    except ValueError:
        return None


def enc_rs(size, enc, r, s):
    c = (size + 7) // 8
    if enc == "raw":
        return r.to_bytes(c, "big") + s.to_bytes(c, "big")
    return refpk.der_sig(r, s)


def prof_of(v):
    b = v.to_bytes(max(1, (v.bit_length() + 7) // 8), "big")
    return len(b), b[0]


def indep_sign(key, P, eff_hash, msg):
    C = _c()
    data = refpk.digest(eff_hash, msg) if P["pre"] else msg
    alg = C["utils"].Prehashed(c_hash(eff_hash)) if P["pre"] else c_hash(eff_hash)
    if key.kt == "rsa":
        pad = (C["padding"].PSS(mgf=C["padding"].MGF1(c_hash(eff_hash)), salt_length=HASH_LEN[eff_hash]) if P["pad"] == "pss"
               else C["padding"].PKCS1v15())
        return key.priv.sign(data, pad, alg)
    der = key.priv.sign(data, C["ec"].ECDSA(alg))
    if P["enc"] == "der":
        return der
    r, s = refpk.der_sig_decode(der)
    return enc_rs(key.size, "raw", r, s)


HASH_LEN = {"sha256": 32, "sha384": 48, "sha512": 64}


def indep_verify(key, Q, eff_hash, sig, enc, msg):
    """`cryptography` directly: PKCS#1 v1.5, or PSS with MGF1 of the same hash and salt length = digest length; ECDSA on DER."""
    C = _c()
    data = refpk.digest(eff_hash, msg) if Q["pre"] else msg
    alg = C["utils"].Prehashed(c_hash(eff_hash)) if Q["pre"] else c_hash(eff_hash)
    pub = key.priv.public_key()
    try:
        if key.kt == "rsa":
            pad = (C["padding"].PSS(mgf=C["padding"].MGF1(c_hash(eff_hash)), salt_length=HASH_LEN[eff_hash]) if Q["pad"] == "pss"
                   else C["padding"].PKCS1v15())
            pub.verify(sig, data, pad, alg)
        else:
            if enc == "raw":
                c = (key.size + 7) // 8
                if len(sig) != 2 * c:
                    return "false"
                sig = refpk.der_sig(int.from_bytes(sig[:c], "big"), int.from_bytes(sig[c:], "big"))
            pub.verify(sig, data, C["ec"].ECDSA(alg))
        return "true"
    except C["InvalidSignature"]:
        return "false"
    except ValueError:  # a signature the library cannot even decode does not verify
        return "false"


def pure_verify(key, Q, eff_hash, sig, enc, msg):
    dig = refpk.digest(eff_hash, msg)
    if key.kt == "rsa":
        _, n, e = key.pubnum
        ok = (refpk.rsa_verify_pss if Q["pad"] == "pss" else refpk.rsa_verify_v15)(n, e, eff_hash, dig, sig)
        return "true" if ok else "false"
    rs = sig_rs("ecc", key.size, enc, sig)
    if rs is None:
        return "false"
    return "true" if refpk.ecdsa_verify(CURVE_OF_BITS[key.size], (key.pubnum[2], key.pubnum[3]), dig, rs[0], rs[1]) else "false"


# ================================================================================================ SPSDK side
def sp():
    """The SPSDK names under test."""
    from spsdk.crypto import keys as K
    from spsdk.crypto.crypto_types import SPSDKEncoding
    from spsdk.crypto.hash import EnumHashAlgorithm
    from spsdk.crypto.signature_provider import SignatureProvider
    from spsdk.crypto.utils import extract_public_key_from_data
    from spsdk.exceptions import SPSDKError

    return dict(K=K, ENC={"PEM": SPSDKEncoding.PEM, "DER": SPSDKEncoding.DER, "NXP": SPSDKEncoding.NXP, "raw": SPSDKEncoding.NXP, "der": SPSDKEncoding.DER},
                ALG={"sha256": EnumHashAlgorithm.SHA256, "sha384": EnumHashAlgorithm.SHA384, "sha512": EnumHashAlgorithm.SHA512, "default": None},
                SP=SignatureProvider, extract=extract_public_key_from_data, Err=SPSDKError)


_fixed_sp = None


def fixed_provider(sig, length):
    """A SignatureProvider whose sign() returns the given bytes (a plugin / HSM that answers in raw resp. DER form)."""
    global _fixed_sp
    if _fixed_sp is None:
        base = sp()["SP"]

        class VerifFixedSP(base):  # noqa: D101
            identifier = "verif-c08-fixed"

            def __init__(self, sig, length):
                self._sig, self._len = sig, length

            def sign(self, data):
                return self._sig

            @property
            def signature_length(self):
                return self._len

        _fixed_sp = VerifFixedSP
    return _fixed_sp(sig, length)


_cli = None


def cli():
    """`nxpcrypto` in process (click test runner)."""
    global _cli
    if _cli is None:
        from click.testing import CliRunner
        from spsdk.apps import nxpcrypto

        _cli = (CliRunner(), nxpcrypto.main)
    return _cli


_cli_n = [0]


def cli_file(suffix, data=None):
    d = os.path.join(scratch(), f"c08-cli-{os.getpid()}")
    os.makedirs(d, exist_ok=True)
    _cli_n[0] += 1
    path = os.path.join(d, f"f{_cli_n[0]}.{suffix}")
    if data is not None:
        with open(path, "wb") as f:
            f.write(data)
    return path


def run_cli(args):
    """-> (ok, output, error text)"""
    runner, main = cli()
    r = runner.invoke(main, args)
    err = None
    if r.exit_code != 0:
        err = f"exit {r.exit_code}: {type(r.exception).__name__ if r.exception else ''} {str(r.exception)[:120] if r.exception else r.output[-120:]}"
    return r.exit_code == 0, r.output, err


def cli_rm(*paths):
    for p in paths:
        try:
            os.remove(p)
        except OSError:
            pass


SIGMEMO = {}


class Typist:
    """The user at the passphrase prompt: while active, getpass.getpass (what SPSDK's prompt_for_passphrase asks through) answers
    with the given text and counts how often it was asked.  Patched in THIS (worker) process only, restored on exit."""

    def __init__(self, text):
        self.text, self.asked, self.saved = text, 0, []

    def _answer(self, prompt=None, stream=None):
        self.asked += 1
        return self.text

    def __enter__(self):
        import getpass

        K = sp()["K"]
        if getattr(K, "SPSDK_INTERACTIVE_DISABLED", False):
            raise Machinery("SPSDK_INTERACTIVE_DISABLED is set: the passphrase prompt cannot be exercised")
        self.saved = [(getpass, "getpass", getpass.getpass)]
        if callable(getattr(K, "getpass", None)):  # `from getpass import getpass` - never let a real prompt read the terminal
            self.saved.append((K, "getpass", K.getpass))
        for mod, name, _ in self.saved:
            setattr(mod, name, self._answer)
        return self

    def __exit__(self, *exc):
        for mod, name, old in self.saved:
            setattr(mod, name, old)
        return False


def file_sign(key, P, msg, r_, by, src):
    """A signature made from a private-key FILE.  by "sp": the library's signature provider (get_signature_provider ->
    InteractivePlainFileSP / PlainFileSP -> SignatureProvider.get_signature); by "cli": `nxpcrypto signature create`.
    src (KeyFlow.tla, FileSources): "open" = the file is not encrypted; "arg" = password= / --password; "cfg" = inside the provider
    configuration string (type=file;file_path=..;password=..); "prompt" = nothing is handed over, the signer finds the file encrypted
    and asks - the Typist types the password.  -> (signature or None, error, facts about the file and the prompt)"""
    S = _c()["S"]
    fmt = r_.choice(["PEM", "DER"])
    prot = S.BestAvailableEncryption(PW.encode("utf-8")) if src != "open" else S.NoEncryption()
    blob = key.priv.private_bytes(S.Encoding.PEM if fmt == "PEM" else S.Encoding.DER, S.PrivateFormat.PKCS8, prot)
    kf = cli_file(fmt.lower(), blob)
    facts = {"encrypted": is_encrypted(blob, fmt, PW), "prompts": 0, "keyfmt": fmt}
    cfg = f"type=file;file_path={kf};password={PW}"
    if any(ch in kf for ch in ";="):
        raise Machinery(f"scratch path {kf!r} cannot be written into a provider configuration string")
    pss = P["pad"] == "pss"
    with Typist(PW) as user:
        if by == "cli":
            df, sf = cli_file("bin", msg), cli_file("sig")
            args = ["signature", "create", "-i", df, "-o", sf] + (["-sp", cfg] if src == "cfg" else ["-k", kf])
            if src == "arg":
                args += ["-p", PW]
            if P["hash"] != "default":
                args += ["-a", P["hash"]]
            if pss:
                args += ["-pp"]
            if key.kt == "ecc":
                args += ["-e", "NXP" if P["enc"] == "raw" else "DER"]
            ok, _, err = run_cli(args)
            sig = open(sf, "rb").read() if ok and os.path.exists(sf) else None
            e = None if sig is not None else f"refused:{err}"
            cli_rm(df, sf)
        else:
            from spsdk.crypto.signature_provider import get_signature_provider

            X = sp()
            kw = {"hash_alg": X["ALG"][P["hash"]], "pss_padding": pss}

            def make():
                if src == "cfg":
                    prov = get_signature_provider(sp_cfg=cfg, **kw)
                else:
                    prov = get_signature_provider(local_file_key=kf, password=PW if src == "arg" else None, **kw)
                return prov.get_signature(msg, X["ENC"]["der"]) if P["enc"] == "der" else prov.get_signature(msg)

            sig, e = outcome(make)
    facts["prompts"] = user.asked
    cli_rm(kf)
    return sig, e, facts


def classify(key, sig, enc, msg):
    """Every (hash, padding) of the parameter matrix under which `cryptography` alone accepts the signature for the message."""
    pads = ("v15", "pss") if key.kt == "rsa" else ("ecdsa",)
    return [{"hash": h, "pad": p} for h in HASHES for p in pads
            if indep_verify(key, {"pad": p, "pre": False}, h, sig, enc, msg) == "true"]


def cli_verify(key, Q, sig, msg, r_):
    """nxpcrypto signature verify with the public key in a file (PEM, DER or, for ECC, raw X||Y)."""
    fmt = r_.choice(["PEM", "DER", "NXP"] if key.kt == "ecc" else ["PEM", "DER"])
    kf = cli_file(fmt.lower(), indep_export(key.priv.public_key(), "pub", key.kt, fmt, "none", 0))
    df, sf = cli_file("bin", msg), cli_file("sig", sig)
    args = ["signature", "verify", "-k", kf, "-i", df, "-s", sf]
    if Q["hash"] != "default":
        args += ["-a", Q["hash"]]
    if Q["pad"] == "pss":
        args += ["-pp"]
    ok, out, err = run_cli(args)
    cli_rm(kf, df, sf)
    if not ok:
        return "refused", err
    if "IS NOT matching" in out:
        return "false", None
    if "IS matching" in out:
        return "true", None
    return "refused", f"unexpected output {out[-80:]!r}"


def sp_wrap(cobj, kk, kt):
    K = sp()["K"]
    cls = {("priv", "rsa"): K.PrivateKeyRsa, ("priv", "ecc"): K.PrivateKeyEcc, ("pub", "rsa"): K.PublicKeyRsa, ("pub", "ecc"): K.PublicKeyEcc}[(kk, kt)]
    return cls(cobj)


def outcome(fn):
    """Run fn -> (value, None) or (None, 'refused:<Type>') for an SPSDK error / 'exc:<Type>' for any other exception."""
    Err = sp()["Err"]
    try:
        return fn(), None
    except Err as e:
        return None, f"refused:{type(e).__name__}"
    except Exception as e:  # noqa: BLE001 - recorded; the spec decides
        return None, f"exc:{type(e).__name__}"


# ================================================================================================ lane 1: pure codec, every profile
def mk_int(curve, L, top, r):
    """An integer with exactly L bytes whose first byte has the requested top bit (and stays below the group order)."""
    cv = refpk.CURVES[curve]
    c = cv["c"]
    if c == 66 and L == 66:
        first = 1  # the only non-zero value of the top byte of a P-521 scalar
        rest = bytes([r.randrange(0, 0xF0)]) + bytes(r.randrange(256) for _ in range(L - 2))
        return int.from_bytes(bytes([first]) + rest, "big")
    while True:
        first = r.randrange(0x80, 0xFF) if top else r.randrange(1, 0x80)
        if L == c and first == 0x30:
            continue  # a raw signature is never made to look like a DER SEQUENCE header (inherently ambiguous, outside the domain)
        v = int.from_bytes(bytes([first]) + bytes(r.randrange(256) for _ in range(L - 1)), "big")
        if 1 <= v < cv["n"]:
            return v


def cmp_sig(parsed, r, s, curve):
    return "same" if (parsed.r, parsed.s, getattr(parsed.ecc_curve, "value", parsed.ecc_curve)) == (r, s, curve) else "wrong"


def how(parsed, r, s, curve, der):
    """Detail of a wrong ECDSASignature.parse(DER) for the finding text (not judged)."""
    got_curve = getattr(parsed.ecc_curve, "value", parsed.ecc_curve)
    if (parsed.r, parsed.s) == (r, s):
        return f"other-curve:{got_curve}"
    h = len(der) // 2
    if (parsed.r, parsed.s) == (int.from_bytes(der[:h], "big"), int.from_bytes(der[h:], "big")):
        return f"as-raw:{got_curve}"
    return f"other-values:{got_curve}"


def exec_sigcodec(case):
    S = sp()
    K, ENC = S["K"], S["ENC"]
    curve, c = case["curve"], case["c"]
    r_ = rng(PROP, "sigcodec", curve, case["lr"], case["tr"], case["ls"], case["ts"])
    r, s = mk_int(curve, case["lr"], case["tr"], r_), mk_int(curve, case["ls"], case["ts"], r_)
    bits = refpk.CURVES[curve]["bits"]
    raw_ref, der_ref = enc_rs(bits, "raw", r, s), refpk.der_sig(r, s)
    ecurve = K.EccCurve(curve)
    o = {}
    o["rl"], o["r0"] = prof_of(r)
    o["sl"], o["s0"] = prof_of(s)
    detail = {}

    def tag(name, val, err):
        o[name] = val if err is None else err.split(":")[0]
        if err:
            detail[name] = err

    raw, e = outcome(lambda: K.ECDSASignature(r, s, ecurve).export(ENC["raw"]))
    o["rawLen"] = len(raw) if e is None else -1
    o["rawOk"] = e is None and sig_rs("ecc", bits, "raw", raw) == (r, s)
    der, e = outcome(lambda: K.ECDSASignature(r, s, ecurve).export(ENC["der"]))
    o["derLen"] = len(der) if e is None else -1
    o["derOk"] = e is None and der == der_ref
    p, e = outcome(lambda: K.ECDSASignature.parse(raw_ref))
    tag("pRaw", cmp_sig(p, r, s, curve) if e is None else None, e)
    p, e = outcome(lambda: K.ECDSASignature.parse(der_ref))
    tag("pDer", cmp_sig(p, r, s, curve) if e is None else None, e)
    if e is None and o["pDer"] != "same":
        detail["pDer"] = how(p, r, s, curve, der_ref)
    v, e = outcome(lambda: K.KeyEccCommon.serialize_signature(der_ref, c))
    tag("d2r", ("same" if v == raw_ref else "wrong") if e is None else None, e)
    v, e = outcome(lambda: K.ECDSASignature.parse(raw_ref).export(ENC["der"]))
    tag("r2d", ("same" if v == der_ref else "wrong") if e is None else None, e)
    v, e = outcome(lambda: K.ECDSASignature.parse(der_ref).export(ENC["raw"]))
    tag("cd2r", ("same" if v == raw_ref else "wrong") if e is None else None, e)
    v, e = outcome(lambda: fixed_provider(raw_ref, 2 * c).get_signature(b"data"))
    tag("spRaw", ("same" if v == raw_ref else "wrong") if e is None else None, e)
    v, e = outcome(lambda: fixed_provider(der_ref, 2 * c).get_signature(b"data"))
    tag("spDer", ("same" if v == raw_ref else ("unchanged" if v == der_ref else "wrong")) if e is None else None, e)
    v, e = outcome(lambda: fixed_provider(raw_ref, 2 * c).get_signature(b"data", ENC["der"]))
    tag("spRawDer", ("same" if v == der_ref else "wrong") if e is None else None, e)
    v, e = outcome(lambda: fixed_provider(der_ref, 2 * c).get_signature(b"data", ENC["der"]))
    tag("spDerDer", ("same" if v == der_ref else "wrong") if e is None else None, e)
    return {"kind": "sigcodec", "a": {k: case[k] for k in ("curve", "lr", "tr", "ls", "ts")}, "o": o,
            "x": {"r": hex(r), "s": hex(s), "detail": detail, "pred": case["predParse"], "der": case["der"], "inwin": case["inwin"], "case": case}}


def ref_sigcodec(case):
    """The observation of exec_sigcodec as the REFERENCE codec (lib.refpk, pure Python) makes it: same integers, same fields, nothing
    of SPSDK is called.  Canary only: the known-good observation must not depend on the tree under test (a defect of SPSDK that hits
    the canary's input is a violation of the main run, never a machinery failure)."""
    curve, c = case["curve"], case["c"]
    r_ = rng(PROP, "sigcodec", curve, case["lr"], case["tr"], case["ls"], case["ts"])
    r, s = mk_int(curve, case["lr"], case["tr"], r_), mk_int(curve, case["ls"], case["ts"], r_)
    bits = refpk.CURVES[curve]["bits"]
    raw_ref, der_ref = enc_rs(bits, "raw", r, s), refpk.der_sig(r, s)

    def same(ok):
        return "same" if ok else "wrong"

    raw_rs, der_rs = sig_rs("ecc", bits, "raw", raw_ref), refpk.der_sig_decode(der_ref)
    o = {}
    o["rl"], o["r0"] = prof_of(r)
    o["sl"], o["s0"] = prof_of(s)
    o["rawLen"], o["rawOk"] = len(raw_ref), raw_rs == (r, s)
    o["derLen"], o["derOk"] = len(der_ref), der_rs == (r, s)
    o["pRaw"], o["pDer"] = same(raw_rs == (r, s)), same(der_rs == (r, s))
    d2r, r2d = enc_rs(bits, "raw", *der_rs), enc_rs(bits, "der", *raw_rs)
    o["d2r"], o["r2d"], o["cd2r"] = same(d2r == raw_ref), same(r2d == der_ref), same(d2r == raw_ref)
    o["spRaw"], o["spDer"], o["spRawDer"], o["spDerDer"] = same(True), same(d2r == raw_ref), same(r2d == der_ref), same(True)
    return {"kind": "sigcodec", "a": {k: case[k] for k in ("curve", "lr", "tr", "ls", "ts")}, "o": o,
            "x": {"r": hex(r), "s": hex(s), "detail": {}, "pred": case["predParse"], "der": case["der"], "inwin": case["inwin"], "case": case}}


# ================================================================================================ lane 2: valid signatures of every profile
def exec_sigprof(case):
    """A VALID signature with the requested length profile: (r, s) are chosen, the public key is constructed for them
    (Q = r^-1 (sR - eG)); two independent verifiers confirm validity before SPSDK is asked."""
    S = sp()
    K, ALG = S["K"], S["ALG"]
    C = _c()
    curve, c = case["curve"], case["c"]
    bits = refpk.CURVES[curve]["bits"]
    r_ = rng(PROP, "sigprof", curve, case["lr"], case["tr"], case["ls"], case["ts"])
    hname = r_.choice(HASHES)
    pre = r_.random() < 0.5
    msg = bytes(r_.randrange(256) for _ in range(r_.randrange(1, 80)))
    dig = refpk.digest(hname, msg)
    for _ in range(200):
        r, s = mk_int(curve, case["lr"], case["tr"], r_), mk_int(curve, case["ls"], case["ts"], r_)
        Q = refpk.ecdsa_recover(curve, dig, r, s)
        if Q is not None:
            break
    else:
        if case["lr"] <= 1:  # one-byte r: only 255 candidates, possibly none of them an abscissa that recovers - not a case
            return None
        raise Machinery(f"no recoverable key for profile {case}")
    raw, der = enc_rs(bits, "raw", r, s), refpk.der_sig(r, s)
    cpub = C["ec"].EllipticCurvePublicNumbers(Q[0], Q[1], c_curve(bits)).public_key()
    # validity of the constructed triple: `cryptography` confirms every one, the pure-Python verifier every 8th (it costs a
    # double scalar multiplication; the construction itself is pure Python already)
    valid = refpk.on_curve(curve, Q) and (r_.randrange(8) != 0 or refpk.ecdsa_verify(curve, Q, dig, r, s))
    try:
        cpub.verify(der, msg, C["ec"].ECDSA(c_hash(hname)))
    except C["InvalidSignature"]:
        valid = False
    pub = K.PublicKeyEcc(cpub)
    data = dig if pre else msg

    def ver(sig, d):
        v, e = outcome(lambda: pub.verify_signature(sig, d, ALG[hname], prehashed=pre))
        return ("true" if v is True else "false" if v is False else f"badtype:{v!r}") if e is None else e.split(":")[0]

    bit = r_.randrange(8 * len(raw))
    rawf = bytearray(raw)
    rawf[bit // 8] ^= 1 << (bit % 8)
    bit2 = r_.randrange(8 * len(der))
    derf = bytearray(der)
    derf[bit2 // 8] ^= 1 << (bit2 % 8)
    other = msg + b"!"
    o = {"valid": valid, "derLen": len(der), "vRaw": ver(raw, data), "vDer": ver(der, data),
         "vRawFlip": ver(bytes(rawf), data), "vDerFlip": ver(bytes(derf), data),
         "vOtherMsg": ver(raw, refpk.digest(hname, other) if pre else other)}
    o["rl"], o["r0"] = prof_of(r)
    o["sl"], o["s0"] = prof_of(s)
    return {"kind": "sigprof", "a": {k: case[k] for k in ("curve", "lr", "tr", "ls", "ts")}, "o": o,
            "x": {"r": hex(r), "s": hex(s), "qx": hex(Q[0]), "qy": hex(Q[1]), "hash": hname, "pre": pre, "msg": msg.hex(),
                  "bits": [bit, bit2], "pred": case["predVerify"], "der": case["der"], "case": case}}


# ================================================================================================ lane 3: flows
# ================================================================================================ certificate chains (CertChain.tla)
CERT_ENTRIES = ("validate", "validate_subject", "chain")
CERT_TAMPERS = ("none", "tbsbit", "sigbit", "key")


def _mk_cert(cn, issuer_cn, pub, signer, hname, ca, r_):
    """An X.509 certificate made with `cryptography` directly; serial number and validity are drawn from the seed."""
    import datetime

    from cryptography import x509
    from cryptography.x509.oid import NameOID

    nm = lambda t: x509.Name([x509.NameAttribute(NameOID.COMMON_NAME, t)])  # noqa: E731
    t0 = datetime.datetime(2024, 1, 1, tzinfo=datetime.timezone.utc) + datetime.timedelta(days=r_.randrange(300))
    return (x509.CertificateBuilder().subject_name(nm(cn)).issuer_name(nm(issuer_cn)).public_key(pub)
            .serial_number(r_.randrange(1, 1 << 64)).not_valid_before(t0).not_valid_after(t0 + datetime.timedelta(days=3650))
            .add_extension(x509.BasicConstraints(ca=ca, path_length=None), critical=True).sign(signer, c_hash(hname)))


def _cert_indep_ok(issuer, subject):
    """(issuer public key, subject signature, subject TBS bytes, the hash the SUBJECT names) verified by `cryptography` directly."""
    C = _c()
    pub, h = issuer.public_key(), subject.signature_hash_algorithm
    try:
        if isinstance(pub, C["rsa"].RSAPublicKey):
            pub.verify(subject.signature, subject.tbs_certificate_bytes, C["padding"].PKCS1v15(), h)
        else:
            pub.verify(subject.signature, subject.tbs_certificate_bytes, C["ec"].ECDSA(h))
        return True
    except C["InvalidSignature"]:
        return False


def cert_material(kt, size, ih, sh, salt):
    """root (self-signed with hash ih) -> leaf (signed by the root key with hash sh) plus the three disturbed variants, all made by
    the independent base.  Returns {tamper: (issuer x509, subject x509)}."""
    from cryptography import x509

    C = _c()
    r_ = rng(PROP, "cert", kt, size, ih, sh, salt)
    ks = pool()[(kt, size)]
    ik = r_.randrange(len(ks))
    root_key, other_key = ks[ik].priv, ks[(ik + 1) % len(ks)].priv
    leaf_pub = r_.choice(pool()[("ecc", 256)]).priv.public_key()
    c = (size + 7) // 8
    for _ in range(50):  # guard: a DER ECDSA signature of exactly 2c bytes is read as raw (known finding C08/ecdsa-verify/.../derlen=2c)
        root = _mk_cert("C08 root", "C08 root", root_key.public_key(), root_key, ih, True, r_)
        leaf = _mk_cert("C08 leaf", "C08 root", leaf_pub, root_key, sh, False, r_)
        if kt == "rsa" or (len(leaf.signature) != 2 * c and len(root.signature) != 2 * c):
            break
    der = leaf.public_bytes(C["S"].Encoding.DER)
    at = der.index(b"C08 leaf") + 4 + r_.randrange(4)  # a letter of the subject name, inside the TBS part
    tbs = x509.load_der_x509_certificate(der[:at] + bytes([der[at] ^ 1]) + der[at + 1:])
    sigb = x509.load_der_x509_certificate(der[:-1] + bytes([der[-1] ^ (1 << r_.randrange(8))]))  # the last byte of the signature
    if tbs.tbs_certificate_bytes == leaf.tbs_certificate_bytes or tbs.signature != leaf.signature or sigb.signature == leaf.signature \
            or sigb.tbs_certificate_bytes != leaf.tbs_certificate_bytes:
        raise Machinery("certificate tampering did not hit the intended part")
    forged_root = _mk_cert("C08 root", "C08 root", other_key.public_key(), other_key, ih, True, r_)  # same name, another key
    return {"none": (root, leaf), "tbsbit": (root, tbs), "sigbit": (root, sigb), "key": (forged_root, leaf)}


def exec_cert(case, only=None):
    """All observations of one chain (kt, size, ih, sh, salt): tamper x entry point.  `library`=False: the verdict is the independent
    base's (canary: the observation never passes through SPSDK)."""
    kt, size, ih, sh, salt = case["kt"], case["size"], case["ih"], case["sh"], case["salt"]
    C = _c()
    mat = cert_material(kt, size, ih, sh, salt)
    library = case.get("library", True)
    if library:
        from spsdk.crypto.certificate import Certificate, validate_certificate_chain
    out = []
    for tamper in CERT_TAMPERS:
        issuer, subject = mat[tamper]
        indep = _cert_indep_ok(issuer, subject)
        for entry in CERT_ENTRIES:
            if only and (tamper, entry) != only:
                continue
            if library:
                def call():
                    ci = Certificate.parse(issuer.public_bytes(C["S"].Encoding.DER))
                    cs = Certificate.parse(subject.public_bytes(C["S"].Encoding.DER))
                    if entry == "validate":
                        return cs.validate(ci)
                    if entry == "validate_subject":
                        return ci.validate_subject(cs)
                    got = validate_certificate_chain([cs, ci])
                    return True if got == [True] else False if got == [False] else got
                val, err = outcome(call)
                res, detail = ("true" if val is True else "false" if val is False else (err or f"other:{val!r}")[:60]), (err or "")
            else:
                res, detail = ("true" if indep else "false"), ""
            out.append({"kind": "cert", "a": {"kt": kt, "size": size, "ih": ih, "sh": sh, "tamper": tamper, "entry": entry},
                        "o": {"ih": issuer.signature_hash_algorithm.name, "sh": subject.signature_hash_algorithm.name, "indep": indep, "res": res},
                        "x": {"detail": detail, "case": {**case, "only": [tamper, entry]}}})
    return out


def measure_default(key):
    """Which hash does SPSDK use when none is named?  Sign with algorithm=None and see under which hash the pure verifier accepts."""
    if key.dflt is None:
        prv = sp_wrap(key.priv, "priv", key.kt)
        msg = b"verif-c08 default hash probe"
        sig, e = outcome(lambda: prv.sign(msg))
        acc = []
        if e is None:
            for h in HASHES:
                if pure_verify(key, {"pad": "v15", "pre": False}, h, sig, "raw", msg) == "true":
                    acc.append(h)
        key.dflt = acc[0] if len(acc) == 1 else "none"
    return key.dflt


def replay_flow(job):
    """Replay one abstract behaviour on one concrete pool key -> trace (events with facts)."""
    beh, ki, salt = job["beh"], job["key"], job["salt"]
    S = sp()
    K, ENC, ALG = S["K"], S["ENC"], S["ALG"]
    kt, size = beh["kt"], beh["size"]
    keys = pool()[(kt, size)]
    key = keys[ki]
    other = keys[(ki + 1 + salt) % len(keys)]
    if other is key:
        other = keys[(ki + 1) % len(keys)]
    r_ = rng(PROP, "flow", json.dumps(beh, sort_keys=True), key.name, salt)
    # job["dflt"]: canary only - the default hash is GIVEN (the customary one), SPSDK is not asked, so that the trace never passes through SPSDK
    dflt = job["dflt"] if "dflt" in job else measure_default(key)
    ev = [{"a": "Key", "prof": key.prof, "xl": key.xl, "yl": key.yl}]
    trace = {"flow": beh["flow"], "kt": kt, "size": size, "kk0": beh["kk0"], "dflt": dflt, "ev": ev, "x": {"key": key.name, "salt": salt, "beh": beh, "notes": []}}
    notes = trace["x"]["notes"]
    if dflt not in HASHES:
        # SPSDK refuses to sign without a named hash, or signs so that no supported hash verifies: TLC rejects the key binding (first event,
        # H.dflt \in Hashes) and the steps after it have no meaning - the executor stays total (a Verify with the "default" hash has nothing to hash with)
        notes.append("default hash of the key not identifiable: sign() without an algorithm was refused or verifies under no / several supported hashes")
        return trace
    c = (size + 7) // 8
    # ---- state of the replay
    kk = beh["kk0"]
    cur = ("crypt", key.priv if kk == "priv" else key.priv.public_key())  # party that holds the current object, object
    blob = None
    msg = bytes(r_.randrange(256) for _ in range(job.get("msglen", r_.choice([0, 1, 7, 32, 55, 64, 100, 300]))))
    vmsg, vkey = msg, key
    want_bit = job.get("bit")  # sweep lane: the bit to flip is prescribed
    flipped = {"sig": set(), "msg": set()}  # a second flip never undoes an earlier one: tampering is cumulative

    def pick_bit(which, nbits):
        if want_bit is not None and not flipped[which]:
            bit = want_bit % nbits
        else:
            bit = r_.randrange(nbits)
            while bit in flipped[which] and len(flipped[which]) < nbits:
                bit = r_.randrange(nbits)
        flipped[which].add(bit)
        return bit

    sig, enc, rs = None, None, None

    def eff(h):
        return dflt if h == "default" else h

    def as_sp():
        return cur[1] if cur[0] == "spsdk" else sp_wrap(cur[1], kk, kt)

    def as_crypt():
        return cur[1].key if cur[0] == "spsdk" else cur[1]

    for a in beh["hist"]:
        name = a["a"]
        if name == "Export":
            fmt, pwd, el, by = a["fmt"], a["pwd"], a["el"], a["by"]
            pwtext = pw_text(pwd)
            if by == "spsdk":
                o = as_sp()
                if kk == "priv":
                    data, e = outcome(lambda: o.export(password=pwtext, encoding=ENC[fmt]))
                elif kt == "rsa" and fmt == "NXP" and el == 4:
                    data, e = outcome(lambda: o.export(encoding=ENC[fmt], exp_length=4))
                else:
                    data, e = outcome(lambda: o.export(encoding=ENC[fmt]))
            elif by == "cli":
                inf = cli_file("pem", indep_export(as_crypt(), kk, kt, "PEM", "none", 0))
                outf = cli_file(fmt.lower())
                ok_, _, err = run_cli(["key", "convert", "-e", "RAW" if fmt == "NXP" else fmt, "-i", inf, "-o", outf])
                data = open(outf, "rb").read() if ok_ and os.path.exists(outf) else None
                e = None if data is not None else f"refused:{err}"
                cli_rm(inf, outf)
            else:
                try:
                    data, e = indep_export(as_crypt(), kk, kt, fmt, pwd, el), None
                except Exception as x:  # noqa: BLE001
                    raise Machinery(f"independent export failed: {x!r}") from x
            fact = {"a": "Export", "kk": kk, "fmt": fmt, "pwd": pwd, "el": el, "by": by, "ok": e is None and isinstance(data, (bytes, bytearray)),
                    "len": -1, "derLen": -1, "indep": False, "encrypted": False, "pw": pw_shape(pwtext)}
            if fact["ok"]:
                data = bytes(data)
                fact["len"] = len(data)
                fact["derLen"] = der_payload_len(data, fmt)
                try:
                    back = indep_parse(data, kk, kt, size, fmt, pwtext)
                    fact["indep"] = numbers_of(back, kk) == (key.privnum if kk == "priv" else key.pubnum)
                except Exception as x:  # noqa: BLE001
                    notes.append(f"independent parse of the export: {x!r}")
                fact["encrypted"] = is_encrypted(data, fmt, pwtext) if kk == "priv" else False
                blob = (data, fmt, pwd)
            else:
                notes.append(f"export: {e}")
            ev.append(fact)
            if not fact["ok"]:
                break
        elif name == "Parse":
            entry, given, by = a["entry"], a["given"], a["by"]
            data, fmt, pwd = blob
            okk = kk
            password = pw_text(given)
            if entry == "cli":
                inf, outf = cli_file(fmt.lower(), data), cli_file("pem")
                ok_, _, err = run_cli(["key", "convert", "-e", "PEM", "-i", inf, "-o", outf])
                res, got = "refused", None
                if ok_ and os.path.exists(outf):
                    try:
                        got = indep_parse(open(outf, "rb").read(), kk, kt, size, "PEM", None)
                        res = "same" if numbers_of(got, kk) == (key.privnum if kk == "priv" else key.pubnum) else "wrong"
                    except Exception as x:  # noqa: BLE001
                        res = "wrong"
                        notes.append(f"output of key convert: {x!r}")
                    if res == "same" and kk == "pub":  # and the command line agrees that it is the same key
                        ref = cli_file("pem", indep_export(key.priv.public_key(), "pub", kt, "PEM", "none", 0))
                        ok2, out2, err2 = run_cli(["key", "verify", "-k1", inf, "-k2", ref])
                        if not ok2 or "Keys match" not in out2:
                            res = "wrong"
                            notes.append(f"key verify: {err2 or out2[-80:]}")
                        cli_rm(ref)
                else:
                    notes.append(f"parse: {err}")
                cli_rm(inf, outf)
                if res == "same":
                    cur = ("crypt", got)
            elif by == "spsdk":
                if entry == "typed":
                    cls = {("priv", "rsa"): K.PrivateKeyRsa, ("priv", "ecc"): K.PrivateKeyEcc, ("pub", "rsa"): K.PublicKeyRsa, ("pub", "ecc"): K.PublicKeyEcc}[(kk, kt)]
                    fn = (lambda: cls.parse(data, password=password)) if kk == "priv" else (lambda: cls.parse(data))
                elif entry == "auto":
                    fn = (lambda: K.PrivateKey.parse(data, password=password)) if kk == "priv" else (lambda: K.PublicKey.parse(data))
                elif entry == "any":
                    fn = lambda: S["extract"](data, password)  # noqa: E731
                else:
                    path = os.path.join(scratch(), f"c08-{os.getpid()}-{r_.randrange(1 << 30)}.{fmt.lower()}")
                    with open(path, "wb") as f:
                        f.write(data)
                    fn = (lambda: K.PrivateKey.load(path, password=password)) if kk == "priv" else (lambda: K.PublicKey.load(path))
                got, e = outcome(fn)
                nkk = "pub" if entry == "any" else kk
                if e is None:
                    want_cls = {("priv", "rsa"): K.PrivateKeyRsa, ("priv", "ecc"): K.PrivateKeyEcc, ("pub", "rsa"): K.PublicKeyRsa, ("pub", "ecc"): K.PublicKeyEcc}[(nkk, kt)]
                    ref = sp_wrap(key.priv if nkk == "priv" else key.priv.public_key(), nkk, kt)
                    if type(got) is not want_cls:  # noqa: E721
                        res = "wrong"
                        notes.append(f"parse returned {type(got).__name__}")
                    elif numbers_of(got.key, nkk) != (key.privnum if nkk == "priv" else key.pubnum):
                        res = "wrong"
                        notes.append("parse returned other numbers")
                    elif not (got == ref):
                        res = "wrong"
                        notes.append("parsed key does not compare equal to the original")
                    else:
                        res = "same"
                else:
                    res = "refused"
                    notes.append(f"parse: {e}")
                if res == "same":
                    cur, kk = ("spsdk", got), nkk
            else:
                try:
                    got = indep_parse(data, kk, kt, size, fmt, password)
                    res = "same" if numbers_of(got, kk) == (key.privnum if kk == "priv" else key.pubnum) else "wrong"
                except Exception as x:  # noqa: BLE001
                    got, res = None, "refused"
                    notes.append(f"independent parse: {x!r}")
                if res == "same":
                    cur = ("crypt", got)
            ev.append({"a": "Parse", "kk": okk, "entry": entry, "given": given, "by": by, "res": res,
                       "gpw": pw_shape(password), "eq": password == pw_text(pwd)})
            if res != a["res"]:
                break  # the rest of the behaviour has no meaning any more; TLC rejects this step
        elif name == "ToPublic":
            if cur[0] == "spsdk":
                got, e = outcome(lambda: cur[1].get_public_key())
                ok = e is None and numbers_of(got.key, "pub") == key.pubnum
            else:
                got = cur[1].public_key()
                ok = numbers_of(got, "pub") == key.pubnum
            ev.append({"a": "ToPublic", "ok": ok})
            if not ok:
                break
            cur, kk = (cur[0], got), "pub"
        elif name == "Sign":
            P, by, src = a["P"], a["by"], a["src"]
            h = eff(P["hash"])
            ffacts = {"encrypted": False, "prompts": 0}  # parties that hold the key object have no file to open
            if h not in HASHES:
                ev.append({"a": "Sign", "P": P, "by": by, "src": src, "ok": False, "sigLen": -1, "rl": 0, "r0": 0, "sl": 0, "s0": 0,
                           "encrypted": False, "prompts": 0, "cls": []})
                break
            if by == "spsdk":
                prv = sp_wrap(key.priv, "priv", kt)
                data = refpk.digest(h, msg) if P["pre"] else msg
                if kt == "rsa":
                    sig, e = outcome(lambda: prv.sign(data, algorithm=ALG[P["hash"]], pss_padding=P["pad"] == "pss", prehashed=P["pre"]))
                else:
                    sig, e = outcome(lambda: prv.sign(data, algorithm=ALG[P["hash"]], der_format=P["enc"] == "der", prehashed=P["pre"]))
            elif by in ("cli", "sp"):
                memo = SIGMEMO.get((key.name, json.dumps(P, sort_keys=True), by, src))
                if memo is not None:
                    msg, sig, e = bytes.fromhex(memo["msg"]), bytes.fromhex(memo["sig"]) if memo["sig"] is not None else None, memo["e"]
                    vmsg, ffacts = msg, memo["facts"]
                else:
                    sig, e, ffacts = file_sign(key, P, msg, r_, by, src)
            else:
                sig, e = indep_sign(key, P, h, msg), None
            enc = P["enc"]
            fact = {"a": "Sign", "P": P, "by": by, "src": src, "ok": e is None and isinstance(sig, (bytes, bytearray)), "sigLen": -1,
                    "rl": 0, "r0": 0, "sl": 0, "s0": 0, "encrypted": ffacts["encrypted"], "prompts": ffacts["prompts"], "cls": []}
            if ffacts.get("keyfmt"):
                notes.append(f"key file: {ffacts['keyfmt']}")
            if fact["ok"]:
                sig = bytes(sig)
                fact["sigLen"] = len(sig)
                fact["cls"] = classify(key, sig, enc, msg)  # what has really been made, according to the independent base
                if kt == "ecc":
                    rs = sig_rs(kt, size, enc, sig)
                    if rs is None or rs[0] < 1 or rs[1] < 1:
                        fact["ok"] = False
                        notes.append("signature is not in the requested encoding")
                    else:
                        fact["rl"], fact["r0"] = prof_of(rs[0])
                        fact["sl"], fact["s0"] = prof_of(rs[1])
            else:
                notes.append(f"sign: {e}")
            ev.append(fact)
            if not fact["ok"]:
                break
        elif name == "Reencode":
            to, via = a["to"], a["via"]
            want = enc_rs(size, to, rs[0], rs[1])
            if via == "sigclass":
                out, e = outcome(lambda: K.ECDSASignature.parse(sig).export(ENC[to]))
            elif via == "serialize":
                out, e = outcome(lambda: K.KeyEccCommon.serialize_signature(sig, c))
            elif via == "provider":
                out, e = outcome(lambda: fixed_provider(sig, 2 * c).get_signature(msg, ENC[to]) if to == "der" else fixed_provider(sig, 2 * c).get_signature(msg))
            else:
                out, e = want, None
            fact = {"a": "Reencode", "from": enc, "to": to, "via": via, "ok": e is None and out == want, "outLen": len(out) if e is None and isinstance(out, (bytes, bytearray)) else -1}
            fact["rl"], fact["r0"] = prof_of(rs[0])
            fact["sl"], fact["s0"] = prof_of(rs[1])
            fact["derLen"] = len(refpk.der_sig(*rs))
            if e:
                notes.append(f"reencode: {e}")
            ev.append(fact)
            if not fact["ok"]:
                break
            sig, enc = bytes(out), to
        elif name == "Tamper":
            what = a["what"]
            fact = {"a": "Tamper", "what": what, "bit": -1}
            if what == "sigbit":
                bit = pick_bit("sig", 8 * len(sig))
                b = bytearray(sig)
                b[bit // 8] ^= 1 << (bit % 8)
                sig = bytes(b)
                fact["bit"] = bit
            elif what == "msgbit":
                if not vmsg:
                    vmsg = b"\x00"
                    fact["bit"] = -2  # an empty message has no bit: one zero byte is appended instead
                else:
                    bit = pick_bit("msg", 8 * len(vmsg))
                    b = bytearray(vmsg)
                    b[bit // 8] ^= 1 << (bit % 8)
                    vmsg = bytes(b)
                    fact["bit"] = bit
            elif what == "msg":
                vmsg = bytes(r_.randrange(256) for _ in range(len(vmsg) + 1))
            else:
                vkey = other
            ev.append(fact)
        elif name == "Verify":
            Q, by = a["Q"], a["by"]
            h = eff(Q["hash"])
            if by == "spsdk":
                pub = sp_wrap(vkey.priv.public_key(), "pub", kt)
                data = refpk.digest(h, vmsg) if Q["pre"] else vmsg
                if kt == "rsa":
                    v, e = outcome(lambda: pub.verify_signature(sig, data, ALG[Q["hash"]], pss_padding=Q["pad"] == "pss", prehashed=Q["pre"]))
                else:
                    v, e = outcome(lambda: pub.verify_signature(sig, data, ALG[Q["hash"]], prehashed=Q["pre"]))
                res = ("true" if v is True else "false" if v is False else "badtype") if e is None else e.split(":")[0]
                if e:
                    notes.append(f"verify: {e}")
            elif by == "cli":
                res, err = cli_verify(vkey, Q, sig, vmsg, r_)
                if err:
                    notes.append(f"verify: {err}")
            elif by == "indep":
                res = indep_verify(vkey, Q, h, sig, enc, vmsg)
            else:
                res = pure_verify(vkey, Q, h, sig, enc, vmsg)
            ev.append({"a": "Verify", "Q": Q, "by": by, "res": res})
        else:
            raise Machinery(f"unknown action {name}")
    return trace


# ================================================================================================ finding keys
def derlen_class(c, L):
    return "derlen-in-window" if 2 * c + 3 <= L <= 2 * c + 8 else "derlen<2c+3"


def codec_keys(ob, clauses):
    """Finding keys of a rejected sigcodec / sigprof observation, one per failed clause."""
    a, o, x = ob["a"], ob["o"], ob["x"]
    c = refpk.CURVES[a["curve"]]["c"]
    res = []
    for cl in sorted(clauses):
        if ob["kind"] == "sigcodec":
            der_related = cl in ("pDer", "cd2r", "spDer", "spDerDer")
            cls = derlen_class(c, x["der"]) if der_related else "any-length"
            got = o.get(cl)
            if der_related and cls == "derlen<2c+3":
                # the known finding is EXACTLY the as-built length sniffing predicted by the I-spec; anything else is new
                obs_parse = o["pDer"] if o["pDer"] != "wrong" else x["detail"].get("pDer", "wrong").split(":")[0]
                tail = f"sniffed-{x['pred']}" if obs_parse == x["pred"] else f"unpredicted-{obs_parse}-not-{x['pred']}"
                res.append((f"C08/ecdsa-codec/{a['curve']}/{cl}/{cls}/{tail}", cl, got))
            else:
                res.append((f"C08/ecdsa-codec/{a['curve']}/{cl}/{cls}/{got}", cl, got))
        else:
            got = o.get(cl)
            if cl == "vDer" and x["der"] == 2 * c:
                tail = f"sniffed-{x['pred']}" if (got == "false" and x["pred"] == "as-raw") else f"unpredicted-{got}"
                res.append((f"C08/ecdsa-verify/{a['curve']}/vDer/derlen=2c/{tail}", cl, got))
            else:
                res.append((f"C08/ecdsa-verify/{a['curve']}/{cl}/{'derlen=2c' if x['der'] == 2 * c else 'derlen#2c'}/{got}", cl, got))
    return res


def flow_key(tr, matched):
    """Finding key of a rejected flow trace: key type / container or parameter set / action / observed."""
    ev = tr["ev"]
    e = ev[min(matched, len(ev) - 1)]
    kts = f"{tr['kt']}{tr['size']}"
    a = e["a"]
    if a == "Key":
        return f"C08/{kts}/key-binding/{e['prof']}/dflt={tr['dflt']}"
    if a == "Export":
        bad = [k for k in ("ok", "indep") if not e[k]] + ([] if e["encrypted"] == (e["pwd"] != "none") else [f"encrypted={e['encrypted']}"])
        bad = bad or [f"len={e['len']}"]
        return f"C08/{kts}/{e['kk']}-{e['fmt']}/export/by-{e['by']}/pwd={e['pwd']}/el={e['el']}/{'+'.join(bad)}"
    if a == "Parse":
        prev = [p for p in ev[:matched] if p["a"] == "Export"][-1]
        return f"C08/{kts}/{e['kk']}-{prev['fmt']}/parse/{e['entry']}-by-{e['by']}/exported-by-{prev['by']}/pwd={prev['pwd']},given={e['given']},el={prev['el']}/{e['res']}"
    if a == "ToPublic":
        return f"C08/{kts}/to-public/wrong"
    if a == "Sign":
        P = e["P"]
        made = "+".join(f"{c['hash']}-{c['pad']}" for c in e["cls"]) or "nothing-of-the-matrix"
        want = f"{tr['dflt'] if P['hash'] == 'default' else P['hash']}-{P['pad']}"
        if not e["ok"]:
            tail = "ok=False"
        elif made != want:  # the independent base finds another signature than the one asked for
            if len(e["cls"]) == 1:
                c, wh = e["cls"][0], want.split("-")[0]
                tail = (("pad=ok" if c["pad"] == P["pad"] else f"pad={c['pad']}-not-{P['pad']}") + "," +
                        ("hash=ok" if c["hash"] == wh else f"hash={c['hash']}-not-{wh}"))
            else:
                tail = f"made={made}"
        elif e["src"] == "prompt" and e["prompts"] < 1:
            tail = "never-asked"
        else:
            tail = f"len={e['sigLen']}"
        return f"C08/{tr['kt']}/sign/by-{e['by']}/pw-{e['src']}/{P['hash']}-{P['pad']}-{P['enc']}/{tail}"
    if a == "Reencode":
        c = (tr["size"] + 7) // 8
        return f"C08/{kts}/reencode/{e['from']}-to-{e['to']}/via-{e['via']}/{derlen_class(c, e['derLen'])}/ok={e['ok']}"
    if a == "Verify":
        sign = [p for p in ev[:matched] if p["a"] == "Sign"][-1]
        tam = "+".join(p["what"] for p in ev[:matched] if p["a"] == "Tamper") or "intact"
        P, Q = sign["P"], e["Q"]
        # presentation parameters (pre-hashed, key size) are in the witness, not in the key
        return (f"C08/{tr['kt']}/verify/signed-by-{sign['by']}/pw-{sign['src']}:{P['hash']}-{P['pad']}-{P['enc']}/"
                f"verified-by-{e['by']}:{Q['hash']}-{Q['pad']}/{tam}/{e['res']}")
    return f"C08/{kts}/{a}"


# ================================================================================================ run
def check_actions(r, names):
    """Every action of Next fired (TLC names a wrapped action either by the wrapper or by the wrapped definition)."""
    vac = [n for n in names if r.coverage.get(n, (0, 0))[1] == 0 and r.coverage.get("Do" + n, (0, 0))[1] == 0]
    if vac:
        raise Machinery(f"vacuous actions in KeyFlow: {vac} (coverage {r.coverage})")


def gen(flow, depth, simulate=None, sim_depth=None, menu="any", pw="all", src="all"):
    r = tlc.run("C08", "KeyFlowGen", "KeyFlowGen.cfg", workers=1, deadlock=False,
                env={"GEN_DEPTH": depth, "GEN_FLOW": flow, "GEN_MENU": menu, "GEN_PW": pw, "GEN_SRC": src},
                heap="6g", simulate=simulate, depth=sim_depth, timeout=900)
    behs = r.json_prints()
    if not behs:
        raise Machinery(f"GEN {flow}/{depth} emitted nothing:\n" + "\n".join(r.out.splitlines()[-20:]))
    return behs, r


def canary(v):
    """Known-good traces that never pass through SPSDK: every step of the two flows is made by the independent parties (`cryptography`,
    pure Python), the key's default hash is given (the customary one, not measured on SPSDK) and the codec observation is the reference
    codec's.  A defect of SPSDK cannot make them unacceptable: whatever the real code does wrong is decided in the main run."""
    key = pool()[("ecc", 256)][0]
    good_flow = replay_flow({"dflt": "sha256", "beh": {"flow": "sig", "kt": "ecc", "size": 256, "kk0": "priv", "hist": [
        {"a": "Sign", "by": "indep", "src": "obj", "P": {"hash": "sha256", "pad": "ecdsa", "pre": False, "enc": "der"}},
        {"a": "Reencode", "to": "raw", "via": "indep"},
        {"a": "Verify", "by": "pure", "Q": {"hash": "sha256", "pad": "ecdsa", "pre": True}},
        {"a": "Tamper", "what": "sigbit"},
        {"a": "Verify", "by": "indep", "Q": {"hash": "sha256", "pad": "ecdsa", "pre": False}}]}, "key": 0, "salt": 0})
    good_key = replay_flow({"dflt": "sha256", "beh": {"flow": "key", "kt": "ecc", "size": 256, "kk0": "priv", "hist": [
        {"a": "Export", "fmt": "PEM", "pwd": "trail-crlf", "el": 0, "by": "indep"},
        {"a": "Parse", "entry": "typed", "given": "none", "by": "indep", "res": "refused"},
        {"a": "Parse", "entry": "typed", "given": "plain", "by": "indep", "res": "refused"},
        {"a": "Parse", "entry": "typed", "given": "trail-crlf", "by": "indep", "res": "same"},
        {"a": "ToPublic"},
        {"a": "Export", "fmt": "NXP", "pwd": "none", "el": 0, "by": "indep"}]}, "key": 0, "salt": 0})
    good_flow["id"], good_key["id"] = "good-sig", "good-key"
    # the same signature as a file signer would report it after the passphrase prompt (the LABELS are edited, nothing is executed:
    # the trace still does not pass through SPSDK) - must be accepted as well
    good_prompt = json.loads(json.dumps(good_flow))
    good_prompt["id"] = "good-prompt"
    good_prompt["ev"][1].update({"by": "sp", "src": "prompt", "encrypted": True, "prompts": 1})
    bad = []

    def corrupt(base, name, fn):
        t = json.loads(json.dumps(base))
        t["id"] = name
        fn(t)
        bad.append(t)

    corrupt(good_flow, "bad-verdict", lambda t: t["ev"][5].__setitem__("res", "true"))          # verifies after tampering
    corrupt(good_flow, "bad-diag", lambda t: t["ev"][3]["Q"].__setitem__("hash", "sha384"))     # off the diagonal but "true"
    corrupt(good_flow, "bad-len", lambda t: t["ev"][2].__setitem__("outLen", 65))               # raw P-256 signature of 65 bytes
    corrupt(good_flow, "bad-class", lambda t: t["ev"][1]["cls"][0].__setitem__("hash", "sha384"))   # another signature than the one asked for
    corrupt(good_flow, "bad-noclass", lambda t: t["ev"][1].__setitem__("cls", []))                  # accepted under nothing
    corrupt(good_flow, "bad-source", lambda t: t["ev"][1].__setitem__("src", "prompt"))             # a key object has no file to open
    corrupt(good_prompt, "bad-unasked", lambda t: t["ev"][1].__setitem__("prompts", 0))             # "prompted", but nobody was asked
    corrupt(good_prompt, "bad-openfile", lambda t: t["ev"][1].__setitem__("encrypted", False))      # "prompted" for a file that is open
    corrupt(good_prompt, "bad-afterprompt", lambda t: t["ev"][1]["cls"].append({"hash": "sha256", "pad": "v15"}))  # padding lost on the way
    corrupt(good_key, "bad-nopwd", lambda t: t["ev"][2].__setitem__("res", "same"))             # encrypted container opened without password
    corrupt(good_key, "bad-nxp", lambda t: t["ev"][6].__setitem__("len", 65))                   # X||Y of 65 bytes
    corrupt(good_key, "bad-near", lambda t: t["ev"][3].__setitem__("res", "same"))              # opened by a near miss of its password
    corrupt(good_key, "bad-strip", lambda t: t["ev"][4].__setitem__("res", "refused"))          # its own password refused
    corrupt(good_key, "bad-pwclass", lambda t: t["ev"][1]["pw"].__setitem__("last", 119))       # text without the promised CR LF
    corrupt(good_key, "bad-given", lambda t: t["ev"][4].__setitem__("eq", False))               # another text than the one exported with
    corrupt(good_key, "bad-enc", lambda t: t["ev"][1].__setitem__("encrypted", False))          # password ignored
    corrupt(good_key, "bad-prof", lambda t: t["ev"][0].__setitem__("prof", "x-z2"))             # profile not the key's
    rej, _ = tlc.tv("C08", "KeyFlowTrace", [good_flow, good_prompt, good_key] + bad)
    if set(rej) != {t["id"] for t in bad}:
        raise Machinery(f"canary (flows) failed: rejected {sorted(rej)}")
    # pure codec: one correct observation, the same with one corrupted field each
    case = {"curve": "secp256r1", "c": 32, "lr": 32, "tr": 1, "ls": 31, "ts": 0, "der": 70, "inwin": True, "predParse": "same", "predVerify": "same"}
    g = ref_sigcodec(case)  # the observation a correct codec gives (reference implementation), not SPSDK's
    g["id"] = "good"
    obs = [g]
    for name, field, val in (("bad-derlen", "derLen", 71), ("bad-parse", "pDer", "wrong"), ("bad-prof", "rl", 31), ("bad-sp", "spDer", "unchanged")):
        b = json.loads(json.dumps(g))
        b["id"] = name
        b["o"][field] = val
        obs.append(b)
    rej, _ = tlc.tv("C08", "KeyCodecTrace", obs)
    if set(rej) != {"bad-derlen", "bad-parse", "bad-prof", "bad-sp"}:
        raise Machinery(f"canary (codec) failed: rejected {sorted(rej)} / observation {g['o']}")
    v.extra["canary"] = ("3 good flow traces + 1 good codec observation accepted; 17 + 4 single-field corruptions rejected "
                         "(good traces made by the independent parties / the reference codec only, none passes through SPSDK)")
    _ = key


def canary_cert(v):
    """Certificate clauses: observations whose verdict is the independent base's (never SPSDK's) are accepted, single-field corruptions rejected."""
    good = exec_cert({"kt": "ecc", "size": 384, "ih": "sha384", "sh": "sha256", "salt": 0, "library": False})
    obs = [{"id": f"good-{n}", "a": o["a"], "o": o["o"]} for n, o in enumerate(good)]
    gen_ = next(o for o in good if o["a"]["tamper"] == "none" and o["a"]["entry"] == "validate_subject")
    tam = next(o for o in good if o["a"]["tamper"] == "sigbit" and o["a"]["entry"] == "validate")
    bad = []
    for name, base, field, val in (("bad-refused", gen_, "res", "false"), ("bad-exc", gen_, "res", "exc:ValueError"), ("bad-accepted", tam, "res", "true"),
                                   ("bad-hash", gen_, "ih", "sha256"), ("bad-made", tam, "indep", True)):
        b = json.loads(json.dumps({"id": name, "a": base["a"], "o": base["o"]}))
        b["o"][field] = val
        bad.append(b)
    rej, _ = tlc.tv("C08", "CertChainTrace", obs + bad)
    if set(rej) != {b["id"] for b in bad}:
        raise Machinery(f"canary (certificates) failed: rejected {sorted(rej)}")
    v.extra["canary_certificates"] = f"{len(obs)} observations of a mixed-hash chain judged by the independent base accepted; {len(bad)} single-field corruptions rejected"


def parse_set(s):
    import re

    return set(re.findall(r'"([^"]+)"', s)) if isinstance(s, str) else set()


class Bg:
    """TLC runs side by side (threads that only wait for a JVM).  lib.tlc numbers its scratch directories with a plain
    counter, so the entries into tlc.run are spaced out; no fork happens while a thread is alive (join_all first)."""

    def __init__(self):
        import threading

        self.threading = threading
        self.jobs = {}

    def start(self, name, fn, *a, **kw):
        import time

        box = {}

        def work():
            try:
                box["v"] = fn(*a, **kw)
            except BaseException as e:  # noqa: BLE001 - re-raised in the main thread
                box["e"] = e

        t = self.threading.Thread(target=work, daemon=True)
        t.start()
        time.sleep(0.25)
        self.jobs[name] = (t, box)

    def get(self, name):
        t, box = self.jobs[name]
        t.join()
        if "e" in box:
            raise box["e"]
        return box["v"]

    def join_all(self):
        for t, _ in self.jobs.values():
            t.join()


def _memo_job(x):
    """One RSA signature made by the command line for (key, parameter set): loading an RSA private key costs up to 0.3 s, so the
    signature is made once and every behaviour that starts with this Sign step replays it (it IS what the CLI produced)."""
    ki, kt, size, pj, by, src = x
    key = pool()[(kt, size)][ki]
    P = json.loads(pj)
    r_ = rng(PROP, "climemo", key.name, pj, by, src)
    msg = bytes(r_.randrange(256) for _ in range(r_.choice([1, 32, 100, 257])))
    sig, e, facts = file_sign(key, P, msg, r_, by, src)
    return (key.name, pj, by, src), {"msg": msg.hex(), "sig": sig.hex() if sig is not None else None, "e": e, "facts": facts}


def _exec(job):
    import time

    kind, arg = job
    t0 = time.process_time()
    if kind == "cert":  # one chain -> a list of observations (tamper x entry point)
        return exec_cert(arg)
    res = exec_sigcodec(arg) if kind == "sigcodec" else exec_sigprof(arg) if kind == "sigprof" else replay_flow(arg)
    if res is not None:
        res["cpu"] = time.process_time() - t0
    return res


def run(tier):
    os.environ.pop("SPSDK_INTERACTIVE_DISABLED", None)  # read by spsdk at import: the passphrase prompt is part of the case space
    import_spsdk()
    refpk.selftest()
    v = Verdict(PROP, tier)
    r = rng(PROP)
    quick = tier == "quick"
    pool()
    cli()
    from lib.common import Timer

    tm = Timer()

    def lap(what):
        say(f"[C08] {tm.s():7.1f}s  {what}")

    # ================= phase A: TLC explores (model checking + generation), all runs side by side
    bg = Bg()
    bg.start("mc1", tlc.mc, "C08", "KeyCodecMC", "KeyCodecMC.cfg", workers=1, coverage=False, heap="6g", timeout=900)
    bg.start("mc2", tlc.mc, "C08", "KeyFlow", "KeyFlowMC.cfg", workers=2, coverage=True, timeout=900)
    # passwords: the lane "pw" takes EVERY password class of the spec through export - parse (every container, party, entry point,
    # everything that may be offered); the other key lanes mix ONE class, drawn from the seed, with everything else they vary
    # ("plain" is left to the lane "pw": all the other classes are its near misses, which would multiply those lanes by five)
    gpw = r.choice(sorted(set(PWS) - {"plain"}))
    v.extra["password_class_of_the_general_lanes"] = gpw
    # password source of signers that work from a key file: the lane "src" takes EVERY source (file open, password as argument, in the
    # provider configuration, typed at the prompt) through every parameter set, for both file signers and every key type; the general
    # signature lanes mix ONE source, drawn from the seed, with everything else they vary
    gsrc = r.choice(["open", "arg", "cfg", "prompt"])
    v.extra["password_source_of_the_general_lanes"] = gsrc
    bg.start("pw/2", gen, "key", 2, menu="pw")
    bg.start("key/2", gen, "key", 2, pw=gpw)
    bg.start("src/1", gen, "sig", 1, menu="src")
    bg.start("sig/2", gen, "sig", 2, src=gsrc)
    bg.start("sig/sweep", gen, "sig", 3, menu="sweep")
    if quick:  # deeper behaviours are drawn by simulation; the thorough tier enumerates them
        bg.start("key/sim3", gen, "key", 3, simulate="num=400", sim_depth=5, pw=gpw)
        bg.start("key/sim", gen, "key", 7, simulate="num=80", sim_depth=9, pw=gpw)
        bg.start("sig/sim3-mid", gen, "sig", 3, simulate="num=2500", sim_depth=5, menu="mid", src=gsrc)
        bg.start("sig/sim", gen, "sig", 8, simulate="num=400", sim_depth=10, src=gsrc)
    else:
        bg.start("pw/3", gen, "key", 3, menu="pw")
        bg.start("key/3", gen, "key", 3, pw=gpw)
        bg.start("key/4", gen, "key", 4, pw=gpw)
        bg.start("key/sim", gen, "key", 7, simulate="num=1500", sim_depth=9, pw=gpw)
        bg.start("src/2", gen, "sig", 2, menu="src")
        bg.start("sig/3-mid", gen, "sig", 3, menu="mid", src=gsrc)
        bg.start("sig/3", gen, "sig", 3, src=gsrc)
        bg.start("sig/sim", gen, "sig", 8, simulate="num=8000", sim_depth=10)
    bg.start("cert", tlc.mc, "C08", "CertChainMC", "CertChainMC.cfg", workers=1, coverage=False, timeout=900)
    canary(v)  # meanwhile, in the main thread (no fork)
    canary_cert(v)
    lap("canary")
    bg.join_all()
    mc1, mc2 = bg.get("mc1"), bg.get("mc2")
    v.add_mc(mc1)
    cases = mc1.json_prints()
    if len(cases) != mc1.distinct or len(cases) != 4096 + 9216 + 17161:
        raise Machinery(f"case space mismatch: TLC has {mc1.distinct} states, emitted {len(cases)}")
    check_actions(mc2, ["Export", "Parse", "ToPublic", "Sign", "Reencode", "Tamper", "Verify"])
    v.add_mc(mc2)
    lap(f"MC: length algebra {mc1.distinct} cases, flows {mc2.distinct} states / {mc2.generated} transitions")

    # ---- the work list
    if quick:  # valid-signature lane: every profile whose DER length is the own raw length or lies in the own window + samples
        own = [i for i, c in enumerate(cases) if c["der"] == c["raw"] or c["inwin"]]
        coll = [i for i, c in enumerate(cases) if c["collides"] and c["der"] != c["raw"]]
        rest = [i for i, c in enumerate(cases) if not (c["collides"] or c["inwin"])]
        idx = own + r.sample(coll, 100) + r.sample(rest, 150)
    else:
        idx = list(range(len(cases)))
    jobs = []

    def add(name, keys_per_beh, sample=None, rsa_keys=None, skew=False, allpub=False, thin=None):
        behs, g = bg.get(name)
        v.add_mc(g)
        if thin:  # keep a behaviour with the probability given for its key type (1 = the lane stays exhaustive for that type)
            behs = [b for b in behs if thin[b["size"]] >= 1 or r.random() < thin[b["size"]]]
        if skew:  # parsing an RSA private key costs 0.05 / 0.13 / 0.3 s (key validation): the quick tier takes fewer of the big ones
            w = {2048: 1.0, 3072: 0.5, 4096: 0.3}
            behs = [b for b in behs if b["kt"] == "ecc" or b["kk0"] == "pub" or r.random() < w[b["size"]]]
        if sample is not None and len(behs) > sample:
            behs = r.sample(behs, sample)
        for b in behs:
            ks = pool()[(b["kt"], b["size"])]
            n = keys_per_beh if b["kt"] == "ecc" or rsa_keys is None else rsa_keys
            if allpub and b["kk0"] == "pub":
                n = None  # public keys are cheap: every profile of the pool
            pick = range(len(ks)) if n is None else r.sample(range(len(ks)), min(n, len(ks)))
            for ki in pick:
                jobs.append({"beh": b, "key": ki, "salt": r.randrange(1 << 16), "label": name})

    seen_pw = {b["hist"][0]["pwd"] for b in bg.get("pw/2")[0]}
    if seen_pw != set(PWS):
        raise Machinery(f"password classes of the spec and of the harness differ: {sorted(seen_pw ^ set(PWS))}")
    if quick:
        # exhaustive on P-256, every second behaviour on RSA-2048; the other types are thinned (an RSA-4096 key costs 0.45 s to parse)
        add("pw/2", 1, thin={256: 1, 384: 0.2, 521: 0.2, 2048: 0.5, 3072: 0.15, 4096: 0.08})
        add("key/2", 3, rsa_keys=1, allpub=True, skew=True)
        add("key/sim3", 1, skew=True)
        add("key/sim", 1, skew=True)
        # exhaustive on every curve and on RSA-2048 (loading an RSA-4096 key from a file costs 0.3 s)
        add("src/1", 1, thin={256: 1, 384: 1, 521: 1, 2048: 1, 3072: 0.25, 4096: 0.12})
        add("sig/2", 1, sample=5000)
        add("sig/sim3-mid", 1)
        add("sig/sim", 1)
    else:
        add("pw/2", 2, rsa_keys=1)
        add("pw/3", 1, sample=15000, skew=True)
        add("key/2", None)
        add("key/3", 1, rsa_keys=1, allpub=True)
        add("key/4", 1, sample=5000)
        add("key/sim", 1)
        add("src/1", None)
        add("src/2", 1, sample=20000)
        add("sig/2", 4, rsa_keys=2)
        add("sig/3-mid", 2, rsa_keys=1)
        add("sig/3", 1, sample=40000)
        add("sig/sim", 1)
    # tamper sweep: TLC gives the shape Sign - Tamper(one bit) - Verify(same parameters); the harness prescribes the bit:
    # every bit of the signature / of a 16-byte message (thorough, for the key's customary hash), a stratified sample otherwise
    behs, g = bg.get("sig/sweep")
    v.add_mc(g)
    customary = {2048: "sha256", 3072: "sha256", 4096: "sha256", 256: "sha256", 384: "sha384", 521: "sha512"}
    for b in behs:
        ks = pool()[(b["kt"], b["size"])]
        what = b["hist"][1]["what"]
        nbits = 128 if what == "msgbit" else (b["size"] if b["kt"] == "rsa" else (2 * ((b["size"] + 7) // 8) + (9 if b["hist"][0]["P"]["enc"] == "der" else 0)) * 8)
        if not quick and b["hist"][0]["P"]["hash"] == customary[b["size"]]:
            bits = range(nbits)
        else:
            n = 20 if quick else 64
            bits = sorted(set(list(range(10)) + [nbits - 1 - i for i in range(6)] + [r.randrange(nbits) for _ in range(n)]))
        for bit in bits:
            jobs.append({"beh": b, "key": r.randrange(len(ks)), "salt": r.randrange(1 << 16), "label": "sig/sweep", "bit": bit, "msglen": 16})
    lap(f"GEN flows: {len(jobs)} replay jobs")
    work = [("sigcodec", c) for c in cases] + [("sigprof", cases[i]) for i in idx]
    fl = [("flow", j) for j in jobs]
    r.shuffle(fl)  # heavy jobs (RSA-4096 private-key parsing) are spread evenly
    jobs = [j for _, j in fl]

    # ================= phase B: the real code executes (processes; no TLC thread alive)
    need = sorted({(j["key"], j["beh"]["kt"], j["beh"]["size"], json.dumps(j["beh"]["hist"][0]["P"], sort_keys=True),
                    j["beh"]["hist"][0]["by"], j["beh"]["hist"][0]["src"])
                   for j in jobs if j["beh"]["flow"] == "sig" and j["beh"]["kt"] == "rsa" and j["beh"]["hist"][0]["by"] in ("cli", "sp")})
    for k, m in pmap(_memo_job, need, chunksize=1):
        SIGMEMO[k] = m
    lap(f"RSA signatures from key files (signature provider / command line) made once: {len(need)}")
    # certificate chains: the case space of CertChain (key type x hash of the issuer's own signature x hash of the subject's signature x
    # tamper x entry point) is TLC's; one job builds one chain with the independent base and records every (tamper, entry) on it
    mcc = bg.get("cert")
    v.add_mc(mcc)
    ccases = mcc.json_prints()
    if len(ccases) != mcc.distinct or len(ccases) != 6 * 3 * 3 * len(CERT_TAMPERS) * len(CERT_ENTRIES):
        raise Machinery(f"certificate case space mismatch: TLC has {mcc.distinct} states, emitted {len(ccases)}")
    chains = sorted({(c["kt"], c["size"], c["ih"], c["sh"]) for c in ccases})
    cjobs = [{"kt": a, "size": b, "ih": c, "sh": d, "salt": r.randrange(1 << 16)} for a, b, c, d in chains for _ in range(1 if quick else 4)]
    cobs = [o for lst in pmap(_exec, [("cert", j) for j in cjobs], chunksize=1) for o in lst]
    want = {(c["kt"], c["size"], c["ih"], c["sh"], c["tamper"], c["entry"]) for c in ccases}
    if {tuple(o["a"][k] for k in ("kt", "size", "ih", "sh", "tamper", "entry")) for o in cobs} != want:
        raise Machinery("certificate lane: executed cases differ from the case space of CertChain")
    for i, o in enumerate(cobs):
        o["id"] = i
    lap(f"certificate chains: {len(cjobs)} chains, {len(cobs)} observations")
    out = pmap(_exec, work + fl, chunksize=32)
    obs = out[: len(cases)]
    obs2 = [o for o in out[len(cases): len(work)] if o is not None]
    traces = out[len(work):]
    del out
    allobs = obs + obs2
    lap(f"executed: codec lane {len(obs)}, valid-signature lane {len(obs2)}, flows {len(traces)}")
    cpu = {"codec": sum(o["cpu"] for o in obs), "valid-signature": sum(o["cpu"] for o in obs2)}
    for t, j in zip(traces, jobs):
        cpu[j["label"]] = cpu.get(j["label"], 0.0) + t["cpu"]
    v.extra["cpu_s_by_lane"] = {k: round(x, 1) for k, x in cpu.items()}
    say(f"[C08]           CPU seconds by lane: {v.extra['cpu_s_by_lane']}")
    for i, o in enumerate(allobs):
        o["id"] = i
    for i, t in enumerate(traces):
        t["id"] = i
    bad_valid = [o for o in obs2 if not o["o"]["valid"]]
    if bad_valid:
        raise Machinery(f"constructed signature is not valid according to the independent verifiers: {bad_valid[0]}")
    v.count(len(allobs) + len(traces))
    for o in allobs:
        v.nontrivial(("codec", o["kind"], json.dumps(o["a"], sort_keys=True)))
    for t, j in zip(traces, jobs):
        if len(t["ev"]) > 1:
            v.nontrivial(("flow", json.dumps(j["beh"], sort_keys=True), t["x"]["key"], j.get("bit", -1)))
    v.sample({k: obs[12345][k] for k in ("kind", "a", "o")})
    v.sample({k: obs2[len(obs2) // 2][k] for k in ("kind", "a", "o")})
    for i in (3, len(traces) // 2, len(traces) - 5):
        v.sample({k: traces[i][k] for k in ("flow", "kt", "size", "kk0", "dflt", "ev")})

    # ================= phase C: TLC decides
    slim1 = [{k: o[k] for k in ("id", "kind", "a", "o")} for o in allobs]
    slim2 = [{k: t[k] for k in ("id", "flow", "kt", "size", "kk0", "dflt", "ev")} for t in traces]
    bg = Bg()
    bg.start("tv1", tlc.tv, "C08", "KeyCodecTrace", slim1, heap="8g", timeout=1800)
    chunk = 40000
    parts = [slim2[k:k + chunk] for k in range(0, len(slim2), chunk)]
    for n, part in enumerate(parts):
        bg.start(f"tv2-{n}", tlc.tv, "C08", "KeyFlowTrace", part, heap="8g", timeout=1800)
        if n % 3 == 2:
            bg.join_all()
    bg.join_all()
    rejc, resc = tlc.tv("C08", "CertChainTrace", [{k: o[k] for k in ("id", "a", "o")} for o in cobs])
    if resc.tuples("INCOMPLETE"):
        raise Machinery(f"trace validation (certificates) incomplete: {resc.tuples('INCOMPLETE')}")
    v.count(len(cobs))
    v.traces(len(cobs))
    for o in cobs:
        v.nontrivial(("cert", json.dumps(o["a"], sort_keys=True), o["x"]["case"]["salt"]))
    v.sample({k: cobs[len(cobs) // 2][k] for k in ("kind", "a", "o")}, limit=6)
    lap(f"TV certificates: {len(cobs)} observations, {len(rejc)} rejected")
    for oid, (_, _, _, failed) in sorted(rejc.items()):
        o = cobs[oid]
        clauses = parse_set(failed)
        if not clauses or "domain" in clauses or "made" in clauses:
            raise Machinery(f"certificate lane produced an observation outside its own case: {o} ({failed})")
        a = o["a"]
        mix = "same-hash" if a["ih"] == a["sh"] else "mixed-hash"
        v.violation(f"C08/cert/{a['kt']}{a['size']}/{a['entry']}/{a['tamper']}/{mix}/res={o['o']['res'].split(':')[0]}",
                    f"chain root(self-signed {a['ih']}) -> leaf({a['sh']}), tamper {a['tamper']}: {a['entry']} answered {o['o']['res']} "
                    f"{o['x']['detail']}; the independent verification of the leaf's signature says {o['o']['indep']}",
                    {"lane": "cert", "case": o["x"]["case"], "obs": o})
    rej, res = bg.get("tv1")
    if res.tuples("INCOMPLETE"):
        raise Machinery(f"trace validation incomplete: {res.tuples('INCOMPLETE')}")
    v.traces(len(slim1))
    lap(f"TV codec: {len(slim1)} observations, {len(rej)} rejected")
    for oid, (_, _, kind, failed) in sorted(rej.items()):
        o = allobs[oid]
        clauses = parse_set(failed)
        if not clauses or "domain" in clauses or "prof" in clauses or "valid" in clauses:
            raise Machinery(f"harness produced an observation outside its own case: {o} ({failed})")
        for key, cl, got in codec_keys(o, clauses):
            v.violation(key, f"{o['a']} (DER length {o['x']['der']}): clause {cl} observed {got} {o['x'].get('detail', {}).get(cl, '')}",
                        {"lane": o["kind"], "case": o["x"]["case"], "obs": o})
    # I-spec conformance (drift): does the as-built sniffing model still predict ECDSASignature.parse(DER)?
    conf = 0
    drift = []
    for o in obs:
        seen = o["o"]["pDer"] if o["o"]["pDer"] != "wrong" else o["x"]["detail"].get("pDer", "wrong").split(":")[0]
        if seen == o["x"]["pred"]:
            conf += 1
        elif len(drift) < 5:
            drift.append({"case": o["a"], "predicted": o["x"]["pred"], "observed": seen})
    v.extra["ispec_conformant"] = conf
    v.extra["ispec_total"] = len(obs)
    v.extra["drift_examples"] = drift
    rej = {}
    drifts = []
    for n in range(len(parts)):
        rj, res = bg.get(f"tv2-{n}")
        rej.update(rj)
        drifts += res.tuples("DRIFT")
    v.traces(len(slim2))
    lap(f"TV flows: {len(slim2)} traces, {len(rej)} rejected")
    v.extra["drift_flow"] = drifts[:10]
    v.extra["jobs_by_label"] = {lab: sum(1 for j in jobs if j["label"] == lab) for lab in sorted({j["label"] for j in jobs})}
    tampered = sum(1 for t in traces for e in t["ev"] if e["a"] == "Verify" and any(p["a"] == "Tamper" for p in t["ev"][: t["ev"].index(e)]))
    v.extra["tamper_rejected"] = f"{tampered} verifications after a tampering step, none of them 'true' unless listed as a violation"
    for tid, (matched, length, evname) in sorted(rej.items()):
        t = traces[tid]
        key = flow_key(t, matched)
        e = t["ev"][min(matched, len(t["ev"]) - 1)]
        if e["a"] == "Sign" and e["encrypted"] != (e["src"] in ("arg", "cfg", "prompt")):
            raise Machinery(f"the key file written for password source {e['src']!r} is {'' if e['encrypted'] else 'not '}encrypted: {e}")
        v.violation(key, f"{t['x']['key']}: step {matched + 1}/{length} {json.dumps(e)[:300]} {'; '.join(t['x']['notes'])[:300]}",
                    {"lane": "flow", "job": {k: x for k, x in jobs[tid].items() if k != "label"}, "trace": t})

    v.cov["rule"] = (
        "codec lane: every (curve, byte length and top bit of r and of s) - 30 473 profiles, the initial states of KeyCodecMC - concretised "
        "to integers and run through export / parse / conversion / SignatureProvider normalisation; valid-signature lane: a VALID signature per "
        "profile (public key constructed for (r, s); all profiles in the thorough tier, the colliding / in-window ones + a sample in the quick "
        "tier) verified in both encodings, with one flipped bit and another message; flow lane: behaviours of KeyFlow (exhaustive depth 2, "
        "depth 3-4 exhaustive in the thorough tier and simulated in the quick tier, simulated depth 7-8; parties: library, nxpcrypto command "
        "line, cryptography, pure Python) replayed on pool keys (RSA 2048/3072/4096, P-256/384/521 with leading zero / 0x04 / 0x30 bytes in X "
        "or Y, tiny private scalars); password lane: export - parse of private keys for EVERY password class of the spec (20: white space "
        "in front / at the end - blank, tab, CR, LF, CR LF, no-break space -, white space inside, upper case, composed / decomposed accent, "
        "200 characters and their prefix, one character, one blank) x {PEM, DER} x exporting party x everything that may be offered (the "
        "password, none, an unrelated text, every near miss) x entry point x parsing party, exhaustive (quick tier: exhaustive on "
        "P-256, every second behaviour on RSA-2048, 8-20 % on the other key types); the other key lanes use one class drawn from the seed; password-source lane: Sign from a private-key FILE "
        "(PEM or DER, drawn) by the library's signature provider (get_signature_provider -> InteractivePlainFileSP / PlainFileSP -> "
        "get_signature) and by `nxpcrypto signature create`, for EVERY parameter set (hash incl. default x PKCS#1 v1.5 / PSS resp. raw / DER) x "
        "EVERY way the password reaches the signer (file open; password as argument; inside the provider configuration string; typed at "
        "the interactive prompt - getpass patched in the worker process) x every key type, exhaustive in both tiers (thorough: every pool "
        "key and every second action); every signature of every lane is CLASSIFIED by the independent base (all (hash, padding) pairs of "
        "the matrix under which cryptography accepts it) and TLC demands exactly the requested pair; the general signature lanes use one "
        "source drawn from the seed; tamper sweep: Sign - flip bit i - Verify for every bit i of the signature / of a 16-byte message "
        "(thorough) or a stratified sample (quick); certificate lane: chains root (self-signed, hash ih) -> leaf (signed by the root key, "
        "hash sh) made with cryptography directly for EVERY key type x ih x sh (mixed-hash chains included) x {genuine, one bit of the TBS "
        "part, one bit of the signature, issuer certificate with another key} x {subject.validate(issuer), issuer.validate_subject(subject), "
        "validate_certificate_chain}, exhaustive in both tiers (the case space is CertChainMC's). A case is non-trivial if it produced at least one event beyond the key binding; "
        "distinct by (profile) resp. (behaviour, concrete key, prescribed bit)"
    )
    v.cov["exhaustive"] = True
    v.cov["checker_cmd"] = "TLC KeyCodecMC (lemmas, case space); TLC KeyFlow (complete state graph, action properties); TLC KeyCodecTrace / KeyFlowTrace (decide every observation)"
    v.cov["trusted_base"] = ["cryptography (called directly, standard parameters)", "harness/lib/refpk.py (pure-Python P-256/384/521, ECDSA verify / key recovery, RSA v1.5 / PSS verify, strict DER)", "hashlib"]
    v.assumptions += [
        "hash algorithms asserted: SHA-256 / SHA-384 / SHA-512 (and the key's default, identified independently); SHA-1, MD5, SM3 are outside the asserted domain",
        "RSA keys have public exponent 65537 and a modulus of exactly the nominal bit length (top bit set): 'leading zero' for RSA is the DER sign pad and the NXP exponent width 3 or 4",
        "a password offered for an unencrypted container, and raw byte strings that are themselves well-formed PEM / DER (inherently ambiguous), are outside the domain",
        "passwords are non-empty texts of at most 200 characters, encoded as UTF-8 (what SPSDK documents and what the independent base uses); the empty password and "
        "texts beyond the 1023-byte limit of the OpenSSL backend are outside the domain",
        "the command line receives the password of an encrypted key file through load_secret (a path, $VARIABLE or ~ is expanded, the first line of a file is stripped): "
        "only one ordinary password is handed to `nxpcrypto signature create -p`; white-space / $ / ~ passwords on the command line are not asserted",
        "the interactive prompt asks ONCE (no retry in the API): the case 'wrong passphrase typed, then the right one' does not exist; a wrong passphrase "
        "typed at the prompt (refusal, no signature) and SPSDK_INTERACTIVE_DISABLED are not exercised; whether a signer asks although it was "
        "handed the password is recorded, not judged; pre-hashed input is not offered to the file signers (no documented option)",
        "'does not verify' = anything but True (False or an exception); exception types are recorded, not judged",
        "private keys are PKCS#8 (what SPSDK exports); other containers (SEC1 / PKCS#1 private, OpenSSH) are not part of 'parsing what was exported'",
        "ECDSASignature.parse(DER) is required to return the curve of the signature although DER does not carry it (as its API promises); failures are keyed by the I-spec's prediction",
        "SM2, Dilithium / ML-DSA keys and certificates are outside the property's list",
        "certificates: only the signature verification of Certificate.validate / validate_subject / validate_certificate_chain is asserted (a signature "
        "made with hash H by the issuer key verifies with H and not after tampering); names, validity period, CA flag, path length are not judged",
    ]
    return v.finish()


def replay(path):
    import_spsdk()
    refpk.selftest()
    w = json.load(open(path))["witness"]
    if w["lane"] == "cert":
        o = exec_cert(w["case"], only=tuple(w["case"]["only"]))[0]
        o["id"] = 0
        rej, _ = tlc.tv("C08", "CertChainTrace", [{k: o[k] for k in ("id", "a", "o")}])
        say(json.dumps(o)[:3000])
    elif w["lane"] == "flow":
        t = replay_flow(w["job"])
        t["id"] = 0
        slim = {k: t[k] for k in ("id", "flow", "kt", "size", "kk0", "dflt", "ev")}
        rej, _ = tlc.tv("C08", "KeyFlowTrace", [slim])
        say(json.dumps(slim)[:3000])
        say("notes: " + "; ".join(t["x"]["notes"]))
    else:
        o = (exec_sigcodec if w["lane"] == "sigcodec" else exec_sigprof)(w["case"])
        o["id"] = 0
        rej, _ = tlc.tv("C08", "KeyCodecTrace", [{k: o[k] for k in ("id", "kind", "a", "o")}])
        say(json.dumps(o)[:3000])
    if rej:
        say(f"rejected: {rej}")
        say(f"VIOLATION property=C08 replay={path}")
        return 1
    say("replay: observation conforms")
    return 0


if __name__ == "__main__":
    sys.exit(run(sys.argv[1] if len(sys.argv) > 1 else "quick"))
