"""Growth beyond the listed properties: AHAB SIGNED MESSAGES (spsdk/image/ahab/signed_msg.py, `nxpimage signed-msg`).

spec/SYS/SignedMsg.tla       reference model: the ELE's acceptance automaton for a signed message (container header 0x89, descriptor, message
                             header, payload of every command; SRK table / signature / certificate / blob steps of C06's AhabRom, unchanged)
spec/SYS/SignedMsgMC.tla     design model, model checked: abstract builder || one tampered region || automaton (+ wrong variants TLC refutes)
spec/SYS/SignedMsgGen.tla    GEN form: the abstract cases (command x format x key type x route x value class x IV x SRK selection ...)
spec/SYS/SignedMsgTrace.tla  TRACE form: walks of the real exports (lib/signedmsg_rom.walk), tampered walks, SPSDK as third observer

Not a registered check: `./check sys_signedmsg` prints OBSERVATION lines and exits 0 (2 on machinery failure)."""
import json
import os
import struct
import traceback

from lib import signedmsg_rom as SR
from lib import ahab_rom as AR
from lib import tlc
from lib.common import ROOT, Machinery, import_spsdk, rng, say, scratch
from lib.par import pmap

LANE = "sys_signedmsg"
KEYS = os.path.join(ROOT, "keys", "ahab")
ANCH = os.path.join(ROOT, "anchors", "SYS", "signedmsg")
FAM = {1: "mimxrt1189", 2: "mimx9596"}
LIBS = ("C06",)

# documented values (PSA Crypto API constants the ELE API reference uses; signed_msg.py doc-strings) - NOT read from spsdk enums
KEX_ALG = {"HKDF SHA256": 0x09020109, "HKDF SHA384": 0x0902010A}
KDF_ALG = {"HKDF SHA256": 0x08000109, "HKDF SHA384": 0x0800010A}
KEX_TYPE = {"AES": 0x2400, "HMAC": 0x1100, "OEM_IMPORT_MK_SK": 0x9200}
KEX_LIFETIME = {"VOLATILE": 0x00, "PERSISTENT": 0x01, "PERMANENT": 0xFF}
USAGE = {"Cache": 0x4, "Encrypt": 0x100, "Decrypt": 0x200, "Sign message": 0x400, "Verify message": 0x800, "Sign hash": 0x1000,
         "Verify hash": 0x2000, "Derive": 0x4000}
LIFECYCLE = {"CURRENT": 0, "OPEN": 1, "CLOSED": 2, "LOCKED": 4}
KI_ALG = {"MD5": 0x02000003, "SHA1": 0x02000005, "SHA224": 0x02000008, "SHA256": 0x02000009, "SHA384": 0x0200000A, "SHA512": 0x0200000B}
KI_TYPE = {"AES SHA256": 0x2400, "HMAC SHA384": 0x1100, "Derived key": 0x1200, "OEM_IMPORT_MK_SK": 0x9200}
KI_LIFETIME = {"ELE_KEY_IMPORT_VOLATILE": 0xC0020000, "ELE_KEY_IMPORT_PERSISTENT": 0xC0020001, "ELE_KEY_IMPORT_PERMANENT": 0xC00200FF}
WRAP = {1: "RFC3394", 2: "AES_CBC"}

PERM = {"container": 0x01, "debug": 0x02, "secure_fuse": 0x08, "return_life_cycle": 0x10, "patch_fuses": 0x40}   # certificate permissions (as in C06)
CERT_UUID = bytes(range(0xA0, 0xB0))
HIST = {"rlc": ("life_cycle", "life_cycle"), "ksr": ("monotonic_counter", "monotonic_counter"), "dat": ("beacon", "authentication_beacon"),
        "kex": ("salt_flags", "salt_flags"), "fuse": ("data", "fuse_data")}
NOCERT = {"present": False, "perm": 0, "permData": [0] * 12, "fuse": 0, "uuid": [0] * 16, "signer": 0}
_pool = {}


def pool(kt):
    if kt not in _pool:
        _pool[kt] = [AR.load_pub_numbers(os.path.join(KEYS, f"srk{i}_{kt}.pub")) for i in range(4)]
    return _pool[kt]


# ------------------------------------------------------------------ concretisation of an abstract case
def concretise(c, safe=False):
    """abstract case (from SignedMsgGen) -> concrete case: plain numbers / names / bytes, all random choices through lib.common.rng.
    safe: only names the unchanged tree is known to take (a case refused for its names is executed a second time with these, so that the
    payload layout of the command is still walked)."""
    r = rng("SYS", "signedmsg", json.dumps(c, sort_keys=True))
    cls = c["cls"]
    usage_names = [u for u in sorted(USAGE) if not (safe and u == "Verify hash")]
    kex_types = ["OEM_IMPORT_MK_SK"] if safe else sorted(KEX_TYPE)

    def num(w):
        return {"typ": r.getrandbits(8 * w) | 1, "zero": 0, "top": (1 << (8 * w)) - 1, "over": r.getrandbits(8 * w) | 1}[cls]

    def pick(d):
        return r.choice(sorted(d))

    kind = c["kind"]
    m = {"certVer": num(1), "perm": num(1), "month": {"typ": r.randint(1, 12), "zero": 1, "top": 12, "over": r.randint(1, 12)}[cls],
         "year": {"typ": r.randint(2000, 2100), "zero": 0, "top": 4095, "over": r.randint(2000, 2100)}[cls],
         "uuid": bytes(r.getrandbits(8) for _ in range(16 if c["uuid16"] else 8))}
    cont = {"sw": num(2), "fuse": num(1)}
    if kind == "rlc":
        f = {"life_cycle": num(4)}
        W = {"life_cycle": 4}
    elif kind == "fuse":
        f = {"id": num(2), "flags": num(1), "data": [num(4) for _ in range(c["n"])]}
        W = {"id": 2, "flags": 1, "data": 4}
    elif kind == "ksr":
        f = {"monotonic_counter": num(4), "user_sab_id": num(4)}
        W = {"monotonic_counter": 4, "user_sab_id": 4}
    elif kind == "dat":
        f = {"challenge": bytes(r.getrandbits(8) for _ in range(32)) if cls != "zero" else bytes(32), "beacon": num(2)}
        W = {"beacon": 2}
    elif kind == "kex":
        f = {"key_store_id": num(4), "key_exchange_algorithm": pick(KEX_ALG), "salt_flags": num(2), "derived_key_grp": num(2),
             "derived_key_size_bits": r.choice([128, 192, 224, 256, 384, 512]), "derived_key_type": r.choice(kex_types),
             "derived_key_lifetime": pick(KEX_LIFETIME), "derived_key_usage": sorted(r.sample(usage_names, r.randint(0, 3))),
             "derived_key_permitted_algorithm": pick(KDF_ALG), "derived_key_lifecycle": pick(LIFECYCLE), "derived_key_id": num(4),
             "private_key_id": num(4), "peer_digest": bytes(r.getrandbits(8) for _ in range(32)),
             "info_digest": bytes(r.getrandbits(8) for _ in range(32))}
        if cls == "top":
            f["derived_key_usage"] = list(usage_names)
        W = {"key_store_id": 4, "salt_flags": 2, "derived_key_grp": 2, "derived_key_id": 4, "private_key_id": 4}
    else:
        bits = r.choice([128, 256] if c["wrap"] == 2 else [128, 192, 256])
        f = {"key_id": num(4), "alg": pick(KI_ALG), "usage": sorted(r.sample(usage_names, r.randint(0, 3))), "type": pick(KI_TYPE), "bits": bits,
             "lifetime": pick(KI_LIFETIME), "lifecycle": pick(LIFECYCLE), "mk_id": num(4), "wrap": c["wrap"],
             "iv": bytes(r.getrandbits(8) for _ in range(16)), "key": bytes(r.getrandbits(8) for _ in range(bits // 8)),
             "mk": bytes(r.getrandbits(8) for _ in range(32)), "srkh": bytes(r.getrandbits(8) for _ in range(32)) if r.random() < 0.5 else None}
        W = {"key_id": 4, "mk_id": 4}
    over, nover = None, 0
    if cls == "over":
        # exactly one field one beyond its width; month / year only where the route can state them (a configuration)
        cands = [("m", "certVer", 1), ("m", "perm", 1), ("c", "sw", 2), ("c", "fuse", 1)] + [("f", k, w) for k, w in sorted(W.items())]
        if c["route"] != "api":
            cands += [("m", "month", 0), ("m", "year", 0)]
        cands += [("f", n_, -1) for n_ in ("challenge", "peer_digest", "info_digest") if n_ in f]      # a byte string one byte longer than its field
        nover = len(cands)
        where, name, w = cands[c["overAt"] % len(cands)] if "overAt" in c else r.choice(cands)
        over = f"{where}.{name}"
        val = 13 if name == "month" else 4096 + r.randint(0, 4095) if name == "year" else f[name] + b"\x5a" if w == -1 else 1 << (8 * w)
        if where == "m":
            m[name] = val
        elif where == "c":
            cont[name] = val
        elif name == "data":
            f["data"][r.randrange(len(f["data"]))] = val
        else:
            f[name] = val
    for name, label in (c.get("pin") or {}).items():          # name tour: one enumerated field pinned to one documented name
        f[name] = [label] if isinstance(f[name], list) else label
    iv = bytes(r.getrandbits(8) for _ in range(32)) if c["enc"] else None
    return {"abs": c, "m": m, "cont": cont, "f": f, "iv": iv, "over": over, "safe": safe, "nover": nover}


def exp_of(k):
    """The case as the specification reads it (numbers as three 16-bit limbs, bytes as lists)."""
    c, m, f, kind = k["abs"], k["m"], k["f"], k["abs"]["kind"]
    L = SR.w3
    if kind == "rlc":
        pf = {"life_cycle": L(f["life_cycle"])}
    elif kind == "fuse":
        pf = {"id": L(f["id"]), "flags": L(f["flags"]), "data": [L(x) for x in f["data"]]}
    elif kind == "ksr":
        pf = {"monotonic_counter": L(f["monotonic_counter"]), "user_sab_id": L(f["user_sab_id"])}
    elif kind == "dat":
        pf = {"challenge": list(f["challenge"]), "beacon": L(f["beacon"])}
    elif kind == "kex":
        us = 0
        for u in f["derived_key_usage"]:
            us |= USAGE[u]
        pf = {"key_store_id": L(f["key_store_id"]), "key_exchange_algorithm": L(KEX_ALG[f["key_exchange_algorithm"]]), "salt_flags": L(f["salt_flags"]),
              "derived_key_grp": L(f["derived_key_grp"]), "derived_key_size_bits": L(f["derived_key_size_bits"]),
              "derived_key_type": L(KEX_TYPE[f["derived_key_type"]]), "derived_key_lifetime": L(KEX_LIFETIME[f["derived_key_lifetime"]]),
              "derived_key_usage": L(us), "derived_key_permitted_algorithm": L(KDF_ALG[f["derived_key_permitted_algorithm"]]),
              "derived_key_lifecycle": L(LIFECYCLE[f["derived_key_lifecycle"]]), "derived_key_id": L(f["derived_key_id"]),
              "private_key_id": L(f["private_key_id"]), "peer_digest": list(f["peer_digest"]), "info_digest": list(f["info_digest"])}
    else:
        us = 0
        for u in f["usage"]:
            us |= USAGE[u]
        pf = {"key_id": L(f["key_id"]), "alg": L(KI_ALG[f["alg"]]), "usage": L(us), "type": L(KI_TYPE[f["type"]]), "bits": L(f["bits"]),
              "lifetime": L(KI_LIFETIME[f["lifetime"]]), "lifecycle": L(LIFECYCLE[f["lifecycle"]]), "mk_id": L(f["mk_id"]), "wrap": L(f["wrap"]),
              "iv": list(f["iv"]), "keyLen": len(f["key"])}
    return {"cver": c["cver"], "enc": bool(c["enc"]), "iv": list(k["iv"]) if k["iv"] else [0] * 32,
            "cont": {"srkSet": 2, "used": c["used"], "revoke": c["revoke"], "gdet": 0, "sw": k["cont"]["sw"], "fuse": k["cont"]["fuse"], "kt": c["kt"],
                     "blob": False, "keyBits": 0, "keyId": [0, 0], "cert": cert_exp(c), "img": []},
            "msg": {"certVer": L(m["certVer"]), "perm": L(m["perm"]), "month": L(m["month"]), "year": L(m["year"]), "uuid": list(m["uuid"])},
            "pl": {"kind": kind, "f": pf}}


def cert_exp(c):
    ce = c.get("cert")
    if not ce:
        return NOCERT
    p = 0
    for label in ce["perms"]:
        p |= PERM[label]
    return {"present": True, "perm": p, "permData": [0] * 12, "fuse": 3, "uuid": list(CERT_UUID), "signer": ce["signer"]}


# ------------------------------------------------------------------ driving the real code
CMD_LABEL = {"rlc": "RETURN_LIFECYCLE_UPDATE_REQ", "fuse": "WRITE_SEC_FUSE_REQ", "ksr": "KEYSTORE_REPROVISIONING_ENABLE_REQ", "kex": "KEY_EXCHANGE_REQ",
             "kimp": "KEY_IMPORT_REQ", "dat": "DAT_AUTHENTICATION_REQ"}


def config_of(k, workdir):
    c, m, f, kind, kt = k["abs"], k["m"], k["f"], k["abs"]["kind"], k["abs"]["kt"]
    if kind == "rlc":
        cmd = f["life_cycle"]
    elif kind == "fuse":
        cmd = {"id": f["id"], "flags": f["flags"], "data": [f"0x{x:08X}" for x in f["data"]]}
    elif kind == "ksr":
        cmd = {"monotonic_counter": f["monotonic_counter"], "user_sab_id": f["user_sab_id"]}
    elif kind == "dat":
        cmd = {"challenge_vector": f["challenge"].hex(), "authentication_beacon": f["beacon"]}
    elif kind == "kex":
        cmd = {n: f[n] for n in ("key_store_id", "key_exchange_algorithm", "salt_flags", "derived_key_grp", "derived_key_size_bits", "derived_key_type",
                                 "derived_key_lifetime", "derived_key_usage", "derived_key_permitted_algorithm", "derived_key_lifecycle",
                                 "derived_key_id", "private_key_id")}
        cmd["input_peer_public_key_digest"] = "0x" + f["peer_digest"].hex()
        cmd["input_user_fixed_info_digest"] = "0x" + f["info_digest"].hex()
    else:
        cmd = {"key_id": f["key_id"], "key_import_algorithm": f["alg"], "key_usage": f["usage"], "key_type": f["type"], "key_size_bits": f["bits"],
               "key_lifetime": f["lifetime"], "key_lifecycle": f["lifecycle"], "oem_mk_sk_key_id": f["mk_id"], "key_wrapping_algorithm": WRAP[f["wrap"]],
               "signing_algorithm": "CMAC", "import_key": "0x" + f["key"].hex(), "oem_import_mk_sk_key": "0x" + f["mk"].hex()}
        if f["wrap"] == 2:
            cmd["iv"] = "0x" + f["iv"].hex()
        if f["srkh"]:
            cmd["srkh"] = "0x" + f["srkh"].hex()
    cfg = {"family": FAM[c["cver"]], "revision": "latest", "output": os.path.join(workdir, "out.bin"), "srk_set": "oem", "used_srk_id": c["used"],
           "srk_revoke_mask": c["revoke"], "fuse_version": k["cont"]["fuse"], "sw_version": k["cont"]["sw"],
           "signing_key": os.path.join(KEYS, f"srk{c['used']}_{kt}.pem"),
           "srk_table": {"flag_ca": False, "srk_array": [os.path.join(KEYS, f"srk{i}_{kt}.pub") for i in range(4)]},
           "message": {"cert_version": m["certVer"], "cert_permission": m["perm"], "issue_date": f"{m['year']:04d}-{m['month']:02d}", "uuid": m["uuid"].hex(),
                       "command": {CMD_LABEL[kind]: cmd}}}
    if c.get("cert"):
        import yaml

        ce = c["cert"]
        cp = os.path.join(workdir, "cert.yaml")
        with open(cp, "w") as fh:
            yaml.safe_dump({"family": FAM[c["cver"]], "revision": "latest", "permissions": list(ce["perms"]), "fuse_version": 3, "uuid": "0x" + CERT_UUID.hex(),
                            "public_key_0": os.path.join(KEYS, f"imgkey_{kt}.pub"), "signing_key_0": os.path.join(KEYS, f"srk{ce['signer']}_{kt}.pem")}, fh)
        cfg["certificate"] = cp
        if "container" in ce["perms"]:
            cfg["signing_key"] = os.path.join(KEYS, f"imgkey_{kt}.pem")
    if k["iv"] and c["route"] != "api":
        p = os.path.join(workdir, "iv.bin")
        with open(p, "wb") as fh:
            fh.write(k["iv"])
        cfg["iv_path"] = p
    return cfg


def message_by_ctor(k):
    """route api: the message object built by the constructor of its class."""
    from spsdk.image.ahab import ahab_data as D
    from spsdk.image.ahab import signed_msg as S

    m, f, kind = k["m"], k["f"], k["abs"]["kind"]
    common = dict(cert_ver=m["certVer"], permissions=m["perm"], issue_date=(m["month"] << 12) | m["year"], unique_id=m["uuid"])
    if k["abs"]["uuid16"]:
        common["unique_id_len"] = 16
    if kind == "rlc":
        return S.MessageReturnLifeCycle(life_cycle=f["life_cycle"], **common)
    if kind == "fuse":
        return S.MessageWriteSecureFuse(fuse_id=f["id"], length=len(f["data"]), flags=f["flags"], data=list(f["data"]), **common)
    if kind == "ksr":
        return S.MessageKeyStoreReprovisioningEnable(monotonic_counter=f["monotonic_counter"], user_sab_id=f["user_sab_id"], **common)
    if kind == "dat":
        return S.MessageDat(challenge_vector=f["challenge"], authentication_beacon=f["beacon"], **common)
    if kind == "kex":
        return S.MessageKeyExchange(
            key_store_id=f["key_store_id"], key_exchange_algorithm=D.KeyAlgorithm.from_tag(KEX_ALG[f["key_exchange_algorithm"]]), salt_flags=f["salt_flags"],
            derived_key_grp=f["derived_key_grp"], derived_key_size_bits=f["derived_key_size_bits"], derived_key_type=D.KeyType.from_tag(KEX_TYPE[f["derived_key_type"]]),
            derived_key_lifetime=D.LifeTime.from_tag(KEX_LIFETIME[f["derived_key_lifetime"]]), derived_key_usage=[D.KeyUsage.from_tag(USAGE[u]) for u in f["derived_key_usage"]],
            derived_key_permitted_algorithm=D.KeyDerivationAlgorithm.from_tag(KDF_ALG[f["derived_key_permitted_algorithm"]]),
            derived_key_lifecycle=D.LifeCycle.from_tag(LIFECYCLE[f["derived_key_lifecycle"]]), derived_key_id=f["derived_key_id"], private_key_id=f["private_key_id"],
            input_peer_public_key_digest=f["peer_digest"], input_user_fixed_info_digest=f["info_digest"], **common)
    msg = S.MessageKeyImport(
        key_id=f["key_id"], key_import_algorithm=D.KeyAlgorithm.from_tag(KI_ALG[f["alg"]]), key_usage=[D.KeyUsage.from_tag(USAGE[u]) for u in f["usage"]],
        key_type=D.KeyType.from_tag(KI_TYPE[f["type"]]), key_size_bits=f["bits"], key_lifetime=D.LifeTime.from_tag(KI_LIFETIME[f["lifetime"]]),
        key_lifecycle=D.LifeCycle.from_tag(LIFECYCLE[f["lifecycle"]]), oem_import_mk_sk_key_id=f["mk_id"],
        wrapping_algorithm=D.WrappingAlgorithm.from_tag(f["wrap"]), iv=f["iv"], **common)
    msg.wrap_and_sign(private_key=f["key"], oem_import_mk_sk_key=f["mk"], srkh=f["srkh"])
    return msg


def build(k, workdir):
    """-> (bytes | None, refusal {documented, exc} | None, reported SRK hashes, the SignedMessage object | None)"""
    from spsdk.exceptions import SPSDKError
    from spsdk.image.ahab.signed_msg import SignedMessage

    c = k["abs"]
    try:
        if c["route"] == "cli":
            from click.testing import CliRunner

            from spsdk.apps import nxpimage

            cfg = config_of(k, workdir)
            p = os.path.join(workdir, "cfg.json")
            with open(p, "w") as fh:
                json.dump(cfg, fh)
            res = CliRunner().invoke(nxpimage.main, ["signed-msg", "export", "-c", p], catch_exceptions=True)
            if res.exit_code != 0 or res.exception is not None:
                e = res.exception
                doc = isinstance(e, (SPSDKError, SystemExit)) or e is None
                return None, {"documented": bool(doc), "exc": type(e).__name__ if e is not None else f"exit{res.exit_code}", "msg": norm_msg(e)}, None, None
            data = open(cfg["output"], "rb").read()
            sm = SignedMessage(FAM[c["cver"]])
            try:
                sm.parse(data)
                hashes_ = [sm.get_srk_hash(0)]
            except Exception:  # noqa: BLE001 - the walk does not depend on it; the round-trip observer reports a parse problem
                hashes_ = None
                cont = SignedMessage._get_signed_message_class(FAM[c["cver"]])
                try:
                    hashes_ = [cont.SIGNATURE_BLOCK.parse(data[struct.unpack_from("<H", data, 12)[0]:], sm.chip_config).srk_assets.compute_srk_hash(0)]
                except Exception:  # noqa: BLE001
                    hashes_ = None
            return data, None, hashes_, None
        if c["route"] == "cfg":
            sm = SignedMessage.load_from_config(config_of(k, workdir))
        else:
            base = dict(k)
            sm = SignedMessage.load_from_config(config_of({**k, "m": {**k["m"], "certVer": 0, "perm": 0, "month": 1, "year": 2024}, "cont": {"sw": 0, "fuse": 0},
                                                           "f": _plain_fields(k), "iv": None}, workdir))
            cont = sm.signed_msg_container
            cont.message = message_by_ctor(k)
            cont.sw_version, cont.fuse_version = k["cont"]["sw"], k["cont"]["fuse"]
            cont.encrypt_iv = k["iv"]
            del base
        sm.update_fields()
        data = sm.export()
        return data, None, [sm.get_srk_hash(0)], sm
    except SPSDKError as e:
        return None, {"documented": True, "exc": type(e).__name__, "msg": norm_msg(e)}, None, None
    except Exception as e:  # noqa: BLE001
        return None, {"documented": False, "exc": type(e).__name__, "msg": norm_msg(e)}, None, None


def norm_msg(e):
    """First line of an exception text with the numbers taken out (part of an observation key: stable over seeds as far as possible)."""
    import re

    t = (str(e).strip().splitlines() or [""])[0]
    t = re.sub(r"0x[0-9a-fA-F]+|\b[0-9a-fA-F]{8,}\b|\d+", "#", t)
    t = re.sub(r"/[^ ]*/", "", t)
    return re.sub(r"[^A-Za-z0-9#_.:\- ]", "", t)[:90].strip()


def _plain_fields(k):
    """In-range stand-in fields for the configuration from which route `api` takes the container / signature block (the message is replaced)."""
    kind, f = k["abs"]["kind"], dict(k["f"])
    if kind == "kex":
        f.update(derived_key_type="OEM_IMPORT_MK_SK", derived_key_usage=["Derive"])
    if kind == "kimp":
        f.update(usage=["Derive"])
    for name, val in list(f.items()):
        if isinstance(val, int) and name not in ("bits", "wrap", "derived_key_size_bits"):
            f[name] = 1
        if name == "data":
            f[name] = [1] * len(val)
        if name in ("challenge", "peer_digest", "info_digest"):
            f[name] = val[:32]
    return f


def observers(k, data, sm0, workdir):
    """SPSDK as third observer of its own export: parse back / equal object / equal re-export / verify; configuration round trip."""
    from spsdk.exceptions import SPSDKError
    from spsdk.image.ahab.signed_msg import SignedMessage

    fam = FAM[k["abs"]["cver"]]
    rt = {"ev": "SpsdkRoundTrip", "crash": "", "parseOk": False, "equalObj": False, "reexportEq": False, "verifyClean": False, "why": ""}
    cr = {"ev": "SpsdkConfigRoundTrip", "crash": "", "loaded": False, "sameSigned": False, "why": ""}
    sm = SignedMessage(fam)
    try:
        sm.parse(data)
        rt["parseOk"] = True
        rt["verifyClean"] = not sm.verify().has_errors
        rt["reexportEq"] = sm.export() == data
        if sm0 is not None:
            a, b = sm0.signed_msg_container, sm.signed_msg_container
            rt["equalObj"] = (a.flags, a.fuse_version, a.sw_version, a.encrypt_iv) == (b.flags, b.fuse_version, b.sw_version, b.encrypt_iv) \
                and _canon(a.message.create_config()) == _canon(b.message.create_config())
        else:
            rt["equalObj"] = True
    except SPSDKError as e:
        rt["why"] = f"{type(e).__name__}:{norm_msg(e)}"
    except Exception as e:  # noqa: BLE001
        rt["crash"] = type(e).__name__
        rt["why"] = str(e)[:160]
    if rt["parseOk"]:
        try:
            d = os.path.join(workdir, "cfgrt")
            os.makedirs(d, exist_ok=True)
            cfg = sm.create_config(d)
            cfg["output"] = os.path.join(d, "o.bin")
            cfg["signing_key"] = os.path.join(KEYS, f"imgkey_{k['abs']['kt']}.pem" if "container" in (k["abs"].get("cert") or {}).get("perms", ())
                                              else f"srk{k['abs']['used']}_{k['abs']['kt']}.pem")       # the private key is not in the file
            if k["abs"]["kind"] == "kimp" and "import_key" not in str(cfg):
                pass
            sm2 = SignedMessage.load_from_config(cfg, search_paths=[d])
            cr["loaded"] = True
            sm2.update_fields()
            d2 = sm2.export()
            g = sig_at(data)
            cr["sameSigned"] = len(d2) == len(data) and d2[:g] == data[:g]
            if not cr["sameSigned"]:
                cr["why"] = f"first difference at {next((i for i in range(min(len(d2), len(data))) if d2[i] != data[i]), -1)}"
        except SPSDKError as e:
            cr["why"] = f"{type(e).__name__}:{norm_msg(e)}"
        except Exception as e:  # noqa: BLE001
            cr["crash"] = type(e).__name__
            cr["why"] = str(e)[:160]
    return rt, cr


def _canon(x):
    """A configuration with its lists of names (key usages: a set) in one order."""
    if isinstance(x, dict):
        return {k_: _canon(v) for k_, v in x.items()}
    if isinstance(x, list):
        return sorted(x) if all(isinstance(i, str) for i in x) and not any(str(i).startswith("0x") for i in x) else [_canon(i) for i in x]
    return x


def sig_at(data):
    s = struct.unpack_from("<H", data, 12)[0]
    return s + struct.unpack_from("<H", data, s + 8)[0]


def spsdk_verdict(fam, data):
    """SPSDK's parse + verify on a (tampered) file, the way `nxpimage signed-msg verify` goes about it."""
    from spsdk.exceptions import SPSDKError
    from spsdk.image.ahab.signed_msg import SignedMessage

    out = {"ev": "SpsdkTamperVerdict", "crash": "", "reported": False}
    try:
        if SignedMessage.pre_parse_verify(data).has_errors:
            out["reported"] = True
            return out
        sm = SignedMessage(fam)
        sm.parse(data)
        out["reported"] = bool(sm.verify().has_errors)
    except SPSDKError:
        out["reported"] = True
    except Exception as e:  # noqa: BLE001
        out["crash"] = type(e).__name__
    return out


def sec_of(k, hashes_):
    f = k["f"]
    return {"cver": k["abs"]["cver"], "pool": pool(k["abs"]["kt"]), "spsdk_srk_hash": hashes_,
            "certkey": AR.load_pub_numbers(os.path.join(KEYS, f"imgkey_{k['abs']['kt']}.pub")) if k["abs"].get("cert") else None,
            "kimp": {"key": f["key"], "mk": f["mk"], "srkh": f["srkh"]} if k["abs"]["kind"] == "kimp" else None}


def run_case(item):
    """One abstract case -> the groups of traces it yields (a group: export trace first; its observer traces refer to it by position).
    A valid case refused for the NAMES it uses (SPSDKKeyError) is executed a second time with names the tree is known to take."""
    idx, c, n_tamper = item
    import logging

    logging.disable(logging.CRITICAL)
    first = run_concrete(str(idx), c, concretise(c), n_tamper)
    ref = first[0]["info"].get("refusal")
    if ref and ref["exc"] == "SPSDKKeyError" and first[0]["info"].get("over") is None and c["kind"] in ("kex", "kimp"):
        return [first, run_concrete(f"{idx}s", c, concretise(c, safe=True), n_tamper)]
    return [first]


def run_concrete(idx, c, k, n_tamper):
    x = exp_of(k)
    wd = os.path.join(scratch(), f"case-{os.getpid()}-{idx}")
    os.makedirs(wd, exist_ok=True)
    group = []
    info = {"case": c, "over": k["over"], "safe": k["safe"]}
    try:
        data, refusal, hashes_, sm0 = build(k, wd)
    except Exception as e:  # noqa: BLE001
        data, refusal, hashes_, sm0 = None, {"documented": False, "exc": "harness:" + type(e).__name__, "msg": traceback.format_exc()[-300:]}, None, None
    if data is None:
        info["refusal"] = refusal
        group.append({"id": f"e{idx}", "exp": x, "ev": [{"ev": "ExportRefused", "documented": refusal["documented"], "exc": refusal["exc"], "msg": refusal.get("msg", "")}], "info": info, "role": "export"})
        return group
    sec = sec_of(k, hashes_)
    ev = SR.walk(data, sec)
    group.append({"id": f"e{idx}", "exp": x, "ev": ev, "info": info, "role": "export"})
    rt, cr = observers(k, data, sm0, wd)
    group.append({"id": f"r{idx}", "exp": x, "ev": [{"ev": "Resume", "ref": 0}, rt], "info": info, "role": "roundtrip"})
    if rt["parseOk"]:                # without a parsed object there is no configuration to go round with (reported by the round-trip trace)
        group.append({"id": f"c{idx}", "exp": x, "ev": [{"ev": "Resume", "ref": 0}, cr], "info": info, "role": "cfgroundtrip"})
    if n_tamper and sm0 is not None and c["kind"] in HIST:
        # history on ONE object: a field of the message is changed after the first export, update_fields() + export() again - the second file
        # has to walk to Accept for the CHANGED case (stale length / signature / payload would show here)
        name, attr = HIST[c["kind"]]
        k2 = json.loads(json.dumps(k, default=lambda b: {"__b": b.hex()}), object_hook=lambda d: bytes.fromhex(d["__b"]) if "__b" in d else d)
        try:
            if c["kind"] == "fuse":
                k2["f"]["data"] = list(k["f"]["data"]) + [0x01020304]
                sm0.signed_msg_container.message.fuse_data = list(k2["f"]["data"])
                sm0.signed_msg_container.message.length = len(k2["f"]["data"])
            else:
                k2["f"][name] = (k["f"][name] + 1) & 0xFFFF
                setattr(sm0.signed_msg_container.message, attr, k2["f"][name])
            sm0.update_fields()
            d2 = sm0.export()
            group.append({"id": f"h{idx}", "exp": exp_of(k2), "ev": SR.walk(d2, sec_of(k2, [sm0.get_srk_hash(0)])), "info": info, "role": "history"})
        except Exception as e:  # noqa: BLE001
            group.append({"id": f"h{idx}", "exp": exp_of(k2), "ev": [{"ev": "HistoryCrashed", "exc": type(e).__name__}], "info": info, "role": "history"})
    if n_tamper and ev and ev[-1]["ev"] == "MsgAccept":
        r = rng("SYS", "signedmsg-tamper", idx)
        j = 0
        for fld in SR.fields(data, c["cver"]):
            pos = SR.bit_positions(fld)
            for at, bit in r.sample(pos, min(n_tamper, len(pos))):
                j += 1
                bad = bytearray(data)
                bad[at] ^= 1 << bit
                bad = bytes(bad)
                ti = dict(info, cls=fld[0], at=at, bit=bit)
                group.append({"id": f"t{idx}.{j}", "exp": x, "ev": SR.walk(bad, sec), "info": ti, "role": "tamper"})
                group.append({"id": f"o{idx}.{j}", "exp": x, "ev": [{"ev": "Resume", "ref": 0}, {"ev": "Tamper", "at": at, "bit": bit, "cls": fld[0]},
                                                                      spsdk_verdict(FAM[c["cver"]], bad)], "info": ti, "role": "observer"})
    return group


# ------------------------------------------------------------------ canary and anchors (no SPSDK)
def canary():
    """Known-good traces NOT produced by the code under test: messages built by lib.signedmsg_rom.ref_build (pure `cryptography`) and the golden
    files of the repository's tests; each must be accepted, each with one corrupted field / bit rejected."""
    kt = "ecc256"
    priv = open(os.path.join(KEYS, f"srk1_{kt}.pem"), "rb").read()
    traces, want_rej = [], set()
    r = rng("SYS", "signedmsg-canary")
    rb = lambda n: bytes(r.getrandbits(8) for _ in range(n))  # noqa: E731
    cases = [("rlc", {"life_cycle": 16}), ("fuse", {"id": 0x1234, "flags": 3, "data": [0xDEADBEEF, 1, 0xFFFFFFFF]}),
             ("ksr", {"monotonic_counter": 7, "user_sab_id": 0x80000001}), ("dat", {"challenge": rb(32), "beacon": 0xBEEF}),
             ("kex", {"key_store_id": 5, "key_exchange_algorithm": "HKDF SHA384", "salt_flags": 2, "derived_key_grp": 99, "derived_key_size_bits": 256,
                      "derived_key_type": "HMAC", "derived_key_lifetime": "PERMANENT", "derived_key_usage": ["Derive", "Encrypt"],
                      "derived_key_permitted_algorithm": "HKDF SHA256", "derived_key_lifecycle": "LOCKED", "derived_key_id": 0x11223344, "private_key_id": 9,
                      "peer_digest": rb(32), "info_digest": rb(32)}),
             ("kimp", {"key_id": 0x01020304, "alg": "SHA256", "usage": ["Derive"], "type": "AES SHA256", "bits": 256, "lifetime": "ELE_KEY_IMPORT_PERSISTENT",
                       "lifecycle": "CURRENT", "mk_id": 5, "wrap": 1, "iv": bytes(16), "key": rb(32), "mk": rb(32), "srkh": None}),
             ("kimp", {"key_id": 2, "alg": "SHA512", "usage": [], "type": "HMAC SHA384", "bits": 128, "lifetime": "ELE_KEY_IMPORT_VOLATILE",
                       "lifecycle": "OPEN", "mk_id": 0xFFFFFFFF, "wrap": 2, "iv": rb(16), "key": rb(16), "mk": rb(32), "srkh": rb(32)})]
    for i, (kind, f) in enumerate(cases):
        c = {"kind": kind, "cver": 1, "kt": kt, "route": "ref", "enc": i % 2 == 1, "cls": "typ", "used": 1, "revoke": 4, "uuid16": False,
             "n": len(f.get("data", [1])), "wrap": f.get("wrap", 1)}
        k = {"abs": c, "m": {"certVer": 3, "perm": 0x81, "month": 12, "year": 2031, "uuid": rb(8)}, "cont": {"sw": 0x0102, "fuse": 7}, "f": f,
             "iv": rb(32) if i % 2 == 1 else None, "over": None}
        x = exp_of(k)
        num = dict(f)
        if kind == "kex":
            us = 0
            for u in f["derived_key_usage"]:
                us |= USAGE[u]
            num.update(key_exchange_algorithm=KEX_ALG[f["key_exchange_algorithm"]], derived_key_type=KEX_TYPE[f["derived_key_type"]],
                       derived_key_lifetime=KEX_LIFETIME[f["derived_key_lifetime"]], derived_key_usage=us,
                       derived_key_permitted_algorithm=KDF_ALG[f["derived_key_permitted_algorithm"]], derived_key_lifecycle=LIFECYCLE[f["derived_key_lifecycle"]])
        if kind == "kimp":
            us = 0
            for u in f["usage"]:
                us |= USAGE[u]
            num.update(alg=KI_ALG[f["alg"]], usage=us, type=KI_TYPE[f["type"]], lifetime=KI_LIFETIME[f["lifetime"]], lifecycle=LIFECYCLE[f["lifecycle"]])
        data, srkh = SR.ref_build({"used": 1, "revoke": 4, "sw": 0x0102, "fuse": 7, "enc": c["enc"], "iv": k["iv"], "month": 12, "year": 2031, "perm": 0x81,
                                   "certVer": 3, "kind": kind, "uuid": k["m"]["uuid"], "f": num}, priv, pool(kt))
        sec = sec_of(k, [srkh])
        ev = SR.walk(data, sec)
        traces.append({"id": f"cg{i}", "exp": x, "ev": ev})
        gi = len(traces)
        # one flipped bit in the payload / the header / the SRK table: rejected
        for j, at in enumerate((60 + 8 + 1, 8, struct.unpack_from("<H", data, 12)[0] + 40)):
            bad = bytearray(data)
            bad[at] ^= 0x10
            traces.append({"id": f"cb{i}.{j}", "exp": x, "ev": SR.walk(bytes(bad), sec)})
            want_rej.add(f"cb{i}.{j}")
        # the same walk with one corrupted field: the signature said to cover one byte less
        ev2 = json.loads(json.dumps(ev))
        for e in ev2:
            if e["ev"] == "VerifySignature":
                e["signedTo"] -= 1
        traces.append({"id": f"cf{i}", "exp": x, "ev": ev2})
        want_rej.add(f"cf{i}")
        # the same walk against a case that asked for something else
        x2 = json.loads(json.dumps(x))
        x2["msg"]["perm"] = SR.w3(0x80)
        traces.append({"id": f"cx{i}", "exp": x2, "ev": ev})
        want_rej.add(f"cx{i}")
        # observers: a tamper inside the authenticated range that SPSDK is said to have reported is accepted, one it missed rejected; outside the range rejected
        g = sig_at(data)
        for tag, at, rep in (("co", g - 1, True), ("cm", g - 1, False), ("cu", g + 2, True)):
            traces.append({"id": f"{tag}{i}", "exp": x, "ev": [{"ev": "Resume", "ref": gi}, {"ev": "Tamper", "at": at, "bit": 0, "cls": "x"},
                                                               {"ev": "SpsdkTamperVerdict", "crash": "", "reported": rep}]})
            if tag != "co":
                want_rej.add(f"{tag}{i}")
    # golden files of the repository's tests (anchors): key import = complete walk, wrapped key and CMAC checked with the key files next to it;
    # key exchange and field return = up to the signature (the configuration of the first names SRK 0 but signs with SRK 1, the signature of the
    # second verifies under none of the four keys over [0, signature) - a stale golden, the repository's test compares the bytes in front of it only)
    gp = [AR.load_pub_numbers(os.path.join(ANCH, f"golden_srk{i}_ecc256.pub")) for i in range(4)]
    L = SR.w3
    gcont = {"srkSet": 2, "used": 0, "revoke": 0, "gdet": 0, "sw": 0, "fuse": 0, "kt": "ecc256", "blob": False, "keyBits": 0, "keyId": [0, 0], "cert": NOCERT, "img": []}

    def golden(name, msg, pl, kimp=None, upto=None):
        data = open(os.path.join(ANCH, name), "rb").read()
        s = struct.unpack_from("<H", data, 12)[0]
        tab = data[s + 16:s + 16 + struct.unpack_from("<H", data, s + 17)[0]]
        import hashlib

        ev = SR.walk(data, {"cver": 1, "pool": gp, "spsdk_srk_hash": [hashlib.sha256(tab).digest()], "kimp": kimp})
        x = {"cver": 1, "enc": False, "iv": [0] * 32, "cont": gcont, "msg": msg, "pl": pl}
        traces.append({"id": "g-" + name[11:-4], "exp": x, "ev": ev[:upto] if upto else ev})

    uu = list(bytes.fromhex("5C3C74B6C0204467"))
    golden("signed_msg_oem_field_return.bin", {"certVer": L(0), "perm": L(0), "month": L(12), "year": L(2022), "uuid": uu}, {"kind": "rlc", "f": {"life_cycle": L(16)}}, upto=6)
    golden("signed_msg_key_exchange.bin", {"certVer": L(0), "perm": L(0), "month": L(9), "year": L(2024), "uuid": [0] * 8},
           {"kind": "kex", "f": {"key_store_id": L(1), "key_exchange_algorithm": L(0x09020109), "salt_flags": L(1), "derived_key_grp": L(1), "derived_key_size_bits": L(256),
                                 "derived_key_type": L(0x9200), "derived_key_lifetime": L(1), "derived_key_usage": L(0x4000), "derived_key_permitted_algorithm": L(0x08000109),
                                 "derived_key_lifecycle": L(0), "derived_key_id": L(2), "private_key_id": L(1), "peer_digest": [0xDF] + [0] * 31, "info_digest": [0] * 32}}, upto=6)
    golden("signed_msg_key_import.bin", {"certVer": L(0), "perm": L(0), "month": L(1), "year": L(2025), "uuid": uu},
           {"kind": "kimp", "f": {"key_id": L(1), "alg": L(0x02000009), "usage": L(0x4000), "type": L(0x2400), "bits": L(256), "lifetime": L(0xC0020001), "lifecycle": L(0),
                                  "mk_id": L(5), "wrap": L(1), "iv": [0] * 16, "keyLen": 32}},
           kimp={"key": open(os.path.join(ANCH, "aes_key.bin"), "rb").read(), "mk": open(os.path.join(ANCH, "oem_import_mk_sk_key.bin"), "rb").read(), "srkh": None})
    for t in traces:
        for e in t["ev"]:
            if e["ev"] == "Resume" and e["ref"] <= 0:
                raise Machinery("canary: bad reference")
    rej, res = tlc.tv("SYS", "SignedMsgTrace", traces, libs=LIBS)
    if set(rej) != want_rej:
        raise Machinery(f"signed-message canary failed: rejected {sorted(rej.items())}, expected exactly {sorted(want_rej)}")
    return len(traces), res


# ------------------------------------------------------------------ design model and case generation
MC_RUNS = (("SignedMsgMC_ok.cfg", None), ("SignedMsgMC_shortsig.cfg", "TamperRejected"), ("SignedMsgMC_uuid.cfg", "RoundTrip"),
           ("SignedMsgMC_nohash.cfg", "TamperRejected"), ("SignedMsgMC_reach.cfg", "Reaches"))
MC_ACTIONS = ("Build", "MsgContainerHeader", "Descriptor", "MessageHeader", "Payload", "SignatureBlock", "SrkTable", "VerifySignature", "ContainerEnd",
              "MsgAccept", "Reject", "ParseBack")


def gen_cases(tier):
    g = tlc.run("SYS", "SignedMsgGen", "SignedMsgGen.cfg", workers=2, deadlock=False, env={"MC_FULL": "1" if tier == "thorough" else "0"}, timeout=900)
    if not g.no_error:
        raise Machinery(f"SignedMsgGen failed:\n{g.out[-1200:]}")
    rows = {json.dumps(x, sort_keys=True) for x in g.json_prints()}
    cases = [json.loads(s_) for s_ in sorted(rows)]
    if len(cases) != g.distinct:
        raise Machinery(f"SignedMsgGen: {len(cases)} cases read, {g.distinct} states")
    return cases, g


def mc_job(item):
    """One configuration of the design model (runs in a pool worker next to the case executions: one JVM, own scratch names)."""
    from lib import common

    i, cfg, want, tier = item
    saved = common._scratch
    sub = os.path.join(scratch(), f"mc-{i}")
    os.makedirs(sub, exist_ok=True)
    common._scratch = sub
    try:
        return tlc.run("SYS", "SignedMsgMC", cfg, workers=2, deadlock=False, coverage=(want is None), libs=LIBS, timeout=900,
                       env={"MC_FULL": "1" if tier == "thorough" else "0"})
    finally:
        common._scratch = saved


def mc_verdicts(outs):
    res = {}
    for (cfg, want), g in zip(MC_RUNS, outs):
        res[cfg] = {"violated": g.violated, "distinct": g.distinct, "generated": g.generated}
        if g.violated != want:
            raise Machinery(f"SignedMsgMC {cfg}: violated={g.violated}, expected {want}\n{g.out[-1500:]}")
        if want is None:
            if not g.no_error:
                raise Machinery(f"SignedMsgMC {cfg} did not complete:\n{g.out[-1500:]}")
            vac = [a for a in MC_ACTIONS if g.coverage.get(a, (0, 0))[1] == 0]
            if vac:
                raise Machinery(f"SignedMsgMC {cfg}: actions never fired: {vac}")
            res[cfg]["coverage"] = {a: g.coverage[a][1] for a in MC_ACTIONS}
    return res


def pool_item(item):
    return mc_job(item[1:]) if item[0] == "mc" else run_case(item[1:])


# ------------------------------------------------------------------ keys of observations
def region(cls):
    return cls.split(".")[0]


def key_of(t, matched, evname):
    """Key of an observation, derived from the witness: role / clause that rejected / what distinguishes the input class."""
    c = t["info"]["case"]
    role = t["role"]
    fmt = f"v{c['cver']}"
    e = t["ev"][min(matched, len(t["ev"]) - 1)]
    over = t["info"].get("over")
    if role == "export":
        if evname == "ExportRefused":
            if over is None:
                return f"export/valid-input-refused/{e.get('exc')}:{e.get('msg')}/{c['kind']}" + ("" if e.get("exc") == "SPSDKKeyError" else f",{fmt}")
            return f"export/undocumented-exception:{e.get('exc')}/over={over.split('.')[0]}.*,{'cli' if c['route'] == 'cli' else 'lib'}"
        if evname == "MsgAccept" and over:
            return f"export/Carried/value-beyond-field-exported/{c['kind']},{c['route']},over={over}"
        extra = ""
        if evname == "Descriptor":
            extra = f",{c['route']}" + (",iv-supplied" if c["enc"] else "")
        if evname == "MessageHeader":
            extra = (",uuid128" if c["uuid16"] else "") + (f",over={over}" if over else "")
        if evname == "Payload":
            extra = f",{c['kind']},{c['route']}" + (f",over={over}" if over else "") + (",cbc" if c["kind"] == "kimp" and c["wrap"] == 2 else "")
        if evname == "Certificate":
            extra = ",signed-by-another-srk" if c["cert"]["signer"] != c["used"] else "," + "+".join(c["cert"]["perms"])
        if evname == "VerifySignature":
            extra = ",selected-srk-revoked" if (c["revoke"] >> c["used"]) & 1 else f",{c['kt']}"
        if evname in ("MsgContainerHeader", "SignatureBlock", "SrkTable", "ContainerEnd", "MsgAccept", "Malformed"):
            extra = f",{c['kind']},{c['kt']}" + (f",over={over}" if over else "")
        return f"export/{evname}/{fmt}{extra}"
    if role == "roundtrip":
        if matched == 0:
            return None
        bad = [n for n in ("parseOk", "equalObj", "reexportEq", "verifyClean") if not e.get(n)]
        what = "crash:" + e["crash"] if e.get("crash") else (bad[0] if bad else "?")
        return f"roundtrip/{what}/{c['kind']},{fmt}" + (f"/{e['why']}" if e.get("why") and not e.get("crash") else "")
    if role == "cfgroundtrip":
        if matched == 0:
            return None
        bad = "crash:" + e["crash"] if e.get("crash") else "not-loadable" if not e.get("loaded") else "other-bytes"
        return f"config-roundtrip/{bad}/{c['kind'] if c['kind'] == 'kimp' else '*'},{fmt}" + (",iv-supplied" if c["enc"] else "") + \
            (f"/{e['why']}" if e.get("why") and not e.get("loaded") and not e.get("crash") else "")
    if role == "observer":
        if matched == 0:
            return None
        if matched == 1:
            return f"MACHINERY/tamper-outside-coverage/{t['info']['cls']}"
        return f"tamper-not-reported-by-spsdk/{'crash:' + e['crash'] if e.get('crash') else region(t['info']['cls'])},{fmt}"
    if role == "history":
        return f"history/second-export-of-one-object/{evname}/{c['kind']},{fmt}"
    return f"?/{role}/{evname}"


def run(tier):
    import_spsdk()
    os.environ.setdefault("JDK_JAVA_OPTIONS", "-Xss256m")
    import time

    t0 = time.time()
    n_canary, _ = canary()
    say(f"[SYS/signedmsg] canary: {n_canary} traces of reference-built / golden messages decided as expected ({time.time() - t0:.0f} s)")
    cases, g = gen_cases(tier)
    # tamper tours: the plainest case of every command x format (route cfg, typical values, no IV)
    n_t = 2 if tier == "thorough" else 1
    items = []
    for i, c in enumerate(cases):
        plain = c["route"] == "cfg" and c["cls"] == "typ" and not c["enc"] and c["kt"] == "ecc256" and c["used"] == 0 and c["revoke"] == 0 and not c["uuid16"] \
            and c["n"] == 1 and c["wrap"] == 1
        rsa = c["kt"] in ("rsa2048", "ecc521") and c["cver"] == 1
        items.append((i + 1, c, n_t if (plain or rsa) else 0))
    # over tour: on the library routes of format 1 EVERY field of the message is taken one beyond its width in turn (elsewhere: one field drawn per case)
    expanded = []
    for idx, c, nt in items:
        if c["cls"] == "over" and c["route"] in ("api", "cfg") and not c["enc"] and (c["cver"] == 1 or tier == "thorough"):
            expanded += [(0, dict(c, overAt=j), 0) for j in range(concretise(c)["nover"])]
        else:
            expanded.append((idx, c, nt))
    items = [(i + 1, c, nt) for i, (_, c, nt) in enumerate(expanded)]
    # name tour: every documented name of every enumerated field once (configuration route, both formats in the thorough tier)
    tour = {"kex": {"key_exchange_algorithm": KEX_ALG, "derived_key_type": KEX_TYPE, "derived_key_lifetime": KEX_LIFETIME, "derived_key_usage": USAGE,
                    "derived_key_permitted_algorithm": KDF_ALG, "derived_key_lifecycle": LIFECYCLE},
            "kimp": {"alg": KI_ALG, "type": KI_TYPE, "lifetime": KI_LIFETIME, "usage": USAGE, "lifecycle": LIFECYCLE}}
    for kind in sorted(tour):
        for name in sorted(tour[kind]):
            for label in sorted(tour[kind][name]):
                for cver in ((1, 2) if tier == "thorough" else (1,)):
                    items.append((len(items) + 1, {"kind": kind, "cver": cver, "kt": "ecc256", "route": "cfg", "enc": False, "cls": "typ", "used": 0, "revoke": 0,
                                                   "uuid16": False, "n": 1, "wrap": 1, "pin": {name: label}}, 0))
    # certificate tour (format 2, configuration route): permissions without / with `container` (then the certificate's key signs the message),
    # signed by the selected SRK - or by another one, which the device refuses
    for kind, perms, used, signer in (("rlc", ["return_life_cycle"], 0, 0), ("ksr", ["debug"], 1, 1), ("dat", ["debug", "container"], 0, 0), ("rlc", ["container"], 2, 2),
                                      ("rlc", ["return_life_cycle"], 0, 1)):
        items.append((len(items) + 1, {"kind": kind, "cver": 2, "kt": "ecc256", "route": "cfg", "enc": False, "cls": "typ", "used": used, "revoke": 0,
                                       "uuid16": False, "n": 1, "wrap": 1, "cert": {"perms": perms, "signer": signer}}, 0))
    t1 = time.time()
    jobs = [("mc", i, cfg, want, tier) for i, (cfg, want) in enumerate(MC_RUNS)] + [("case",) + it for it in items]
    outs = pmap(pool_item, jobs, chunksize=1)          # the design model's configurations run next to the case executions
    mc = mc_verdicts(outs[:len(MC_RUNS)])
    say(f"[SYS/signedmsg] design model: {json.dumps({k: (v['violated'] or 'holds', v['distinct']) for k, v in mc.items()})}")
    groups = [gr for grs in outs[len(MC_RUNS):] for gr in grs]
    say(f"[SYS/signedmsg] {len(items)} cases executed on the real code, design model checked ({time.time() - t1:.0f} s)")
    # batches of whole groups (observer traces refer to their export trace by position)
    batches, cur = [], []
    for gr in groups:
        if len(cur) + len(gr) > 700:
            batches.append(cur)
            cur = []
        base = len(cur)
        for t in gr:
            for e in t["ev"]:
                if e["ev"] == "Resume":
                    e["ref"] = base + 1
        cur += gr
    if cur:
        batches.append(cur)

    def validate(b):
        rej, res = tlc.tv("SYS", "SignedMsgTrace", [{"id": t["id"], "exp": t["exp"], "ev": t["ev"]} for t in b], libs=LIBS, heap="3g", timeout=1500)
        done = res.tuples("DONE")
        if not done or done[0][0] != len(b):
            raise Machinery(f"trace validation did not reach its post-condition: {done}")
        return rej, res.distinct, res.generated

    from lib import ptv  # noqa: F401  (children need their own scratch names)
    from lib import common

    def work(item):
        i, b = item
        saved = common._scratch
        sub = os.path.join(scratch(), f"tvb-{i}")
        os.makedirs(sub, exist_ok=True)
        common._scratch = sub
        try:
            return validate(b)
        finally:
            common._scratch = saved

    outs = pmap(work, list(enumerate(batches)), procs=min(6, len(batches)), chunksize=1) if len(batches) >= 4 else [work(x) for x in enumerate(batches)]
    rej, states, trans = {}, 0, 0
    for r_, d_, g_ in outs:
        rej.update(r_)
        states += d_
        trans += g_
    by = {t["id"]: t for gr in groups for t in gr}
    classes, tamper_total, tamper_accepted = {}, 0, []
    for tid, t in by.items():
        if t["role"] == "tamper":
            tamper_total += 1
            if tid not in rej:
                tamper_accepted.append(t["info"])
    for tid, (matched, length, evname) in sorted(rej.items()):
        t = by[tid]
        if t["role"] == "tamper":
            continue
        key = key_of(t, matched, evname)
        if key is None:
            continue            # the export trace it refers to was rejected itself: reported there
        wit = {"id": tid, "case": t["info"]["case"], "over": t["info"].get("over"), "at": [matched, length, evname],
               "event": {k_: v for k_, v in t["ev"][min(matched, len(t["ev"]) - 1)].items() if k_ not in ("bytes", "iv", "uuid", "wrapped", "sig", "ivKi")}}
        classes.setdefault(key, []).append(wit)
    for info in tamper_accepted:
        classes.setdefault(f"tamper-accepted-by-automaton/{info['cls']},v{info['case']['cver']}", []).append({"case": info["case"], "at": info["at"], "bit": info["bit"]})
    n_exports = sum(1 for t in by.values() if t["role"] == "export")
    n_accept = sum(1 for tid, t in by.items() if t["role"] == "export" and tid not in rej and t["ev"][-1]["ev"] == "MsgAccept")
    n_refused = sum(1 for tid, t in by.items() if t["role"] == "export" and tid not in rej and t["ev"][-1]["ev"] == "ExportRefused")
    out = {"design_model": mc, "gen": {"cases": len(cases), "distinct": g.distinct}, "canary_traces": n_canary, "executions": n_exports,
           "exports_accepted": n_accept, "refusals_accepted": n_refused, "traces": len(by), "tamper_walks": tamper_total,
           "tamper_walks_rejected": tamper_total - len(tamper_accepted), "tlc_states": states, "tlc_transitions": trans, "rejected": len(rej) - (tamper_total - len(tamper_accepted)),
           "classes": {k_: {"count": len(v), "example": v[0]} for k_, v in sorted(classes.items())}, "tier": tier}
    os.makedirs(os.path.join(ROOT, "evidence", "extras"), exist_ok=True)
    for name in ("sys_signedmsg.json", "signedmsg.json"):
        with open(os.path.join(ROOT, "evidence", "extras", name), "w") as fh:
            json.dump(out, fh, indent=1, default=str)
    for k_, v in sorted(classes.items()):
        say(f"OBSERVATION: {LANE} {k_} ({len(v)}x, e.g. {json.dumps(v[0], default=str)[:260]})")
    if any(k_.startswith("MACHINERY") for k_ in classes):
        raise Machinery("a tamper position of the field map lies outside the intervals the automaton authenticated")
    say(f"[SYS/signedmsg] tier={tier} cases={len(cases)} exports={n_exports} accepted={n_accept} refused-as-demanded={n_refused} traces={len(by)} "
        f"tamper-walks={tamper_total} (rejected {tamper_total - len(tamper_accepted)}) states={states} classes={len(classes)} (observations only - not a listed property)")
    return 0


def replay(path):
    return run("quick")
