"""SDPS part of C10: executable twin of an i.MX ROM in stream-download mode (USB-HID) + job generation.

The twin knows the wire format on its own (31-byte command block wrapper, report ids, report sizes); the ROM parameters of a family
(command / no command, report size) are read from the device files with a plain YAML reader, not through SPSDK's database code."""
import glob
import os
import struct

NOCBW = {"sig": [0, 0], "tag": [0, 0], "xfer": [0, 0], "flags": 0, "rsvZero": True, "cmd": 0, "cdbLen": [0, 0], "padZero": True}


def W(v):
    v &= 0xFFFFFFFF
    return [v >> 16, v & 0xFFFF]


def rom_params(repo):
    """family -> (no_cmd, hid_ep1, pack) for every device file that names the sdps protocol."""
    import yaml

    out = {}

    def find(node):
        if isinstance(node, dict):
            if node.get("protocol") == "sdps" and isinstance(node.get("protocol_params"), dict):
                return node["protocol_params"]
            for x in node.values():
                r = find(x)
                if r is not None:
                    return r
        return None

    for p in sorted(glob.glob(os.path.join(repo, "spsdk", "data", "devices", "*", "database.yaml"))):
        txt = open(p).read()
        if "sdps" not in txt:
            continue
        pp = find(yaml.safe_load(txt))
        if pp and all(k in pp for k in ("no_cmd", "hid_ep1", "hid_pack_size")):
            out[os.path.basename(os.path.dirname(p))] = (bool(pp["no_cmd"]), bool(pp["hid_ep1"]), int(pp["hid_pack_size"]))
    return out


class SdpsTwin:
    """The device end of the HID pipe. fault_at: index of the report (counted over the whole history) the link does not take."""

    def __init__(self, fault_at):
        from spsdk.exceptions import SPSDKConnectionError

        self.Err = SPSDKConnectionError
        self.fault_at = fault_at
        self.n = 0
        self._o, self._t = False, 5000
        self.trace = []
        self.data = b""
        self.pos = 0
        self.dead = False
        self.budget = 0

    is_opened = property(lambda s: s._o)
    timeout = property(lambda s: s._t, lambda s, v: setattr(s, "_t", v))

    def open(self):
        self._o = True

    def close(self):
        self._o = False

    def __str__(self):
        return "sdps-twin"

    def begin(self, data, budget):
        self.data, self.pos, self.dead, self.budget = data, 0, False, budget

    def read(self, length, timeout=None):
        raise self.Err("nothing to read: the protocol has no device-to-host traffic")

    def write(self, data, timeout=None):
        data = bytes(data)
        self.budget -= 1
        if self.budget < 0:
            raise KeyboardInterrupt()
        k, self.n = self.n, self.n + 1
        rid, body = (data[0], data[1:]) if data else (0, b"")
        ev = {"ev": "h2d", "rid": rid, "size": len(body), "fault": "none", "cbw": dict(NOCBW), "inOrder": True}
        if rid == 1 and len(body) >= 31:
            sig, tag, xfer, flags, rsv, cmd, cdblen, rsv2 = struct.unpack("<IIIB2sB4s11s", body[:31])
            ev["cbw"] = {"sig": W(sig), "tag": W(tag), "xfer": W(xfer), "flags": flags, "rsvZero": not any(rsv) and not any(rsv2), "cmd": cmd,
                         "cdbLen": W(int.from_bytes(cdblen, "big")), "padZero": not any(body[31:])}
        if self.dead or k == self.fault_at:
            ev["fault"] = "lost"
            self.dead = True
            self.trace.append(ev)
            raise self.Err("the device did not take the report")
        if rid == 2:
            want = self.data[self.pos:self.pos + len(body)]
            ev["inOrder"] = body[:len(want)] == want and not any(body[len(want):])
            self.pos += len(want)
        self.trace.append(ev)


def run_sdps(job):
    """job = (id, [(family, length), ...], fault_at | -1)."""
    from spsdk.exceptions import SPSDKError
    from spsdk.sdp.interfaces.usb import SdpUSBInterface
    from spsdk.sdp.sdps import SDPS

    jid, calls, fault_at = job
    params = run_sdps.params
    twin = SdpsTwin(fault_at)
    evs = []
    for fam, length in calls:
        no_cmd, ep1, pack = params[fam]
        data = bytes((i * 29 + 3 + length) & 0xFF for i in range(length))
        if length:
            data = data[:-1] + b"\x5a"          # the last byte is never the padding value
        twin.trace = []
        twin.begin(data, (length + pack - 1) // pack + 8)
        call = {"ev": "call", "op": "write_file", "len": length, "noCmd": no_cmd, "pack": pack, "ep1": ep1, "family": fam}
        res = {"ev": "result", "kind": "ret", "ok": False, "documented": True, "exc": "none"}
        try:
            s = SDPS(SdpUSBInterface(twin), fam)
            s.open()
            s.write_file(data)
            res["ok"] = True
        except SPSDKError as e:
            res.update(kind="exc", exc=type(e).__name__, documented=True)
        except KeyboardInterrupt:
            res.update(kind="unbounded", exc="unbounded", documented=False)
        except BaseException as e:  # noqa: BLE001
            res.update(kind="exc", exc=type(e).__name__, documented=False)
        evs += [call] + twin.trace + [res]
    return {"id": jid, "ev": [norm(e) for e in evs], "job": [jid, [list(c) for c in calls], fault_at]}


def norm(e):
    return {"ev": e["ev"], "op": e.get("op", "none"), "len": int(e.get("len", 0)), "noCmd": bool(e.get("noCmd", True)), "pack": int(e.get("pack", 1)),
            "rid": int(e.get("rid", 0)), "size": int(e.get("size", 0)), "fault": e.get("fault", "none"), "cbw": e.get("cbw", NOCBW),
            "inOrder": bool(e.get("inOrder", True)), "kind": e.get("kind", "none"), "ok": bool(e.get("ok", False)),
            "documented": bool(e.get("documented", True)), "exc": e.get("exc", "none")}


def sdps_jobs(tier, r, params):
    """Histories of one or two downloads in one process: every ROM parameter class, lengths around the report size, a lost report at every position class."""
    classes = {}
    for fam, p in sorted(params.items()):
        classes.setdefault(p, []).append(fam)
    reps = [v[0] for v in classes.values()] if tier == "quick" else sorted(params)
    jobs, n = [], 0

    def lens(pack):
        base = [0, 1, 30, 31, 32, pack - 1, pack, pack + 1, 2 * pack - 1, 2 * pack, 2 * pack + 1, 5000, 65536]
        return base + [r.randrange(1, 65537) for _ in range(2 if tier == "quick" else 12)]

    for fam in reps:
        no_cmd, _, pack = params[fam]
        for ln in lens(pack):
            n += 1
            jobs.append((f"sdps-{n}", [(fam, ln)], -1))
            total = (ln + pack - 1) // pack + (0 if no_cmd else 1)
            pts = sorted({0, 1, total - 1, total // 2} | ({r.randrange(total) for _ in range(2)} if total else set())) if tier == "quick" else range(total)
            for k in pts:
                if 0 <= k < total:
                    n += 1
                    jobs.append((f"sdps-{n}", [(fam, ln)], k))
    # two downloads in one process: every ordered pair of parameter classes (the report sizes are process-wide state of the library)
    for a in reps:
        for b in reps:
            for la, lb in ((params[a][2] + 1, params[b][2] * 2), (5000, params[b][2] - 1), (0, 2 * params[b][2] + 1)):
                n += 1
                jobs.append((f"sdps-{n}", [(a, la), (b, lb)], -1))
                ta = (la + params[a][2] - 1) // params[a][2] + (0 if params[a][0] else 1)
                n += 1
                jobs.append((f"sdps-{n}", [(a, la), (b, lb)], ta + 1))           # the second download loses a report
    return jobs
