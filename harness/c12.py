"""C12 - per-device configuration areas: template, configuration and binary round trip over the whole device database.

spec/C12/Registers.tla   bit-vector semantics of a register file (the finished R-spec of C11, copied unchanged)
spec/C12/CfgArea.tla     the area as a state machine: Template / LoadConfig / SetValues / Export / Parse / GetConfig / NewObject
 MC  : CfgAreaMC on two small layouts (computed fields, reversed group, seal, hidden register / size bit-field, conditional
       register), lemmas = the clauses of the property
 GEN : CfgAreaGen (-simulate) emits schedules of area operations with the class of every write
 run : every (kind, family, revision, sub-area) SPSDK offers - enumerated through each class's own queries - is driven through
       the canonical schedules (and a seeded subset through the generated ones) on 16 cores; layouts come from the database
       files, observations (raw value of every leaf register, values decoded from the exported bytes, sizes, facts) are logged
 TV  : CfgAreaTrace recomputes every step; the first failing clause of a rejected trace names the finding.
 size / control dimension: CfgArea.tla defines the case space (SizeCtrlCases: size class x control level) for areas whose configuration carries a
       DERIVED size bit-field (XMCD header.configurationBlockSize) and / or a CONTROL bit-field that decides which registers exist (XMCD optionSize, option
       word OptionSize / AcTimingMode); CfgAreaMC explores it on the small layouts (lemmas ExportedSizeHolds, AnnouncedSizeIgnored), CfgAreaGen prints it
       and generates case steps, sched_sizectrl runs every case on every such area, CfgAreaTrace classifies what was really loaded (COV / APPL lines).
 command-line route: the tools the property names as observation points (pfr, ifr, nxpimage bca | fcf | tz | bootable-image fcb | xmcd, nxpfuses,
       nxpmemcfg) are driven through click's test runner in the workers (c12_cli.py, schedule sched_tool): the template a tool writes, the binary a
       tool writes from a configuration FILE (its `type` spelled as SPSDK's own files spell it / in lower / upper case; with and without Root of
       Trust keys given as -sf files or as a certificate-block / MBI configuration) and the configuration a tool writes from a binary FILE are
       further observations of the SAME events (Template / Export / GetConfig): the existing clauses decide (ExportFaithful, ComputedHold,
       BytesStable - the tool's bytes equal the library's for the same state -, Rotkh - against hashlib over the pool keys -, ConfigRoundTrip ...).
 register map / alias dimension: which register FILE an area works on is itself part of the for-all over the device database.  c12_rawdb walks the alias
       chain of every family in the RAW database.yaml files (device folder first, then each aliased device in turn; features merged as the files say - no
       SPSDK database code); the Layout event of EVERY area logs the chain, the folders that hold the register file, the register map (names, offsets / OTP
       indexes, widths) of each such file and the map a fresh real object exposes; CfgArea.tla picks the prescribed file (Nearest: the nearest own file - a
       device in between with its own file is not skipped; composition law AliasComposes checked by TLC in CfgAreaMC) and CfgAreaTrace decides clause
       RegisterMap.  The run fails as machinery unless every area - and every family that is an alias of an alias - was decided (demand_alias_reach).
"""
import copy
import hashlib
import json
import re
import os
import time

from lib import tlc
from lib.common import Machinery, import_spsdk, rng, say, scratch, sha
from lib.par import pmap
from lib.verdict import Verdict

import c12_areas as A
import c12_cli as CLI
import c12_rawdb as RAW

PROP = "C12"
SPEC = "C12"


# ------------------------------------------------------------------ small layouts for MC / GEN
def _fld(name, off, width, reset=0, hidden=False, shr=0):
    return {"name": name, "uid": f"{name}-{off}", "off": off, "width": width, "reset": A.bits_of(reset), "shr": shr, "hidden": hidden, "enums": {}, "decl_off": None,
            "enum_names_unique": True, "name_value": {}}


def _leaf(name, off, fields=(), width=32, hidden=False, preset=0, comp="", parent=0, cond=None):
    return {"name": name, "uid": name, "kind": "leaf", "width": width, "reverse": False, "parent": parent, "subs": [], "rso": False, "fields": list(fields), "off": off,
            "hidden": hidden, "preset": A.bits_of(preset), "preset_ambiguous": False, "fields_width": sum(f["width"] for f in fields), "comp": comp, "compfield": 0,
            "cond": cond or {"c": 0, "f": 0, "op": "", "k": 0}, "altw": [], "hexstr": False}


def tiny_layouts():
    pfr = {"kind": "tiny-pfr", "hasbin": True, "size": 32, "seal": [8, 9], "regs": [
        _leaf("DCFG", 0, [_fld("PIN", 0, 4), _fld("DFLT", 4, 12), _fld("INV", 16, 16, hidden=True)], comp="inv_hi16"),
        _leaf("BOOT", 4, [_fld("SPEED", 0, 2, reset=1), _fld("MODE", 2, 3), _fld("HIDDEN_BITFIELD_005", 5, 27, hidden=True)], preset=1),
        {"name": "ROTKH", "uid": "rotkh", "kind": "group", "width": 64, "decl_width": 64, "subs_width": 64, "reverse": True, "parent": 0, "subs": [4, 5], "rso": False, "fields": [],
         "off": 8, "hidden": False, "preset": [], "preset_ambiguous": False, "fields_width": 0, "comp": "", "compfield": 0, "cond": {"c": 0, "f": 0, "op": "", "k": 0},
         "altw": [32], "hexstr": True, "missing_subs": []},
        _leaf("ROTKH0", 8, parent=3), _leaf("ROTKH1", 12, parent=3),
        _leaf("LOCK", 16, [_fld("VAL", 0, 8), _fld("NVAL", 8, 8, hidden=True), _fld("REST", 16, 16)], comp="inv_lo8"),
        _leaf("RESV", 20, hidden=True, preset=0x80000001),
        _leaf("SHA0", 24), _leaf("SHA1", 28)]}
    xm = {"kind": "tiny-xmcd", "hasbin": True, "size": 0, "seal": [], "sizefld": {"r": 1, "f": 1}, "regs": [
        _leaf("header", 0, [_fld("size", 0, 12), _fld("type", 12, 4), _fld("rest", 16, 12), _fld("tag", 28, 4, reset=0xC)], preset=0xC0000000),
        _leaf("opt0", 4, [_fld("x", 0, 8), _fld("pad", 8, 16), _fld("optionSize", 24, 4, reset=1), _fld("tag", 28, 4, reset=0xC)], preset=0xC1000000),
        _leaf("opt1", 8, [_fld("y", 0, 4), _fld("z", 4, 28)], cond={"c": 2, "f": 3, "op": "ne", "k": 0})]}
    return [pfr, xm]


# ------------------------------------------------------------------ values and writes
VALUE_CLASSES = ("zero", "ones", "top", "one", "alt", "rnd", "rnd", "maxm1")


def value_of(cls, w, r):
    if w <= 0:
        return 0
    full = (1 << w) - 1
    if cls == "zero":
        return 0
    if cls == "ones":
        return full
    if cls == "top":
        return 1 << (w - 1)
    if cls == "one":
        return 1
    if cls == "maxm1":
        return full - 1 if w > 1 else 0
    if cls == "alt":
        return int(("10" * w)[:w], 2)
    return r.getrandbits(w)


# registers whose value identifies the binary for its own parser (tag / version words) or the area itself: a configuration
# that changes them is legitimately refused by the parser - they are not written by generated actions
SIGNATURE_REGS = {"fcb": {"tag", "version"}, "bca": {"TAG"}, "xmcd": {"header"}, "tiny-xmcd": {"header"}}


def targets(lay):
    """Writable targets of a layout by role: field (r, f), compfield (r, f), reg r, group r."""
    sig = SIGNATURE_REGS.get(lay.get("kind", ""), set())
    res = {"field": [], "compfield": [], "reg": [], "group": []}
    names = {}
    for r in lay["regs"]:
        if not r["hidden"]:
            names[r["name"]] = names.get(r["name"], 0) + 1
    for i, r in enumerate(lay["regs"], 1):
        if r["hidden"] or r["name"] in sig or names.get(r["name"], 0) != 1 or r.get("preset_ambiguous") or r.get("binfree") or r["comp"].startswith("unknown"):
            continue
        if r["parent"] and (lay["regs"][r["parent"] - 1]["name"] in sig or lay.get("kind") not in ("cmpa", "cfpa", "romcfg", "cmactable", "tiny-pfr")):
            continue        # members of a group are configured by name only in the PFR / IFR tools (other schemas list top-level registers)
        if r["kind"] == "group":
            if r["width"] == r.get("subs_width", r["width"]) and not r.get("missing_subs") and r["subs"]:
                res["group"].append(i)
            continue
        fn = {}
        for f in r["fields"]:
            fn[f["name"]] = fn.get(f["name"], 0) + 1
        for k, f in enumerate(r["fields"], 1):
            if f["hidden"] or f.get("computed") or f["width"] <= 0 or fn[f["name"]] != 1 or f.get("shr_unknown") or f["off"] + f["width"] > r["width"]:
                continue
            res["compfield" if r["comp"] else "field"].append((i, k))
        if r["parent"] == 0 and not r["comp"] and A.config_faithful(r):
            res["reg"].append(i)      # (registers whose bit-fields cannot carry every value are reported by the Layout clauses, not written whole)
    return res


# ------------------------------------------------------------------ control bit-fields and the size bit-field (generator side)
# The CASES (size class x control level) are enumerated by TLC (SizeCtrlCases of CfgArea.tla, printed by CfgAreaGen); the functions below
# only CONCRETISE a case on a real layout.  Whether a concrete configuration really belongs to the case it was made for is decided by
# the trace form (COV lines), as is every observation; a wrong computation here can only end in a machinery failure, never in a verdict.
def ctrl_fields(lay):
    """(register, bit-field) pairs that the condition of some register names, in layout order."""
    res = []
    for x in lay["regs"]:
        c = x["cond"]
        if c["c"] and (c["c"], c["f"]) not in res:
            res.append((c["c"], c["f"]))
    return res


def cond_holds(c, val):
    return {"ne": val != c["k"], "eq": val == c["k"], "ge": val >= c["k"]}.get(c["op"], True)


def ctrl_menu(lay, c, f):
    """Boundary values of a control bit-field: around every threshold a condition names, and both ends of its range."""
    top = (1 << lay["regs"][c - 1]["fields"][f - 1]["width"]) - 1
    ks = {x["cond"]["k"] for x in lay["regs"] if (x["cond"]["c"], x["cond"]["f"]) == (c, f)}
    return sorted({v for k in ks for v in (k - 1, k, k + 1) if 0 <= v <= top} | {0, top})


def ctrl_state(lay, vals):
    """(control level, size in bytes of the registers that exist) when the control bit-fields hold `vals` {(c, f): value}."""
    n = nc = size = 0
    for x in lay["regs"]:
        if x["kind"] != "leaf":
            continue
        c = x["cond"]
        if not c["c"]:
            size += x["width"] // 8
            continue
        nc += 1
        if (c["c"], c["f"]) not in vals:
            return None, None
        if cond_holds(c, vals[(c["c"], c["f"])]):
            n += 1
            size += x["width"] // 8
    return ("max" if n == nc else "min" if n == 0 else "mid"), size


def size_menu(lay, cls, size, others):
    """Values of the size bit-field of one class relative to the real size: nearest boundary first, then the ends of the range, the size
    of the header alone, the sizes the other control levels would have."""
    sf = lay.get("sizefld") or {"r": 0}
    top = (1 << lay["regs"][sf["r"] - 1]["fields"][sf["f"] - 1]["width"]) - 1
    hs = lay.get("hsize", 4)
    if cls == "eq":
        menu = [size]
    elif cls == "lt":
        menu = [size - 1, 0, hs] + sorted(o for o in others if o < size) + [size - 4, 1, size // 2]
    else:
        menu = [size + 1, top] + sorted(o for o in others if o > size) + [size + 4, 2 * size, top - 1]
    res = []
    for v in menu:
        if 0 <= v <= top and v not in res and ((cls == "eq") or (cls == "lt" and v < size) or (cls == "gt" and v > size)):
            res.append(v)
    return res


def present_field(fl, stored, r):
    """A bit-field value as a configuration would present it: number, hex / decimal string, or the enum name that stands for it."""
    v = stored << fl["shr"]
    nv = fl.get("name_value", {})
    pv = present_int(v, r)
    if not fl["shr"] and stored in fl["enums"] and nv.get(str(fl["enums"][stored]), stored) == stored and r.random() < 0.5:
        return fl["enums"][stored]
    if isinstance(pv, str) and pv in nv:
        return v
    return pv


def make_sizectrl(lay, s, r):
    """Concretise one case: control bit-fields at a boundary value that selects level s["ctrl"] ("min" / "mid" / "max", "#k": the k-th
    value of the boundary menu, "mix"), the size bit-field announcing a size of class s["size"] ("eq" / "lt" / "gt", "mix") for the
    registers that exist THEN, and s["n"] further bit-fields (the content of the conditional registers matters).  [] = the layout has no
    such case."""
    cf = ctrl_fields(lay)
    sf = lay.get("sizefld") or {"r": 0, "f": 0}
    want, szcls, sub, csub = s.get("ctrl"), s.get("size"), s.get("sub", 0), s.get("csub", s.get("sub", 0))
    pick = (lambda m: m[sub % len(m)]) if isinstance(sub, int) else (lambda m: r.choice(m))            # the announced size
    cpick = (lambda m: m[csub % len(m)]) if isinstance(csub, int) else (lambda m: r.choice(m))        # the control value
    vals, others = {}, set()
    if cf and want:
        for c, f in cf:
            menu = ctrl_menu(lay, c, f)
            if want == "mix":
                cand = menu
            elif want.startswith("#"):
                cand = menu[int(want[1:]):int(want[1:]) + 1]
            elif len(cf) == 1:
                cand = [v for v in menu if ctrl_state(lay, {(c, f): v})[0] == want]
            else:
                cand = []          # (several control bit-fields: no real layout has them; levels are not targeted)
            if not cand:
                return []
            vals[(c, f)] = cpick(cand)
            if len(cf) == 1:
                others = {ctrl_state(lay, {(c, f): v})[1] for v in menu}
    elif cf and szcls:
        return []              # the real size depends on a control bit-field this step does not set
    elif not cf and want not in (None, "max", "mix", "#0"):
        return []              # no conditional register: every register exists
    writes = []
    if s.get("n"):
        skip = set(vals) | {(sf["r"], sf["f"])}
        cregs = [i for i, x in enumerate(lay["regs"], 1) if x["cond"]["c"]]
        extra = [w for w in make_writes(lay, "field", "rnd", r, s["n"] + 2) if (w[0]["r"], w[0]["f"]) not in skip and w[0]["f"] > 0]
        if cregs:              # a bit-field of a conditional register is always among them
            tg = [t for t in targets(lay)["field"] if t[0] in cregs]
            if tg and not any(w[0]["r"] in cregs for w in extra):
                ri, fi = r.choice(tg)
                fl = lay["regs"][ri - 1]["fields"][fi - 1]
                st = value_of(r.choice(("ones", "alt", "rnd", "one")), fl["width"], r)
                extra.insert(0, ({"r": ri, "f": fi, "v": A.bits_of(st << fl["shr"]), "aw": 0}, (lay["regs"][ri - 1]["name"], fl["name"], present_field(fl, st, r))))
        writes += extra[:s["n"]]
    for (c, f), v in vals.items():
        fl = lay["regs"][c - 1]["fields"][f - 1]
        writes.append(({"r": c, "f": f, "v": A.bits_of(v << fl["shr"]), "aw": 0}, (lay["regs"][c - 1]["name"], fl["name"], present_field(fl, v, r))))
    if sf["r"] and szcls:
        size = ctrl_state(lay, vals)[1]
        if size is None:
            return []
        cls = szcls if szcls != "mix" else r.choice(("eq", "lt", "gt"))
        menu = size_menu(lay, cls, size, others - {None})
        if not menu:
            return []
        v = pick(menu)
        fl = lay["regs"][sf["r"] - 1]["fields"][sf["f"] - 1]
        writes.append(({"r": sf["r"], "f": sf["f"], "v": A.bits_of(v), "aw": 0}, (lay["regs"][sf["r"] - 1]["name"], fl["name"], present_field(fl, v, r))))
    if not vals and not (sf["r"] and szcls):
        return []
    return writes


def present_int(v, r, digits=0):
    k = r.randrange(3)
    if k == 0:
        return v
    if k == 1:
        return f"0x{v:0{digits}X}" if digits else hex(v)
    return str(v) if r.random() < 0.3 else f"0x{v:X}"


def make_writes(lay, cls, valcls, r, nmax=6, edge=False):
    """Concretise a write class on a layout: list of (write for the spec, (register name, bit-field name or None, value presented to the code))."""
    tg = targets(lay)
    pool = tg.get(cls) or []
    if not pool and cls in ("field", "reg"):
        for alt in ("field", "reg"):
            if tg[alt]:
                cls, pool = alt, tg[alt]
                break
    if not pool:
        return []
    picks = r.sample(pool, k=min(nmax, len(pool)))
    if edge:          # the first and the last writable register of the area are always among the targets (a parser that stops early, an off-by-one size)
        key = (lambda t: t[0] if isinstance(t, tuple) else t)
        picks = [min(pool, key=key), max(pool, key=key)] + [t for t in picks if t not in (min(pool, key=key), max(pool, key=key))]
    used_regs, res = set(), []
    for pos, t in enumerate(picks):
        ri = t[0] if isinstance(t, tuple) else t
        reg = lay["regs"][ri - 1]
        fam = reg["parent"] or ri
        if cls in ("reg", "group"):
            if fam in used_regs:
                continue
            used_regs.add(fam)
            vc = valcls if valcls != "mix" else r.choice(VALUE_CLASSES)
            w = reg["width"]
            v = value_of(vc, w, r)
            aw = 0
            if reg["kind"] == "group" and reg["altw"]:
                nbytes = max(1, (v.bit_length() + 7) // 8)
                for a in sorted(reg["altw"]):
                    if nbytes <= a // 8 and a < w:
                        aw = a
                        break
            if reg["hexstr"]:
                pv = f"{v:0{(aw or w) // 4}X}"
            else:
                pv = present_int(v, r, digits=w // 4)
            res.append(({"r": ri, "f": 0, "v": A.bits_of(v), "aw": aw}, (reg["name"], None, pv)))
        else:
            key = ("f", ri)
            if fam in used_regs and key not in used_regs:
                continue
            used_regs.add(fam)
            used_regs.add(key)
            fi = t[1]
            fl = reg["fields"][fi - 1]
            nv = fl.get("name_value", {})
            stored = None
            preset_f = (A.int_of(reg["preset"]) >> fl["off"]) & ((1 << fl["width"]) - 1)
            for attempt in range(8):
                vc = valcls if valcls != "mix" else r.choice(VALUE_CLASSES)
                if edge and pos < 2 and attempt == 0:
                    vc = "zero" if preset_f == (1 << fl["width"]) - 1 else "ones"        # an edge target always leaves its preset
                stored = value_of(vc, fl["width"], r)
                # values that share their enum name with an earlier value must survive the configuration round trip as well: half of the
                # writes to such a bit-field use one of them
                dups = [val for val, name in fl["enums"].items() if nv.get(str(name), val) != val and val < (1 << fl["width"])]
                if dups and not (edge and pos < 2) and r.random() < 0.5:
                    stored = r.choice(sorted(dups))
                break
            if stored is None:
                continue
            v = stored << fl["shr"]
            pv = present_int(v, r)
            # an enum name shared by several values stands for the first of them: a later value is presented as a number
            if not fl["shr"] and stored in fl["enums"] and nv.get(str(fl["enums"][stored]), stored) == stored and r.random() < 0.5:
                pv = fl["enums"][stored]
            elif isinstance(pv, str) and pv in nv:
                pv = v          # a string that is also an enum NAME of this bit-field means that enum, not the number: present the number as a number
            res.append(({"r": ri, "f": fi, "v": A.bits_of(v), "aw": 0}, (reg["name"], fl["name"], pv)))
    return res


def settings_of(writes):
    d = {}
    for _, (rn, fn, pv) in writes:
        if fn is None:
            d[rn] = pv
        else:
            d.setdefault(rn, {})
            if isinstance(d[rn], dict):
                d[rn][fn] = pv
    return d


def merge_settings(base, upd):
    res = copy.deepcopy(base) if base else {}
    for k, v in upd.items():
        if isinstance(v, dict) and isinstance(res.get(k), dict):
            if "bitfields" in res[k] and isinstance(res[k]["bitfields"], dict):
                res[k]["bitfields"].update(v)
            else:
                res[k].update(v)
        else:
            res[k] = copy.deepcopy(v)
    return res


# ------------------------------------------------------------------ projection of the real object
def aligned_registers(ad, obj, lay):
    """Real register objects aligned with the layout by POSITION (uids / names of database files are not always unique)."""
    out = [None] * len(lay["regs"])
    if ad.kind in ("xmcd", "tz"):
        return out
    real = list(ad.registers(obj))
    tops = [i for i, r in enumerate(lay["regs"], 1) if r["parent"] == 0]
    for pos, i in enumerate(tops):
        if pos >= len(real):
            break
        out[i - 1] = real[pos]
        subs = lay["regs"][i - 1]["subs"]
        rsubs = list(getattr(real[pos], "sub_regs", []) or [])
        for k, s in enumerate(subs):
            if k < len(rsubs):
                out[s - 1] = rsubs[k]
    return out


def project(ad, obj, lay):
    """(structure matches, raw bits of every leaf in layout order; [-1] = the real object has no such register)."""
    n = len(lay["regs"])
    if obj is None:
        return False, [[-1] if r["kind"] == "leaf" else [] for r in lay["regs"]]
    if ad.kind in ("xmcd", "tz"):
        if ad.kind == "tz":
            vals = ad.raw_values(obj, lay)
            struct = list(obj.presets.keys()) == [r["name"] for r in lay["regs"]]
        else:
            vals, real_names = ad.raw_values(obj, lay, with_names=True)
            struct = all(v is not None or r["kind"] != "leaf" or r["cond"]["c"] != 0 for r, v in zip(lay["regs"], vals))
            ln = [r["name"] for r in lay["regs"] if r["parent"] == 0]
            struct = struct and all(x in ln for x in real_names)
        return struct, [([] if r["kind"] != "leaf" else [-1] if v is None else A.bits_of(v)) for r, v in zip(lay["regs"], vals)]
    al = aligned_registers(ad, obj, lay)
    real_tops = list(ad.registers(obj))
    tops = [r for r in lay["regs"] if r["parent"] == 0]
    struct = len(real_tops) == len(tops)
    post = []
    lay["first_mismatch"] = None
    for r, x in zip(lay["regs"], al):
        if x is None:
            struct = False
            lay["first_mismatch"] = lay["first_mismatch"] or r["name"]
            post.append([-1] if r["kind"] == "leaf" else [])
            continue
        if x.name != r["name"] or x.width != r["width"] or bool(x.hidden) != bool(r["hidden"]) or (lay.get("hasbin", True) and r["parent"] == 0 and x.offset != r["off"]):
            struct = False
            lay["first_mismatch"] = lay["first_mismatch"] or r["name"]
        if r["kind"] == "group":
            if len(x.sub_regs) != len(r["subs"]):
                struct = False
            post.append([])
        else:
            post.append(A.bits_of(x.get_value(raw=True)))
    assert len(post) == n
    return struct, post


def crc32_mpeg2(data):
    """Bit-serial CRC-32/MPEG-2 (poly 0x04C11DB7, init 0xFFFFFFFF, no reflection, no final xor) - independent of spsdk.crypto."""
    crc = 0xFFFFFFFF
    for b in data:
        crc ^= b << 24
        for _ in range(8):
            crc = ((crc << 1) ^ 0x04C11DB7) & 0xFFFFFFFF if crc & 0x80000000 else (crc << 1) & 0xFFFFFFFF
    return crc


# ------------------------------------------------------------------ running a schedule on a real area
class Runner:
    def __init__(self, ad, lay, r):
        self.ad, self.lay, self.r = ad, lay, r
        self.obj = None
        self.cfg = None           # configuration dictionary captured last (Template / GetConfig)
        self.bin = None           # bytes exported last
        self.settings = None      # full register settings of the current object (areas that are configured by reload only)
        self.tpl_settings = None
        self.rot_expect = None    # (group index, bytes) written through the ROTKH path since the last export
        self.leaves = [i for i, x in enumerate(lay["regs"], 1) if x["kind"] == "leaf"]
        # the command-line route (c12_cli): the tools of the area, and what the harness knows about the files it hands to them
        self.tool = None
        self.synced = False       # the current object is the object LoadConfig made of self.cfg (nothing was written since)
        self.parsed = False       # the current object is the object Parse made of self.bin
        self.rot_cli = None       # {"how": "sf" | "rotcfg" | "mbicfg", "files": [...]} - the key files of the pending ROTKH write

    def cli(self):
        if self.tool is None:
            self.tool = CLI.tool_for(self.ad, os.path.join(scratch(), "c12-cli", f"{os.getpid()}-{sha(self.ad.key())}"))
        return self.tool

    def ev_post(self, ev):
        struct, post = project(self.ad, self.obj, self.lay)
        ev["post"] = post
        return struct

    def base_settings(self):
        if self.settings is not None:
            return self.settings
        if self.ad.kind == "tz":
            return {}
        if self.tpl_settings is None:
            self.tpl_settings = A.yaml_load(self.ad.template())[self.ad.settings_key]
        return copy.deepcopy(self.tpl_settings)

    def step(self, s):
        ad, lay, r = self.ad, self.lay, self.r
        a = s["a"]
        ev = {"a": a}
        if a == "Layout":
            return ev
        if a == "NewObject":
            try:
                self.obj = ad.new()
                ev["ok"] = True
            except Exception as e:  # noqa: BLE001 - every refusal is an observation; the spec decides
                self.obj, ev["ok"], ev["err"] = None, False, f"{type(e).__name__}: {e}"[:300]
            self.settings = None
            self.synced = self.parsed = False
            ev["struct"] = self.ev_post(ev)
            if not ev["struct"] and lay.get("first_mismatch"):
                ev["mismatch"] = lay["first_mismatch"]
            return ev
        if a == "Template":
            ev.update(ok=False, yaml=False, schema=False)
            self.synced = False
            try:
                if s.get("route") == "cli":
                    ev["route"] = "cli"
                    text = self.cli().template()
                else:
                    text = ad.template()
                ev["ok"] = bool(text)
                cfg = A.yaml_load(text)
                ev["yaml"] = True
                self.cfg = cfg
                ad.check(copy.deepcopy(cfg))
                ev["schema"] = True
            except Exception as e:  # noqa: BLE001
                ev["err"] = f"{type(e).__name__}: {e}"[:300]
                if not ev["yaml"]:
                    self.cfg = None
                    ev["cause"] = template_cause(locals().get("text", ""))
            return ev
        if a == "GetConfig":
            ev.update(ok=False, yaml=False, schema=False)
            self.synced = False
            try:
                if s.get("route") == "cli":
                    # the tool parses the FILE and writes the configuration in one call: the current object must be what Parse made of that file
                    if not self.parsed or self.bin is None:
                        raise Machinery("schedule error: GetConfig through the tool must follow Parse")
                    ev["route"] = "cli"
                    bpath = self.cli().p("in.bin")
                    with open(bpath, "wb") as f:
                        f.write(self.bin)
                    text = self.cli().parse(bpath)
                else:
                    text = ad.config_text(self.obj)
                ev["ok"] = True
                self.cfg = A.yaml_load(text)
                ev["yaml"] = True
                if s.get("check"):
                    ad.check(copy.deepcopy(self.cfg))
                ev["schema"] = True
            except Machinery:
                raise
            except Exception as e:  # noqa: BLE001
                ev["err"] = f"{type(e).__name__}: {e}"[:300]
                self.cfg = None
            return ev
        if a == "LoadConfig":
            try:
                if self.cfg is None:
                    raise A.Refused("no configuration to load")
                self.obj = ad.load(copy.deepcopy(self.cfg))
                self.settings = copy.deepcopy(self.cfg.get(ad.settings_key, {}))
                ev["ok"] = True
            except Exception as e:  # noqa: BLE001
                self.obj, ev["ok"], ev["err"] = None, False, f"{type(e).__name__}: {e}"[:300]
            self.synced, self.parsed = bool(ev["ok"]), False
            self.ev_post(ev)
            return ev
        if a == "SetValues":
            if s.get("cls") == "sizectrl":
                writes = make_sizectrl(lay, s, r)
                if not writes and s.get("fallback"):
                    writes = make_writes(lay, "field", "mix", r, s.get("n", 2) + 3)
            else:
                writes = make_writes(lay, s.get("cls", "field"), s.get("val", "mix"), r, s.get("n", 6), s.get("edge", False))
            ev["w"] = [w for w, _ in writes]
            ev["shown"] = [list(x) for _, x in writes]
            if not writes:
                return ev           # the layout has no target of this class: no event
            self.synced = self.parsed = False
            try:
                st = settings_of(writes)
                if ad.incremental:
                    self.obj = ad.set_values(self.obj, copy.deepcopy(st))
                else:
                    full = merge_settings(self.base_settings(), st)
                    self.obj = ad.load(ad.wrap(copy.deepcopy(full)))
                    self.settings = full
                ev["ok"] = True
            except Exception as e:  # noqa: BLE001
                ev["ok"], ev["err"] = False, f"{type(e).__name__}: {e}"[:300]
            self.ev_post(ev)
            return ev
        if a == "Export":
            seal = bool(s.get("seal")) and bool(lay.get("seal"))
            ev.update(seal=seal, ok=False, size=-1, gaps=False, eqprev=False, rotkh=True, crc=True, bin=[[-1] if x["kind"] == "leaf" else [] for x in lay["regs"]])
            try:
                if s.get("route") == "cli":
                    # the tool loads the configuration FILE and exports in one call: the current object must be what LoadConfig made of that
                    # configuration (s["pair"]: ... and the library has just written the same Root of Trust keys into it)
                    if not (self.synced or s.get("pair")) or self.cfg is None:
                        raise Machinery("schedule error: Export through the tool must follow LoadConfig")
                    ev["route"], ev["type"] = "cli", s.get("type", "asis")
                    tool = self.cli()
                    cpath = CLI.write_config(tool, self.cfg, s.get("type", "asis"))
                    sf, rot = (), None
                    if self.rot_cli:
                        ev["rot"] = {"how": self.rot_cli["how"], "files": [os.path.basename(x) for x in self.rot_cli["files"]]}
                        if self.rot_cli["how"] == "sf":
                            sf = tuple(self.rot_cli["files"])
                        else:
                            rot = CLI.write_rot_config(tool, self.rot_cli["files"], self.rot_cli["how"])
                    data = tool.export(cpath, seal=seal, sf=sf, rot=rot)
                else:
                    kw = {}
                    if seal:
                        kw["add_seal"] = True
                    if self.rot_kw:
                        kw.update(self.rot_kw)
                        self.synced = False
                    data = ad.export(self.obj, **kw)
                ev["ok"] = True
                ev["size"] = len(data)
                vals, gaps = A.decode_binary(lay, data, self.leaves)
                ev["gaps"] = bool(gaps)
                ev["bin"] = [([] if x["kind"] != "leaf" else [-1] if v is None else A.bits_of(v)) for x, v in zip(lay["regs"], vals)]
                ev["eqprev"] = self.bin is not None and data == self.bin
                if self.rot_expect is not None:
                    gi, hb = self.rot_expect
                    g = lay["regs"][gi - 1]
                    ev["rotkh"] = data[g["off"]:g["off"] + g["width"] // 8] == hb.ljust(g["width"] // 8, b"\0")
                if ad.kind == "xmcd" and not s.get("nocrc"):
                    ev["crc"] = int.from_bytes(self.obj.crc, "big") == crc32_mpeg2(data)
                self.bin = data
                self.parsed = False
                ev["hex"] = data.hex() if len(data) <= 64 else data[:64].hex() + "..."
            except Machinery:
                raise
            except Exception as e:  # noqa: BLE001
                ev["err"] = f"{type(e).__name__}: {e}"[:300]
            self.rot_expect, self.rot_kw, self.rot_cli = None, None, None
            return ev
        if a == "Parse":
            ev.update(ok=False, verified=False)
            self.synced = self.parsed = False
            try:
                if self.bin is None:
                    raise A.Refused("no binary to parse")
                self.obj = ad.parse(self.bin)
                ev["ok"] = True
                self.parsed = True
                ev["verified"] = bool(ad.verify(self.obj))
                self.settings = None
                if not ad.incremental:
                    try:
                        self.settings = A.yaml_load(ad.config_text(self.obj)).get(ad.settings_key, {})
                    except Exception:  # noqa: BLE001
                        self.settings = None
            except Exception as e:  # noqa: BLE001
                self.obj, ev["err"] = None, f"{type(e).__name__}: {e}"[:300]
            self.ev_post(ev)
            return ev
        raise Machinery(f"unknown schedule step {a}")

    rot_kw = None

    def rotkh_writes(self, s):
        """ROTKH through export(rotkh=...) / export(keys=...): the hash is produced here with hashlib over fresh key material."""
        lay, r = self.lay, self.r
        gi = lay.get("rotkh", 0)
        if not gi:
            return []
        g = lay["regs"][gi - 1]
        if g["kind"] != "group" or not g["reverse"] or not g["subs"]:
            return []
        # (a group narrower than its declared width is written all the same: the hash must still be found in the binary over the full declared width)
        width = g["width"]
        mode = s.get("mode", "bytes")
        self.rot_cli = None
        if mode == "pool":
            # keys of the committed pool: the same ordered key list goes to the library as key objects and to the tool as files; the
            # documented value of the field is computed with hashlib (c12_cli.rot_digest)
            cls, names = CLI.pick_keys(lay.get("rot_type"), width, s, r)
            if not names:
                return []
            digest = CLI.rot_digest(lay["rot_type"], cls, names)
            if len(digest) * 8 > width:
                return []
            self.rot_kw = {"keys": CLI.spsdk_keys(cls, names)}
            forms = [r.choice(CLI.FORMS) for _ in names]
            self.rot_cli = {"how": s.get("how", "sf"), "files": [CLI.key_file(cls, n, f) for n, f in zip(names, forms)]}
        elif mode == "keys" and lay.get("rot_type") == "cert_block_21":
            from cryptography.hazmat.primitives.asymmetric import ec

            curve = ec.SECP384R1() if (width >= 384 and s.get("big", True)) else ec.SECP256R1()
            size = 48 if isinstance(curve, ec.SECP384R1) else 32
            nkeys = s.get("nkeys", 1)
            pubs = [ec.generate_private_key(curve).public_key() for _ in range(nkeys)]
            h = hashlib.sha384 if size == 48 else hashlib.sha256
            rkhs = [h(p.public_numbers().x.to_bytes(size, "big") + p.public_numbers().y.to_bytes(size, "big")).digest() for p in pubs]
            digest = rkhs[0] if nkeys == 1 else h(b"".join(rkhs)).digest()
            from spsdk.crypto.keys import PublicKeyEcc

            self.rot_kw = {"keys": [PublicKeyEcc(p) for p in pubs]}
        else:
            seedb = bytes(r.getrandbits(8) for _ in range(32))
            digest = (hashlib.sha384(seedb).digest() if width >= 384 and s.get("big", True) else hashlib.sha256(seedb).digest())
            if digest[0] == 0 or digest[-1] == 0:
                digest = b"\x5a" + digest[1:-1] + b"\xa5"
            self.rot_kw = {"rotkh": digest.ljust(width // 8, b"\0") if s.get("pad", True) else digest}
        full = digest.ljust(width // 8, b"\0")
        v = int.from_bytes(full, "big")
        self.rot_expect = (gi, digest)
        return [({"r": gi, "f": 0, "v": A.bits_of(v), "aw": 0}, (g["name"], None, digest.hex()))]


def template_cause(text):
    """Witness class of a template that is not YAML: a mapping key that the emitter wrapped over two lines."""
    for line in (text or "").splitlines():
        st = line.strip()
        if st and not st.startswith("#") and ":" not in st and not st.startswith("-"):
            return "wrapped-key"
    return "other"


def run_trace(ad, lay, sched, r, tid, lay_ref):
    run = Runner(ad, lay, r)
    evs = []
    steps = [s for s in sched if ad.has_binary or s["a"] not in ("Export", "Parse")]
    i = 0
    skip_grp = None
    while i < len(steps):
        s = steps[i]
        if skip_grp is not None and s.get("grp") == skip_grp:
            i += 1
            continue          # the steps that belong to a case the layout does not have
        if s["a"] == "SetValues" and s.get("cls") == "rotkh":
            # export(rotkh=... / keys=...) writes the ROTKH group and exports in ONE call of the real code:
            # logged as the write followed by the export, the state after the write is observed after the call
            writes = run.rotkh_writes(s) if ad.has_binary else []
            if not writes or i + 1 >= len(steps) or steps[i + 1]["a"] != "Export":
                run.rot_kw, run.rot_expect, run.rot_cli = None, None, None
                i += 1
                continue
            if steps[i + 1].get("route") == "cli":
                # the command-line route: the LIBRARY writes the hash of the keys into the current object and exports (the state after the
                # write is observed on that object), then the TOOL is given the configuration the object was loaded from and the same keys
                # as files: SetValues, Export (library), Export (tool) - the spec demands the same state and the same bytes of both
                if not run.synced:
                    raise Machinery("schedule error: a Root of Trust export through the tool must follow LoadConfig")
                expect, rcli = run.rot_expect, run.rot_cli
                run.rot_cli = None
                ev_lib = run.step({"a": "Export", "seal": steps[i + 1].get("seal")})
                ev = {"a": "SetValues", "w": [w for w, _ in writes], "shown": [list(x) for _, x in writes], "ok": ev_lib["ok"]}
                if not ev_lib["ok"]:
                    ev["err"] = ev_lib.get("err", "")
                run.ev_post(ev)
                evs += [ev, ev_lib]
                i += 2
                if not ev_lib["ok"]:
                    break
                run.rot_expect, run.rot_cli = expect, rcli
                evs.append(run.step(dict(steps[i - 1], pair=True)))
                if not evs[-1]["ok"]:
                    break
                continue
            ev2 = run.step(steps[i + 1])
            ev = {"a": "SetValues", "w": [w for w, _ in writes], "shown": [list(x) for _, x in writes], "ok": ev2["ok"]}
            if not ev2["ok"]:
                ev["err"] = ev2.get("err", "")
            run.ev_post(ev)
            evs += [ev, ev2]
            i += 2
            if not ev2["ok"]:
                break
            continue
        ev = run.step(s)
        i += 1
        if s["a"] == "SetValues" and not ev["w"]:
            skip_grp = s.get("grp")
            continue
        evs.append(ev)
        if ev.get("ok") is False or (s["a"] == "Template" and not ev["yaml"]):
            break          # the spec rejects this event; nothing meaningful can follow
    return {"id": tid, "lay": lay_ref, "area": ad.ident, "ev": evs, "steps": list(sched)}


SCHED_TEMPLATE = [{"a": "NewObject"}, {"a": "Template"}, {"a": "LoadConfig"}, {"a": "Export"}, {"a": "Parse"}, {"a": "Export"}, {"a": "GetConfig", "check": True}, {"a": "LoadConfig"},
                  {"a": "Export"}]
SCHED_VALUES = [{"a": "NewObject"}, {"a": "SetValues", "cls": "field", "val": "rnd", "n": 8, "edge": True}, {"a": "SetValues", "cls": "compfield", "val": "mix", "n": 4},
                {"a": "Export", "seal": True}, {"a": "Parse"}, {"a": "Export"}, {"a": "GetConfig"}, {"a": "LoadConfig"}, {"a": "Export"},
                {"a": "SetValues", "cls": "group", "val": "rnd", "n": 3}, {"a": "SetValues", "cls": "reg", "val": "mix", "n": 4}, {"a": "Export"}, {"a": "Parse"}, {"a": "Export"},
                {"a": "SetValues", "cls": "rotkh", "mode": "bytes"}, {"a": "Export"},
                {"a": "NewObject"}, {"a": "Export"}, {"a": "Template"}, {"a": "LoadConfig"}, {"a": "Export"}]
# areas whose database content is identical to an area that runs the full schedules (alias families, unchanged revisions)
SCHED_ALIAS = [{"a": "NewObject"}, {"a": "SetValues", "cls": "field", "val": "rnd", "n": 4, "edge": True}, {"a": "Export"}, {"a": "Parse"}, {"a": "Export"}, {"a": "NewObject"}, {"a": "Export"}]
SCHED_ALIAS_NOBIN = [{"a": "NewObject"}]
# XMCD objects deep-copy their register files (and with them the device database) on every access: short schedules in the quick tier
SCHED_TEMPLATE_SHORT = [{"a": "NewObject"}, {"a": "Template"}, {"a": "LoadConfig"}, {"a": "Export"}, {"a": "Parse"}, {"a": "Export"}]
SCHED_VALUES_SHORT = [{"a": "NewObject"}, {"a": "SetValues", "cls": "field", "val": "rnd", "n": 8, "edge": True}, {"a": "SetValues", "cls": "group", "val": "rnd", "n": 4}, {"a": "Export"}, {"a": "Parse"}, {"a": "Export"}, {"a": "GetConfig", "check": True},
                      {"a": "LoadConfig"}, {"a": "Export"}, {"a": "NewObject"}, {"a": "Export"}]
SLOW_KINDS = ("xmcd", "fuses")
# thorough tier, class representatives: every value class of the boundary menu on fresh seeded targets, each followed by both round trips
SCHED_SWEEP = [{"a": "NewObject"}] + [s for vc in ("zero", "ones", "top", "one", "alt", "maxm1", "rnd") for s in (
    {"a": "SetValues", "cls": "field", "val": vc, "n": 12}, {"a": "SetValues", "cls": "compfield", "val": vc, "n": 4}, {"a": "SetValues", "cls": "reg", "val": vc, "n": 4},
    {"a": "SetValues", "cls": "group", "val": vc, "n": 3}, {"a": "Export"}, {"a": "Parse"}, {"a": "Export"}, {"a": "GetConfig"}, {"a": "LoadConfig"}, {"a": "Export"})]
SCHED_SWEEP_SHORT = [{"a": "NewObject"}] + [s for vc in ("ones", "alt", "rnd") for s in (
    {"a": "SetValues", "cls": "field", "val": vc, "n": 12}, {"a": "Export"}, {"a": "Parse"}, {"a": "Export"}, {"a": "GetConfig"}, {"a": "LoadConfig"}, {"a": "Export"})]


def sched_tool(kind, seal, short=False):
    """The command-line route of one kind of area, built from what its tools offer (c12_cli.TOOLS): the template the tool writes is
    loaded; every binary is exported by the library AND by the tool from the same configuration file (same state, same bytes - clauses
    ExportFaithful / ComputedHold / BytesStable), with the `type` of the configuration spelled as SPSDK's own files spell it and in
    lower case; the binary goes back through the parser and the tool that writes the configuration, which is loaded again; then values,
    seal, and (areas that take Root of Trust keys) keys of the committed pool given as -sf files / as a certificate-block or MBI
    configuration (-e) under every spelling of `type`."""
    tool = CLI.TOOLS[kind]
    types = ("asis", "lower") if tool.type_key else ("asis",)
    st = [{"a": "NewObject"}, {"a": "Template", "route": "cli"}, {"a": "LoadConfig"}]
    if "export" not in tool.has:
        return st + [{"a": "GetConfig", "check": True}, {"a": "LoadConfig"}]

    def both(tps, sl=False):
        return [{"a": "Export", "seal": sl}] + [{"a": "Export", "seal": sl, "route": "cli", "type": t} for t in tps]

    back = [{"a": "Parse"}, {"a": "GetConfig", "check": True, **({"route": "cli"} if "parse" in tool.has else {})}, {"a": "LoadConfig"}]
    if short:         # (areas whose objects are slow: one pass through every tool)
        return st + both(types[:1]) + back + [{"a": "Export"}]
    st += both(types) + back + both(types[-1:])
    st += [{"a": "SetValues", "cls": "field", "val": "rnd", "n": 6, "edge": True}, {"a": "SetValues", "cls": "compfield", "val": "mix", "n": 3}, {"a": "Export"}] + back + both(types[::-1])
    if seal:
        st += both(types[:1], True)
    if tool.takes_keys:
        for n, how, tp in ((1, "sf", "asis"), (1, "sf", "lower"), (4, "sf", "asis"), (2, "rotcfg", "asis"), (3, "mbicfg", "lower"), (2, "sf", "upper"), (3, "rotcfg", "lower")):
            st += [{"a": "LoadConfig"}, {"a": "SetValues", "cls": "rotkh", "mode": "pool", "nkeys": n, "how": how}, {"a": "Export", "route": "cli", "type": tp}]
    return st


SLOW_TOOL_KINDS = ("xmcd", "fcb")
LEVEL_ORDER = ("min", "max", "mid")


def sched_sizectrl(cases, tier, slow):
    """Canonical schedule over the case space TLC enumerated (SizeCtrlCases of CfgArea.tla: size class x control level): every case is a
    configuration that sets the control bit-field to a boundary value of that level - consecutive cases change the level, so the
    configuration selects fewer / more registers than the object had - and announces a size of that class for the registers that
    exist then; every case is exported (size bit-field = real size, decoded from the bytes), parsed and verified.  Steps of a case a
    layout does not have are skipped (group).  Then the announced size is left STALE while only the control bit-field changes, and
    (areas that are quick to run) every value of the boundary menu of the control bit-field goes through both round trips."""
    cases = sorted((tuple(c) for c in cases), key=lambda c: (("eq", "lt", "gt").index(c[0]), LEVEL_ORDER.index(c[1])))
    st = [{"a": "NewObject"}]
    g = 0
    parsed, nth = set(), {}
    for sz, lv in cases:
        g += 1
        # the k-th case of a level takes the k-th boundary value of that level (all of them are reached); the announced size is the nearest
        # wrong value (real size -1 / +1) at level max, the end of the range (0 / all ones) at level min
        st.append({"a": "SetValues", "cls": "sizectrl", "ctrl": lv, "size": sz, "csub": nth.get(lv, 0), "sub": {"max": 0, "min": 1}.get(lv, "rnd"), "n": 2, "grp": g})
        nth[lv] = nth.get(lv, 0) + 1
        st.append({"a": "Export", "grp": g, "nocrc": slow})
        if not slow or (sz != "eq" and lv not in parsed):       # (slow areas: one wrong announcement per control level goes through the parser and the verifier)
            st += [{"a": "Parse", "grp": g}, {"a": "Export", "grp": g, "nocrc": slow}]
            parsed.add(lv)
    # the announcement goes STALE: only the control bit-field changes - first in the configuration loaded last (too large now: fewer
    # registers), then, after both round trips, in the configuration the area has written itself (too small now: more registers)
    g += 1
    st += [{"a": "SetValues", "cls": "sizectrl", "ctrl": "min", "size": "", "sub": "rnd", "n": 1, "grp": g}, {"a": "Export", "grp": g}]
    st += [{"a": "Parse", "grp": g}, {"a": "Export", "grp": g}, {"a": "GetConfig", "check": True, "grp": g}, {"a": "LoadConfig", "grp": g}, {"a": "Export", "nocrc": slow, "grp": g}]
    g += 1
    st += [{"a": "SetValues", "cls": "sizectrl", "ctrl": "max", "size": "", "sub": "rnd", "n": 1, "grp": g}, {"a": "Export", "grp": g}]
    if not slow or tier != "quick":
        subs = range(1) if tier == "quick" else range(1, 7)
        for k in range(CTRL_MENU_MAX):
            for j in subs:
                for sz in ("eq", "lt", "gt"):
                    if slow and sz == "eq" and j > 1:
                        continue
                    g += 1
                    st.append({"a": "SetValues", "cls": "sizectrl", "ctrl": f"#{k}", "size": ("eq", "lt", "gt")[(k + j) % 3] if tier == "quick" else sz, "sub": j if tier != "quick" else "rnd",
                               "n": 3, "grp": g})
                    st += [{"a": "Export", "grp": g}, {"a": "Parse", "grp": g}, {"a": "Export", "grp": g}]
                    if not slow:
                        st += [{"a": "GetConfig", "grp": g}, {"a": "LoadConfig", "grp": g}, {"a": "Export", "grp": g}]
                    if tier == "quick":
                        break
    return st


COV_SCHEDULES = ("sizectrl",)      # schedules whose coverage of the case space is demanded (decided by the trace form)
CTRL_MENU_MAX = 12      # upper bound of the number of boundary values of a control bit-field (checked against the layouts)


def rich_hash(lay):
    """Identity of an area's database content: everything the layout extraction read (names, enums, offsets, presets, groups ...)."""
    return sha({k: x for k, x in lay.items() if k not in ("by_uid", "files")})


def layout_job(ident):
    """Worker of phase 1: extract the layout of one area from the database."""
    try:
        lay = A.make(ident).layout()
        A.tla_layout(lay)
        cf = ctrl_fields(lay)
        # class of the area for the command-line route: the Root of Trust type and the width of the ROTKH field / the sub-area
        cc = f"{lay.get('rot_type')}/{lay['regs'][lay['rotkh'] - 1]['width'] if lay.get('rotkh') else 0}" if ident["kind"] == "cmpa" else ident["sub"]
        return {"area": ident, "hash": rich_hash(lay), "sizectrl": bool(cf) or bool((lay.get("sizefld") or {}).get("r")),
                "nmenu": max([len(ctrl_menu(lay, c, f)) for c, f in cf] or [0]), "cliclass": cc, "seal": bool(lay.get("seal"))}
    except Exception as e:  # noqa: BLE001
        return {"area": ident, "error": f"layout: {type(e).__name__}: {e}"[:300]}


def layout_event(ad):
    """The Layout event of an area: besides the data-consistency clauses of the extracted layout, the facts clause RegisterMap is decided from - the
    alias chain of the family in the RAW database files, the folders that hold the register file, the register map of each such file, and the map a
    fresh object of the real area exposes (c12_areas.map_facts)."""
    try:
        obj = ad.new()
    except Exception:  # noqa: BLE001 - (refused construction is the finding of the NewObject event; an area without an object exposes no map)
        obj = None
    parts, notes = ad.map_facts(obj)
    for p in parts:
        if len(p["obs"]) >= 10000 or any(len(m) >= 10000 for m in p["files"]):
            raise Machinery("a register map has 10000 entries or more (witness encoding of clause RegisterMap)")
        if any(not (-2 ** 31 < e[k] < 2 ** 31) for m in p["files"] + [p["obs"]] for e in m for k in ("o", "w", "x")):
            raise Machinery("a register map holds a number TLC cannot represent")
    ev = {"a": "Layout", "parts": parts}
    if notes:
        ev["notes"] = notes
    return ev


def area_job(job):
    """Worker of phase 2: one area, several schedules -> layout for the spec + traces."""
    t0 = time.process_time()
    ident = job["area"]
    ad = A.make(ident)
    try:
        lay = ad.layout()
    except Exception as e:  # noqa: BLE001
        return {"area": ident, "error": f"layout: {type(e).__name__}: {e}"[:300]}
    tl = A.tla_layout(lay)
    h = sha(tl)
    traces = [] if job.get("nolayout") else [{"id": f"{ad.key()}#layout", "lay": h, "area": ident, "ev": [layout_event(ad)]}]
    for name, sched in job["scheds"]:
        r = rng(PROP, ad.key(), name)
        traces.append(run_trace(ad, lay, sched, r, f"{ad.key()}#{name}", h))
        traces[-1]["cov"] = name in COV_SCHEDULES
    names = [x["name"] for x in lay["regs"]]
    info = {"groups": [{"name": g["name"], "declared": g.get("decl_width", 0), "present": g.get("subs_width", 0), "missing": g.get("missing_subs", [])}
                       for g in lay["regs"] if g["kind"] == "group" and (g.get("missing_subs") or (g.get("decl_width") and g["decl_width"] != g.get("subs_width")))],
            "notes": lay.get("notes", [])[:5], "files": [os.path.relpath(f, os.environ.get("VERIF_REPO", "/repo")) for f in lay.get("files", [])]}
    return {"area": ident, "layhash": h, "lay": tl, "names": names, "traces": traces, "info": info, "wall": time.process_time() - t0}


# ------------------------------------------------------------------ TLC side
REQ_ACTIONS = ("MCNewObject", "MCTemplate", "MCGetConfig", "MCLoadConfig", "MCSetValues", "MCExport", "MCParse")


def write_layouts(layouts, name):
    path = os.path.join(scratch(), name)
    with open(path, "w") as f:
        json.dump(layouts, f, separators=(",", ":"))
    return path


def validate(v, results, label):
    """Batch trace validation of all traces of `results`; returns {trace id: (matched, len, event, clause, reg)}."""
    order, layouts = {}, []
    names = {}
    traces = []
    for res in results:
        if "error" in res:
            continue
        if res["layhash"] not in order:
            layouts.append(res["lay"])
            order[res["layhash"]] = len(layouts)
            names[res["layhash"]] = res["names"]
        for t in res["traces"]:
            t2 = dict(t)
            t2["lay"] = order[res["layhash"]]
            t2["ev"] = [strip_event(e) for e in t["ev"]]
            traces.append(t2)
    if not traces:
        return {}, names
    lay_file = write_layouts(layouts, f"c12-layouts-{label}.json")
    # chunks are validated by concurrent TLC runs (one JVM each); numeric ids keep TLC's REJ lines short (long tuples are wrapped)
    traces.sort(key=lambda t: -sum(len(e.get("post") or e.get("bin") or []) for e in t["ev"]))
    nchunks = max(1, min(12, len(traces) // 40))
    chunks = [traces[k::nchunks] for k in range(nchunks)]

    def tv_chunk(k):
        chunk = chunks[k]
        tlc._counter[0] = 1000 * (k + 1)            # forked children share the scratch directory: keep file names apart
        slim = [{"id": n, "lay": t["lay"], "ev": t["ev"], "cov": bool(t.get("cov"))} for n, t in enumerate(chunk)]
        rej, res = tlc.tv(SPEC, "CfgAreaTrace", slim, env={"LAYOUT_FILE": lay_file}, heap="6g", timeout=1500)
        check_tv_output(res, rej)
        lays = res.tuples("LAY")
        if len(lays) != res.out.count('<<"LAY"'):
            raise Machinery("a LAY line of the trace validation could not be read back")
        appl, covd = res.tuples("APPL"), res.tuples("COV")
        if len(appl) != res.out.count('<<"APPL"') or len(covd) != res.out.count('<<"COV"'):
            raise Machinery("an APPL / COV line of the trace validation could not be read back")
        cases = [(chunk[x[0]]["id"], "appl", x[1], x[2]) for x in appl] + [(chunk[x[0]]["id"], "cov", x[2], x[3]) for x in covd]
        return {chunk[n]["id"]: x for n, x in rej.items()}, res.distinct, [(chunk[x[0]]["id"], x[1], x[2]) for x in lays], cases

    rej_all, lay_all, case_all = {}, [], []
    for rej, distinct, lays, cases in pmap(tv_chunk, range(nchunks), procs=min(nchunks, 8), chunksize=1) if nchunks >= 4 else [tv_chunk(k) for k in range(nchunks)]:
        rej_all.update(rej)
        lay_all += lays
        case_all += cases
        v.extra["tv_states"] = v.extra.get("tv_states", 0) + distinct
    v.traces(len(traces))
    validate.layout_findings = lay_all
    validate.cases = case_all
    return rej_all, names


def check_tv_output(res, rej):
    """The shared driver does not know every way a TLC run can end early: be strict here."""
    if "Model checking completed" not in res.out or any(l.startswith("Error:") for l in res.out.splitlines()):
        raise Machinery("trace validation did not run to completion:\n" + "\n".join(l for l in res.out.splitlines() if not l.startswith(("Parsing", "Semantic", "Linting", "Computed")))[-1500:])
    if len(rej) != len(re.findall(r'^<<\s*"REJ"', res.out, re.M)):      # TLC wraps long tuples as  << "REJ",\n   ...
        raise Machinery("a REJ line of the trace validation could not be read back")


KEEP = {"a", "ok", "struct", "post", "yaml", "schema", "w", "seal", "size", "gaps", "eqprev", "rotkh", "crc", "bin", "verified", "parts"}


def strip_event(e):
    res = {k: x for k, x in e.items() if k in KEEP}
    if "parts" in res:
        res["parts"] = [{"chain": [{"f": c["f"]} for c in p["chain"]], "files": p["files"], "obs": p["obs"]} for p in res["parts"]]
    return res


def map_witness(ev, code):
    """Witness of a failing RegisterMap clause (MapWitness of CfgArea.tla: 10000 * part + first differing position) in words."""
    if not code or "parts" not in ev or not 0 < code // 10000 <= len(ev["parts"]):
        return None, {}
    p = ev["parts"][code // 10000 - 1]
    pos = code % 10000
    own = [c for c in p["chain"] if c["f"]]
    w = {"part": p["name"], "file": p["file"], "chain": [f"{c['d']}{'*' if c['f'] else ''}" for c in p["chain"]], "position": pos}
    if not own or not pos:
        return "no-file", w
    exp = p["files"][own[0]["f"] - 1]
    w["prescribed_by"] = own[0]["d"]
    w["prescribed"] = exp[pos - 1] if pos <= len(exp) else None
    w["observed"] = p["obs"][pos - 1] if pos <= len(p["obs"]) else None
    w["n_prescribed"], w["n_observed"] = len(exp), len(p["obs"])
    # (for the witness only) which other file of the chain the object's map is the map of
    w["observed_is_map_of"] = [c["d"] for c in own if p["files"][c["f"] - 1] == p["obs"]]
    return (w["prescribed"] or w["observed"])["n"], w


def finding_key(t, rej, names):
    matched, length, evname, clause, reg = rej
    a = t["area"]
    ev = t["ev"][matched] if matched < len(t["ev"]) else t["ev"][-1]
    if ev.get("route") == "cli":
        evname += "@tool"          # the observation came from a command-line tool, not from the library call
    key = f"C12/{a['kind']}/{a['family']}/{a['rev']}/{a['sub'] or '-'}/{evname}/{clause}"
    if clause == "TemplateYaml" and ev.get("cause"):
        key += "/" + ev["cause"]
    if clause == "Structure" and ev.get("mismatch"):
        key += "/" + str(ev["mismatch"]).replace("/", "_").replace(" ", "_")
    if reg and names and 0 < reg <= len(names):
        key += "/" + str(names[reg - 1]).replace("/", "_").replace(" ", "_")
    return key, ev


def report(v, results, rej, names):
    by_id = {}
    for res in results:
        for t in res.get("traces", []):
            by_id[t["id"]] = (t, res)
    for tid, clause, reg in sorted(getattr(validate, "layout_findings", [])):
        t, res = by_id[tid]
        a = t["area"]
        nm = names.get(res["layhash"]) or []
        if clause == "RegisterMap":
            name, w = map_witness(t["ev"][0], reg)
            key = f"C12/{a['kind']}/{a['family']}/{a['rev']}/{a['sub'] or '-'}/Layout/{clause}" + (("/" + str(name).replace("/", "_").replace(" ", "_")) if name else "")
            v.violation(key, f"{tid}: the register map of the real object is not the map of the register file the raw database prescribes "
                             f"(alias chain {' -> '.join(w.get('chain', []))}, file {w.get('file')}): position {w.get('position')} prescribed {w.get('prescribed')} observed {w.get('observed')}",
                        {"area": a, "trace_id": tid, "failed_event": 1, "clause": clause, "register": reg, "event": {"a": "Layout", "notes": t["ev"][0].get("notes", [])},
                         "map": w, "steps": [], "info": res.get("info")})
            continue
        key = f"C12/{a['kind']}/{a['family']}/{a['rev']}/{a['sub'] or '-'}/Layout/{clause}" + (("/" + str(nm[reg - 1]).replace("/", "_").replace(" ", "_")) if reg and reg <= len(nm) else "")
        v.violation(key, f"{tid}: the database content of the area violates clause {clause}" + (f" at register {nm[reg - 1]}" if reg and reg <= len(nm) else ""),
                    {"area": a, "trace_id": tid, "failed_event": 1, "clause": clause, "register": reg, "event": {"a": "Layout"}, "steps": [], "info": res.get("info")})
    for tid, rj in sorted(rej.items()):
        t, res = by_id[tid]
        if rj[3] == "none":
            raise Machinery(f"trace {tid}: event #{rj[0] + 1} ({rj[2]}) matches no action of the spec although every clause held - harness and spec disagree about the "
                            f"shape of the behaviour: {json.dumps(strip_event(t['ev'][min(rj[0], len(t['ev']) - 1)]))[:600]}")
        key, ev = finding_key(t, rj, names.get(res["layhash"]))
        what = f"{tid}: event #{rj[0] + 1} {rj[2]} violates clause {rj[3]}" + (f" at register {names[res['layhash']][rj[4] - 1]}" if rj[4] else "") + (f" ({ev.get('err')})" if ev.get("err") else "")
        v.violation(key, what, {"area": t["area"], "trace_id": tid, "failed_event": rj[0] + 1, "clause": rj[3], "register": rj[4], "event": ev, "steps": t.get("steps"),
                                "schedule": [{k: x for k, x in e.items() if k in ("a", "seal", "w", "shown")} for e in t["ev"]], "info": res.get("info")})


def demand_case_coverage(v, results, rej):
    """Every case (size class x control level) that exists on the layout of an area - as the trace form computed it - was executed on the
    real area by its `sizectrl` schedule - as the trace form classified the configurations that were really loaded.  A trace that was
    rejected (a finding) stops early and is exempt."""
    appl, cov = {}, {}
    for tid, what, sz, lv in getattr(validate, "cases", []):
        (appl if what == "appl" else cov).setdefault(tid, set()).add((sz, lv))
    want = [t["id"] for x in results for t in x.get("traces", []) if t.get("cov")]
    missing = {}
    for tid in want:
        if tid in rej:
            continue
        if not appl.get(tid):
            raise Machinery(f"trace {tid}: the trace form did not report the cases of its layout")
        lack = appl[tid] - cov.get(tid, set())
        if lack:
            missing[tid] = sorted(lack)
    if missing:
        raise Machinery(f"vacuous cases: the sizectrl schedule did not reach every (size class, control level) of {len(missing)} areas, e.g. {list(missing.items())[:3]}")
    table = {}
    for tid in want:
        kind = tid.split("/", 1)[0]
        for c in cov.get(tid, ()):
            table.setdefault(kind, {}).setdefault("/".join(c), 0)
            table[kind]["/".join(c)] += 1
    v.extra["size_ctrl_cases_executed"] = {k: dict(sorted(x.items())) for k, x in sorted(table.items())}
    v.extra["size_ctrl_areas"] = len(want)


def demand_alias_reach(v, results, areas):
    """Clause RegisterMap was decided for EVERY area (each has one Layout event with the facts), and in particular for every area of every family
    that the raw database files make an alias of an alias - the families with a device in between that owns register files among them."""
    deep = RAW.deep_aliases()
    offered = {(a["kind"], a["family"], a["rev"], a["sub"]) for a in areas}
    seen, depth, owner_pos, mid_own = set(), {}, {}, {}
    for x in results:
        for t in x.get("traces", []):
            if not t["id"].endswith("#layout"):
                continue
            ev = t["ev"][0]
            if "parts" not in ev or not ev["parts"]:
                raise Machinery(f"trace {t['id']}: the Layout event carries no register map")
            a = x["area"]
            seen.add((a["kind"], a["family"], a["rev"], a["sub"]))
            for p in ev["parts"]:
                n = len(p["chain"])
                depth[n] = depth.get(n, 0) + 1
                pos = next((i for i, c in enumerate(p["chain"], 1) if c["f"]), 0)
                owner_pos[pos] = owner_pos.get(pos, 0) + 1
                if n >= 3 and 1 < pos < n and len({c["f"] for c in p["chain"] if c["f"]}) > 1:
                    mid_own.setdefault(a["family"], set()).add(f"{a['kind']}:{p['chain'][pos - 1]['d']}/{os.path.basename(p['file'])}")
    if offered - seen:
        raise Machinery(f"vacuous: clause RegisterMap was not decided for {len(offered - seen)} areas, e.g. {sorted(offered - seen)[:3]}")
    lack = sorted(f for f in deep if any(a["family"] == f for a in areas) and not any(k[1] == f for k in seen))
    if lack:
        raise Machinery(f"vacuous: families that are an alias of an alias were not reached: {lack}")
    if deep and any(a["family"] in deep for a in areas) and not depth.get(3, 0) + depth.get(4, 0) + depth.get(5, 0):
        raise Machinery("vacuous: no Layout event with an alias chain of three folders although the database has such families")
    v.extra["register_map"] = {"areas_decided": len(seen), "parts_by_chain_length": dict(sorted(depth.items())), "parts_by_position_of_the_prescribed_file": dict(sorted(owner_pos.items())),
                               "alias_of_alias_families": sorted(f for f in deep if any(k[1] == f for k in seen)),
                               "alias_of_alias_with_a_file_of_the_device_in_between": {f: sorted(x) for f, x in sorted(mid_own.items())}}


TOOL_KEY_ROUTES = ("sf/asis", "sf/lower", "sf/upper", "rotcfg/asis", "rotcfg/lower", "mbicfg/lower")


def demand_tool_reach(v, results, rej, kinds):
    """The command-line route was really taken: for every kind of area, the tools it has were called (template / export / parse) in a trace
    that ran to its end, and the tool that takes Root of Trust keys got them in every way x spelling of `type` the schedule names.  Traces
    that were rejected (a finding stops a trace) are exempt."""
    stats = {}
    for x in results:
        for t in x.get("traces", []):
            if not t["id"].endswith("#tool"):
                continue
            st = stats.setdefault(x["area"]["kind"], {"areas": 0, "rejected": 0, "Template": 0, "Export": 0, "GetConfig": 0, "keys": {}, "types": {}})
            st["areas"] += 1
            st["rejected"] += t["id"] in rej
            for e in t["ev"]:
                if e.get("route") != "cli":
                    continue
                st[e["a"]] += 1
                if e["a"] == "Export":
                    st["types"][e["type"]] = st["types"].get(e["type"], 0) + 1
                    if e.get("rot"):
                        k = f"{e['rot']['how']}/{e['type']}"
                        st["keys"][k] = st["keys"].get(k, 0) + 1
    for kind, tool in CLI.TOOLS.items():
        if kind not in kinds:
            continue
        st = stats.get(kind)
        if st is None:
            raise Machinery(f"vacuous: no area of kind {kind} went through its command-line tools")
        if st["areas"] == st["rejected"]:
            continue
        lack = [a for a, op in (("Template", "template"), ("Export", "export"), ("GetConfig", "parse")) if op in tool.has and not st[a]]
        if tool.type_key and "export" in tool.has:
            lack += [f"type:{tp}" for tp in ("asis", "lower") if not st["types"].get(tp)]
        if tool.takes_keys:
            lack += [k for k in TOOL_KEY_ROUTES if not st["keys"].get(k)]
        if lack:
            raise Machinery(f"vacuous: the command-line route of kind {kind} never reached {lack}")
    v.extra["cli_route"] = {k: x for k, x in sorted(stats.items())}


def check_registers_copy(v):
    from lib.common import SPEC as SPECDIR

    a = open(os.path.join(SPECDIR, "C11", "Registers.tla")).read()
    b = open(os.path.join(SPECDIR, "C12", "Registers.tla")).read()
    v.extra["registers_tla_identical_to_C11"] = a == b
    if a != b:
        say("[C12] note: spec/C12/Registers.tla differs from spec/C11/Registers.tla")


def mc_job(base, tiny_file, level, menu, timeout):
    tlc._counter[0] = base          # forked children share the scratch directory: keep file names apart
    return tlc.mc(SPEC, "CfgAreaMC", "CfgAreaMC.cfg", env={"LAYOUT_FILE": tiny_file, "MC_LEVEL": level, "MENU": menu}, heap="8g", timeout=timeout, require_actions=REQ_ACTIONS)


def gen_schedules(v, tiny_file, num, depth):
    g = tlc.run(SPEC, "CfgAreaGen", "CfgAreaGen.cfg", env={"LAYOUT_FILE": tiny_file, "GEN_DEPTH": depth, "MC_LEVEL": 99, "MENU": "full"}, workers=1, deadlock=False,
                simulate=f"num={num}", depth=depth + 3, heap="4g", timeout=300)
    prints = g.json_prints()
    behs = [b for b in prints if "hist" in b]
    cases = [b["cases"] for b in prints if "cases" in b]
    if len(cases) != 1 or len(cases[0]) != 9:
        raise Machinery(f"GEN did not print the case space (size class x control level): {cases}")
    gen_schedules.cases = [tuple(c) for c in cases[0]]
    if len(behs) < max(3, num // 2):
        raise Machinery(f"GEN produced only {len(behs)} schedules:\n{g.out[-1500:]}")
    v.add_mc(g)
    scheds = []
    gen_schedules.behaviours = behs
    for b in behs:
        steps = [{"a": "NewObject"}]
        for h in b["hist"]:
            if h["a"] == "SetValues" and h["cls"] == "sizectrl":
                steps.append({"a": "SetValues", "cls": "sizectrl", "ctrl": h["lv"], "size": h["sz"] if h["sz"] != "-" else "mix", "sub": "rnd", "n": 2, "fallback": True})
            elif h["a"] == "SetValues":
                steps.append({"a": "SetValues", "cls": h["cls"], "val": "mix", "n": 5})
            elif h["a"] == "Export":
                steps.append({"a": "Export", "seal": bool(h["seal"])})
            else:
                steps.append({"a": h["a"]})
        scheds.append(steps)
    return scheds


def run(tier):
    os.environ.setdefault("SPSDK_DEBUG_LOGGING_DISABLED", "1")      # (the tools would append to a debug log in the user's home directory)
    import_spsdk()
    v = Verdict(PROP, tier)
    check_registers_copy(v)

    # ---- MC on the small layouts
    tiny = tiny_layouts()
    tiny_file = write_layouts([A.tla_layout(x) for x in tiny], "c12-tiny.json")
    # (the model checking runs in processes of their own while the real areas are driven; its result is demanded before the verdict)
    import multiprocessing

    mc_pool = multiprocessing.get_context("fork").Pool(1 if tier == "quick" else 2)
    mc_runs = [mc_pool.apply_async(mc_job, (9000, tiny_file, 3, "small" if tier == "quick" else "full", 900))]
    if tier != "quick":
        mc_runs.append(mc_pool.apply_async(mc_job, (9500, tiny_file, 4, "small", 1500)))
    mc_pool.close()

    # ---- GEN: schedules
    scheds = gen_schedules(v, tiny_file, 24 if tier == "quick" else 120, 8 if tier == "quick" else 10)
    say(f"[C12] GEN done {v.timer.s()}s: {len(scheds)} schedules")
    canary(v, [A.tla_layout(x) for x in tiny], tiny_file, gen_schedules.behaviours)
    say(f"[C12] canary done {v.timer.s()}s")

    # ---- every area the classes offer
    areas = A.enumerate_areas()
    if os.environ.get("VERIF_C12_KINDS"):      # development aid: restrict the sweep to some kinds of area
        areas = [a for a in areas if a["kind"] in os.environ["VERIF_C12_KINDS"].split(",")]
        v.assumptions.append("RESTRICTED RUN: VERIF_C12_KINDS=" + os.environ["VERIF_C12_KINDS"])
    kinds = {}
    for a in areas:
        kinds[a["kind"]] = kinds.get(a["kind"], 0) + 1
    say(f"[C12] {len(areas)} areas (kind x family x revision x sub-area): {kinds}")
    idents = [{k: a[k] for k in ("kind", "family", "rev", "sub")} for a in areas]
    RAW.preload()          # the raw database.yaml files are read once, before the workers are forked (clause RegisterMap)
    hashes = pmap(layout_job, idents, chunksize=8)
    errs = [x for x in hashes if "error" in x]
    if errs:
        raise Machinery(f"layout extraction failed for {len(errs)} areas, e.g. {errs[0]}")
    # areas with identical database content form one class: its representative (a latest revision if there is one) runs the full
    # schedules, every other member is still instantiated once (alias schedule); the thorough tier runs everything on everybody
    if max(h["nmenu"] for h in hashes) > CTRL_MENU_MAX:
        raise Machinery(f"a control bit-field has {max(h['nmenu'] for h in hashes)} boundary values, the canonical schedule provides for {CTRL_MENU_MAX}")
    groups = {}
    for a, h in zip(areas, hashes):
        groups.setdefault((a["kind"], a["sub"], h["hash"]), []).append(a)
    reps = set()
    for members in groups.values():
        members.sort(key=lambda a: (not a["latest"], a["family"], a["rev"]))
        reps.add(json.dumps({k: members[0][k] for k in ("kind", "family", "rev", "sub")}, sort_keys=True))
    say(f"[C12] layouts extracted {v.timer.s()}s: {len(groups)} classes of identical database content")
    jobs = []
    n_full = n_sizectrl = 0
    for idx, (a, ident) in enumerate(zip(areas, idents)):
        is_rep = json.dumps(ident, sort_keys=True) in reps
        if is_rep or tier != "quick":
            n_full += 1
            short = a["kind"] == "xmcd" or (tier == "quick" and a["kind"] in SLOW_KINDS)
            sl = [("template", SCHED_TEMPLATE_SHORT), ("values", SCHED_VALUES_SHORT)] if short else [("template", SCHED_TEMPLATE), ("values", SCHED_VALUES)]
            pick = rng(PROP, "subset", json.dumps(ident, sort_keys=True)).random()
            if (tier == "quick" and pick < 0.34 and not short) or (tier != "quick" and is_rep and a["kind"] != "xmcd"):
                for k in range(2 if tier == "quick" else 8):
                    sl.append((f"hist{k}", scheds[(idx * 7 + k) % len(scheds)]))
            if tier != "quick" and is_rep:
                sl.append(("sweep", SCHED_SWEEP_SHORT if a["kind"] == "xmcd" else SCHED_SWEEP))
            if a["kind"] == "cmpa":
                sl.append(("rotkeys", [{"a": "NewObject"}, {"a": "SetValues", "cls": "rotkh", "mode": "keys", "nkeys": 1}, {"a": "Export"}, {"a": "Parse"}, {"a": "Export"},
                                       {"a": "SetValues", "cls": "rotkh", "mode": "keys", "nkeys": 2, "big": False}, {"a": "Export"}]))
        else:
            sl = [("alias", SCHED_ALIAS if (A.KINDS[a["kind"]].has_binary and a["kind"] != "xmcd") else SCHED_ALIAS_NOBIN)]
        jobs.append({"area": ident, "scheds": sl})
        # areas with a size bit-field or a control bit-field: the cases TLC enumerated, as a job of its own (the pool stays balanced)
        slow = a["kind"] in SLOW_KINDS
        if hashes[idx]["sizectrl"] and (is_rep or (tier != "quick" and not slow)):
            jobs.append({"area": ident, "nolayout": True, "scheds": [("sizectrl", sched_sizectrl(gen_schedules.cases, tier if is_rep else "quick", slow))]})
            n_sizectrl += 1
    # the command-line route: the representatives of every class (kind x Root of Trust type x ROTKH width / sub-area) in the quick tier - the
    # first one by family name, latest revisions first -, every representative in the thorough tier; tools without a revision option work on the latest revision
    n_tool, seen_cli = 0, set()
    for idx, (a, ident) in sorted(enumerate(zip(areas, idents)), key=lambda x: (x[1][0]["kind"], not x[1][0]["latest"], x[1][0]["family"], x[1][0]["rev"], x[1][0]["sub"])):
        if json.dumps(ident, sort_keys=True) not in reps or (CLI.needs_latest(a["kind"]) and not a["latest"]):
            continue
        cc = (a["kind"], hashes[idx]["cliclass"] if a["kind"] != "xmcd" else a["sub"].split("/")[-1])       # (XMCD, quick tier: one area per configuration type)
        if tier == "quick" and cc in seen_cli:
            continue
        seen_cli.add(cc)
        jobs.append({"area": ident, "nolayout": True, "scheds": [("tool", sched_tool(a["kind"], hashes[idx]["seal"], short=a["kind"] in SLOW_TOOL_KINDS and tier == "quick"))]})
        n_tool += 1
    v.extra["cli_route_areas"] = n_tool
    # heavy kinds first, so that the pool is balanced
    weight = {"fuses": 9, "cmpa": 6, "cfpa": 6, "tz": 5, "romcfg": 4, "fcb": 3, "xmcd": 3, "bca": 2, "fcf": 2, "cmactable": 2, "memcfg": 1}
    jobs.sort(key=lambda j: -weight.get(j["area"]["kind"], 1) * (10 if len(j["scheds"]) > 1 or j.get("nolayout") else 1) * (2 if j.get("nolayout") else len(j["scheds"])))
    results = pmap(area_job, jobs, chunksize=1)
    say(f"[C12] real runs done {v.timer.s()}s ({n_full} areas with the full schedules, {len(jobs) - n_full - n_sizectrl - n_tool} alias instantiations, {n_sizectrl} size / control case runs, "
        f"{n_tool} command-line runs)")
    errs = [x for x in results if "error" in x]
    if errs:
        raise Machinery(f"layout extraction failed for {len(errs)} areas, e.g. {errs[0]}")
    slow = sorted(results, key=lambda x: -x["wall"])[:6]
    v.extra["slowest_areas_s"] = {A.make(x["area"]).key() + ("#sizectrl" if any(t.get("cov") for t in x["traces"]) else ""): round(x["wall"], 1) for x in slow}
    v.extra["cpu_s_real_runs"] = round(sum(x["wall"] for x in results), 1)
    bykind = {}
    for x in results:
        k = x["area"]["kind"] + ("(sizectrl)" if any(t.get("cov") for t in x["traces"]) else "(tool)" if any(t["id"].endswith("#tool") for t in x["traces"]) else "" if len(x["traces"]) > 2 else "(alias)")
        bykind[k] = round(bykind.get(k, 0) + x["wall"], 1)
    v.extra["cpu_s_by_kind"] = bykind
    say(f"[C12] cpu {v.extra['cpu_s_real_runs']}s {bykind}, slowest: {v.extra['slowest_areas_s']}")
    n_ev = sum(len(t["ev"]) for x in results for t in x["traces"])
    v.count(n_ev)
    for x in results:
        for t in x["traces"]:
            if any(e["a"] in ("SetValues", "LoadConfig", "Parse") for e in t["ev"]):      # a state was transported through the real code
                v.nontrivial(t["id"])
    v.extra["areas"] = kinds
    v.extra["content_classes"] = len(groups)
    v.extra["areas_full_schedules"] = n_full
    v.extra["events_by_action"] = {}
    for x in results:
        for t in x["traces"]:
            for e in t["ev"]:
                v.extra["events_by_action"][e["a"]] = v.extra["events_by_action"].get(e["a"], 0) + 1

    rej, names = validate(v, results, "all")
    say(f"[C12] TV done {v.timer.s()}s: {len(rej)} traces rejected")
    for x in mc_runs:
        v.add_mc(x.get(timeout=1800))         # (a failed lemma / a vacuous action raises Machinery here)
    mc_pool.join()
    say(f"[C12] MC done {v.timer.s()}s: {v.cov['states']} states, {v.cov['transitions']} transitions (GEN included)")
    report(v, results, rej, names)
    demand_case_coverage(v, results, rej)
    demand_tool_reach(v, results, rej, kinds)
    demand_alias_reach(v, results, areas)
    for x in results:
        for t in x["traces"]:
            if t["id"] not in rej and t["id"].endswith("#values") and x["area"]["kind"] in ("cmpa", "xmcd", "fuses", "tz", "memcfg"):
                if len(v.cov["samples"]) < 5 and not any(s["area"]["kind"] == x["area"]["kind"] for s in v.cov["samples"]):
                    v.sample({"id": t["id"], "area": t["area"], "events": [{k: e[k] for k in ("a", "w", "shown", "size", "seal", "hex") if k in e} for e in t["ev"]]})
    v.extra["group_width_inconsistencies"] = sorted({f"{x['area']['kind']}/{x['area']['family']}/{x['area']['rev']}:{g['name']} declared {g['declared']} present {g['present']}"
                                                     for x in results for g in x["info"]["groups"]})
    v.extra["observation_parse_skips_hidden_registers"] = probe_hidden(v)
    v.cov["rule"] = (
        "areas = every (kind, family, revision, sub-area) returned by each area class's own get_supported_families / memory-type / configuration-type / peripheral "
        "queries; areas with byte-identical database content (alias families, unchanged revisions) form one class: in the quick tier its representative runs the template "
        "schedule and the value schedule (boundary-menu values for seeded bit-fields, registers, groups, computed registers, seal, ROTKH over the full declared width, a "
        "second object after the first was customised and exported) and every other member is instantiated once (alias schedule); the thorough tier runs the full schedules "
        f"on every area; a seeded share of the representatives additionally replays TLC-generated schedules ({len(scheds)} from CfgAreaGen -simulate); one layout-consistency "
        "trace per area; areas with a size bit-field or a control bit-field (XMCD, option words) additionally run the case space TLC enumerates (SizeCtrlCases: announced size "
        "equal / too small / too large x control level none / some / all conditional registers, consecutive cases flip the level, then the announcement left stale while the "
        "control bit-field changes, then every boundary value of the control bit-field) - the trace form classifies every configuration that was really loaded and the run "
        "fails as machinery unless every case that exists on the layout was executed; COMMAND-LINE ROUTE (schedule `tool`): per class (kind x Root of Trust type x width of "
        "ROTKH / sub-area; XMCD quick: configuration type) the first representative of the latest revision in the quick tier, every representative in the thorough tier: "
        "template by the tool -> load; every export by the library AND by the tool from the same configuration file with `type` as written by SPSDK and in lower case "
        "(same state, same bytes); binary -> parser -> configuration by the tool -> load; values; seal (-a); REGISTER MAP (clause RegisterMap, every area of every family in both tiers): "
        "the alias chain of the family is walked in the raw database.yaml files (device folder first, then each aliased device in turn; features merged as the files say, no SPSDK "
        "database code), the register file of the area is looked up in every folder of the chain, the map (names, offsets / OTP indexes, widths) of every file found and the map a "
        "fresh real object exposes are logged, TLC picks the prescribed file (nearest own file) and compares - the run fails as machinery unless every area, and every family that is "
        "an alias of an alias, was decided; CMPA: 1..4 keys of the committed pool as -sf files "
        "(public key / private key / certificate, PEM / DER) and as certificate-block / MBI configuration (-e) x type as written / lower / upper case, ROTKH compared "
        "with hashlib over the public numbers - the run fails as machinery unless every tool operation and every (key route, spelling) was executed; distinct_nontrivial = distinct traces (area x schedule) in which at least one state was transported through the real code (SetValues / LoadConfig / Parse)")
    v.extra["checker_cmd"] = "tlc2.TLC CfgAreaMC (lemmas), CfgAreaGen -simulate (schedules), CfgAreaTrace (batch trace validation, one JVM per chunk; library and tool observations alike)"
    v.extra["trusted_base"] = ["TLC", "spec/C12/Registers.tla + CfgArea.tla", "database files read directly (json / PyYAML)", "PyYAML safe_load as YAML judge", "hashlib",
                               "cryptography (EC key generation, reading the public numbers of the pool keys /verif/keys/rot)", "click.testing.CliRunner (in-process tool calls)", "bit-serial CRC-32/MPEG-2 in the harness", "documented binary sizes of the reference manuals"]
    v.assumptions += ASSUMPTIONS
    return v.finish()


ASSUMPTIONS = [
    "hidden (reserved) registers are not written by generated actions: Registers.parse skips them although export writes them, so parse-then-export is the identity only "
    "on binaries whose reserved words hold their presets (which is what export of a configured object produces) - counted as an observation, not asserted",
    "computed registers are configured through their visible bit-fields (the documented trigger of the recomputation); a whole-register value or an explicit value of the "
    "computed bit-field itself is taken literally by SPSDK and is outside the asserted domain; a computed register that no configuration named keeps its preset",
    "registers that identify a binary for its own parser or the area itself (FCB tag/version, BCA TAG, XMCD header: tag, version, memory interface, block type) are not "
    "written by generated actions; the one DERIVED bit-field of the XMCD header, configurationBlockSize, is: a configuration may announce any in-range size (right, too "
    "small, too large) and the exported header must describe the exported block (the format defines the field as the size of header + block, XMCD.verify demands it, "
    "load_from_config documents the replacement: 'The calculated value will be used instead')",
    "a value that fits into a narrower alternative width of a group is a value of that width (first sub-registers only); values with leading zero bytes are therefore "
    "generated together with the width the database rule selects",
    "fuse maps have no binary form in SPSDK: only template / load / configuration round trip / second object are asserted for them; shadow registers are not importable here",
    "memory-configuration option words and XMCD blocks transport only the registers that exist for the current control bit-field (option size / timing mode); their size is the "
    "size of those registers; the control bit-field is driven through the boundary values of every condition (the configuration selects fewer / more registers than "
    "the object had), registers that do not exist are not asserted; TrustZone has no configuration writer - the customisations parsed from the binary are taken as its configuration",
    "documented sizes: PFR pages 512, ROMCFG 304, CMAC table 128, BCA 64, FCF 16, FCB 512 bytes, TrustZone 4 bytes per preset register (reference manuals); gap fill value "
    "must be one constant byte, which one is not asserted",
    "registers whose JSON description overlaps another register (CMAC table) are asserted through byte stability of the export only, not per register",
    "clause RegisterMap: restricted data / add-on folders outside spsdk/data are not part of the raw walk (none is configured in this environment); the map compares names, byte "
    "offsets (not of fuse groups: they have no binary form), widths and the OTP index of fuses - bit-fields, presets and enums of the prescribed file are compared only through the "
    "other clauses (which read the file SPSDK's database names); registers SPSDK drops by its own documented rules (repeated name, repeated non-zero offset) are dropped from the "
    "prescribed map by the same extraction that builds the layouts",
    "command-line route: `pfr generate-binary` is called with --ignore (the brick-condition rules of PFRC are no part of the property); the `type` of a PFR / IFR "
    "configuration is respelled in lower and upper case only (SPSDK writes CMPA / CFPA / ROMCFG / CMACTABLE, its own test data use cmpa; the mixed-case `CMACTable` of "
    "the -s option is refused by `ifr generate-binary` as a configuration value - not settled, not asserted); tools without a revision option (nxpimage bca / fcf / "
    "bootable-image fcb / xmcd, nxpmemcfg) are driven for the latest revision only; `ifr generate-binary` is given -f (it demands the deprecated option); option words "
    "are read from the text `nxpmemcfg export` prints; nxpfuses has a template tool only (the others need a device)",
]


def canary(v, tiny_tla, tiny_file, behs):
    """A behaviour generated by the spec itself (states included) must be accepted as a trace; the same trace with one flipped
    state bit, a wrong size, a false fact must be rejected at the right clause.  Independent of SPSDK."""
    b = next((x for x in behs if x["lay"] == 1 and any(h["a"] == "SetValues" for h in x["hist"]) and any(h["a"] == "Export" for h in x["hist"])), None)
    if b is None:
        raise Machinery("canary: no generated behaviour with a write and an export on the first small layout")
    def events_of(b):
        lay = tiny_tla[b["lay"] - 1]
        n = len(lay["regs"])

        def state(post):
            if isinstance(post, list):
                post = {str(i + 1): x for i, x in enumerate(post)}
            return [sorted(post.get(str(i), [])) if lay["regs"][i - 1]["kind"] == "leaf" else [] for i in range(1, n + 1)]

        evs = [{"a": "NewObject", "ok": True, "struct": True, "post": state(b["fresh"])}]
        prev_bin = None
        for h in b["hist"]:
            a = h["a"]
            if a == "NewObject":
                evs.append({"a": a, "ok": True, "struct": True, "post": state(h["post"])})
            elif a == "Template":
                evs.append({"a": a, "ok": True, "yaml": True, "schema": True})
            elif a == "GetConfig":
                evs.append({"a": a, "ok": True, "yaml": True, "schema": True})
            elif a in ("LoadConfig",):
                evs.append({"a": a, "ok": True, "post": state(h["post"])})
            elif a == "Parse":
                evs.append({"a": a, "ok": True, "verified": True, "post": state(h["post"])})
            elif a == "SetValues":
                evs.append({"a": a, "ok": True, "w": [{"r": w["r"], "f": w["f"], "v": list(w["v"]), "aw": w["aw"]} for w in h["w"]], "post": state(h["post"])})
            elif a == "Export":
                cur = state(h["post"])
                evs.append({"a": a, "ok": True, "seal": bool(h["seal"]), "size": h["size"], "gaps": True, "bin": cur, "eqprev": cur == prev_bin, "rotkh": True, "crc": True})
                prev_bin = cur
        return evs

    evs = events_of(b)
    good = {"id": 0, "lay": b["lay"], "ev": evs}
    bads = []
    i1 = next(i for i, e in enumerate(evs) if e["a"] == "SetValues")
    t = json.loads(json.dumps(good))
    t["ev"][i1]["post"][0] = sorted(set(t["ev"][i1]["post"][0]) ^ {3})
    bads.append((t, "SetValues"))
    i2 = next(i for i, e in enumerate(evs) if e["a"] == "Export")
    t = json.loads(json.dumps(good))
    t["ev"][i2]["size"] += 4
    bads.append((t, "SizeFixed"))
    t = json.loads(json.dumps(good))
    t["ev"][i2]["bin"][1] = sorted(set(t["ev"][i2]["bin"][1]) ^ {7})
    bads.append((t, "ExportFaithful"))
    t = json.loads(json.dumps(good))
    t["ev"][i2]["gaps"] = False
    bads.append((t, "GapsFilled"))
    # the size / control dimension on the second small layout: a generated behaviour in which a configuration announces a WRONG size
    # (too small / too large) while its control bit-field changes the set of registers is accepted - and classified case by case as
    # the generator labelled it; the same trace in which the announced size SURVIVES in the object is rejected
    b2 = next((x for x in behs if x["lay"] == 2 and any(h["a"] == "SetValues" and h["cls"] == "sizectrl" and h["sz"] in ("lt", "gt") for h in x["hist"])), None)
    if b2 is None:
        raise Machinery("canary: no generated behaviour with a wrong announced size on the second small layout")
    lay2 = tiny_tla[1]
    sf = lay2["sizefld"]
    fl = lay2["regs"][sf["r"] - 1]["fields"][sf["f"] - 1]
    good2 = {"id": 50, "lay": 2, "ev": events_of(b2), "cov": True}
    labels = [(1 + k + 1, h["sz"], h["lv"]) for k, h in enumerate(b2["hist"]) if h["a"] == "SetValues" and h["cls"] == "sizectrl"]      # (event number, case)
    k2 = next(k for k, h in enumerate(b2["hist"]) if h["a"] == "SetValues" and h["cls"] == "sizectrl" and h["sz"] in ("lt", "gt"))
    t = json.loads(json.dumps(good2))
    announced = next(w["v"] for w in reversed(b2["hist"][k2]["w"]) if (w["r"], w["f"]) == (sf["r"], sf["f"]))
    hdr = t["ev"][k2 + 1]["post"][sf["r"] - 1]
    t["ev"][k2 + 1]["post"][sf["r"] - 1] = sorted([x for x in hdr if not fl["off"] <= x < fl["off"] + fl["width"]] + [x + fl["off"] for x in announced])
    t["cov"] = False
    bads.append((t, "SetValues"))
    # the command-line route: the same state exported a second time (the tool after the library) - accepted when the bytes are the same,
    # rejected when they are not
    good3 = json.loads(json.dumps(good))
    good3["ev"].insert(i2 + 1, dict(json.loads(json.dumps(evs[i2])), eqprev=True))
    good3["id"] = 60
    t = json.loads(json.dumps(good3))
    t["ev"][i2 + 1]["eqprev"] = False
    bads.append((t, "BytesStable"))
    for k, (t, _) in enumerate(bads, 1):
        t["id"] = k
    # layout clauses: the small layouts are consistent, a copy with a group declared wider than its sub-registers is not
    bad_lay = json.loads(json.dumps(tiny_tla[0]))
    gi = next(i for i, x in enumerate(bad_lay["regs"]) if x["kind"] == "group")
    bad_lay["regs"][gi]["declw"] = bad_lay["regs"][gi]["subsw"] + 32
    cfile = write_layouts(tiny_tla + [bad_lay], "c12-canary-layouts.json")
    lay_traces = [{"id": 100 + k, "lay": k + 1, "ev": [{"a": "Layout"}]} for k in range(len(tiny_tla) + 1)]
    # clause RegisterMap: a family that is an alias of an alias whose intermediate device has its own register file - an object that works on the map of
    # that file is accepted, an object that works on the map of the BASE device (the device in between skipped), a map with one OTP index moved, a
    # chain in which no folder holds the file are rejected
    m_mid = [{"n": "BOOT", "o": 0, "w": 32, "x": -1}, {"n": "USB_ID", "o": 4, "w": 32, "x": -1}, {"n": "GP3", "o": 8, "w": 32, "x": 59}]
    m_base = [{"n": "BOOT", "o": 0, "w": 32, "x": -1}, {"n": "GP3", "o": 8, "w": 32, "x": 36}]
    chain = [{"f": 0}, {"f": 1}, {"f": 2}]
    moved = json.loads(json.dumps(m_mid))
    moved[2]["x"] = 36
    map_cases = [(200, [{"chain": chain, "files": [m_mid, m_base], "obs": m_mid}], None), (201, [{"chain": chain, "files": [m_mid, m_base], "obs": m_base}], 10002),
                 (202, [{"chain": chain, "files": [m_mid, m_base], "obs": m_mid}, {"chain": chain[1:], "files": [m_mid, m_base], "obs": moved}], 20003),
                 (203, [{"chain": [{"f": 0}, {"f": 0}], "files": [], "obs": m_mid}], 10000), (204, [{"chain": [{"f": 1}], "files": [m_base], "obs": m_base}], None),
                 (205, [{"chain": chain, "files": [m_mid, m_base], "obs": m_mid[:2]}], 10003)]
    lay_traces += [{"id": i, "lay": 1, "ev": [{"a": "Layout", "parts": parts}]} for i, parts, _ in map_cases]
    rej, cres = tlc.tv(SPEC, "CfgAreaTrace", [good, good2, good3] + [t for t, _ in bads] + lay_traces, env={"LAYOUT_FILE": cfile}, heap="4g")
    check_tv_output(cres, rej)
    appl = sorted((x[1], x[2]) for x in cres.tuples("APPL") if x[0] == 50)
    covd = sorted((x[1], x[2], x[3]) for x in cres.tuples("COV") if x[0] == 50)
    if appl != sorted((sz, lv) for sz in ("eq", "lt", "gt") for lv in ("min", "max")) or covd != sorted(labels):
        raise Machinery(f"canary failed: cases of the second small layout {appl}, configurations classified as {covd}, generated as {labels}")
    want = {k: c for k, (_, c) in enumerate(bads, 1)}
    got = {k: x[3] for k, x in rej.items()}
    lays = [tuple(x[:2]) for x in cres.tuples("LAY")]
    maps = sorted(tuple(x[:3]) for x in cres.tuples("LAY") if x[1] == "RegisterMap")
    if maps != sorted((i, "RegisterMap", code) for i, _, code in map_cases if code):
        raise Machinery(f"canary failed: clause RegisterMap fired as {maps} on the cases {[(i, c) for i, _, c in map_cases]}")
    lays = [x for x in lays if x[1] != "RegisterMap"]
    if got != want or lays != [(100 + len(tiny_tla), "GroupsConsistent")]:
        raise Machinery(f"canary failed: rejected {rej}, layout findings {lays}; expected exactly {want} and GroupsConsistent on the inconsistent copy only")
    v.extra["canary"] = ("a behaviour generated by the spec (states included) is accepted as a trace; the same trace with one flipped state bit / a wrong export size / "
                         "one flipped bit of the decoded binary / a false gap fact / an announced wrong size that survives in the object / a second export of the same state (the tool after "
                         "the library) with other bytes is rejected at clauses " + ", ".join(want.values()) +
                         "; the configurations of a generated behaviour that write the size / control bit-fields are classified by the trace form exactly as generated"
                         "; clause RegisterMap: an alias of an alias whose object works on the map of the intermediate device's own file is accepted, on the map of the base "
                         "device / with one OTP index moved / with a register missing / with no file in the chain is rejected at the right position")


def probe_hidden(v):
    """Observation outside the asserted domain: non-preset reserved words do not survive parse (recorded, never a violation)."""
    try:
        from spsdk.pfr.pfr import CMPA

        fam = CMPA.get_supported_families()[0]
        a = CMPA(fam)
        hidden = [x for x in a.registers if x.hidden]
        if not hidden:
            return "no hidden register in the probed area"
        hidden[0].set_value(0x5A5A5A5A & ((1 << hidden[0].width) - 1), raw=True)
        data = a.export(draw=False)
        b = CMPA(fam)
        b.parse(data)
        return {"area": f"cmpa/{fam}", "register": hidden[0].name, "reexport_equal": b.export(draw=False) == data}
    except Exception as e:  # noqa: BLE001
        return f"probe failed: {type(e).__name__}"


def replay(path):
    body = json.load(open(path))
    os.environ["VERIF_SEED"] = str(body.get("seed", 0))      # the concretisation of the write classes is a function of (seed, area, schedule name)
    import_spsdk()
    w = body["witness"]
    ident = w["area"]
    ad = A.make(ident)
    lay = ad.layout()
    tl = A.tla_layout(lay)
    name = w["trace_id"].split("#", 1)[1]
    if name == "layout":
        t = {"id": w["trace_id"], "lay": 1, "area": ident, "ev": [layout_event(ad)]}
        lev = t["ev"][0]
    else:
        t = run_trace(ad, lay, w["steps"], rng(PROP, ad.key(), name), w["trace_id"], 1)
    for e in t["ev"]:
        facts = {k: e[k] for k in e if k in ("ok", "struct", "yaml", "schema", "size", "gaps", "eqprev", "verified", "rotkh", "crc", "err", "mismatch", "cause")}
        say(f"  {e['a']:<10} {json.dumps(e.get('shown'))[:160] if e.get('shown') else ''} {facts}")
    t["ev"] = [strip_event(e) for e in t["ev"]]
    lay_file = write_layouts([tl], "c12-replay-layout.json")
    rej, rres = tlc.tv(SPEC, "CfgAreaTrace", [{"id": 0, "lay": t["lay"], "ev": t["ev"]}], env={"LAYOUT_FILE": lay_file}, heap="4g")
    check_tv_output(rres, rej)
    lays = rres.tuples("LAY")
    if lays:
        say(f"VIOLATION property=C12 replay={path}")
        for x in lays:
            if x[1] == "RegisterMap":
                say(f"  key={body.get('key')}: clause RegisterMap - the real object does not work on the register map the raw database files prescribe: {json.dumps(map_witness(lev, x[2])[1])[:900]}")
                continue
            say(f"  key={body.get('key')}: the database content violates clause {x[1]}" + (f" at register {lay['regs'][x[2] - 1]['name']}" if x[2] else ""))
        return 1
    if rej:
        rj = rej[0]
        say(f"VIOLATION property=C12 replay={path}")
        say(f"  key={body.get('key')}: rejected at event {rj[0] + 1} ({rj[2]}), clause {rj[3]}, register {lay['regs'][rj[4] - 1]['name'] if rj[4] else '-'}")
        return 1
    say("replay: trace accepted by the spec")
    return 0
