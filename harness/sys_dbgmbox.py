"""Growth beyond the listed properties: the debug mailbox (the channel the debug authentication of C15 runs over).

spec/SYS/DbgMbox.tla      design model: device || DebugMailboxCommand.run as built || a probe whose accesses may fail (model checked; the host as built
                          is REFUTED: an access error reported after the word reached the device makes spin_write write the word again)
spec/SYS/DbgMboxTrace.tla trace form: the register accesses of the real DebugMailboxCommand.run through a probe twin, decided by TLC

Not a registered check: nothing here is a violation of a listed property.  `./check sys_dbgmbox` prints OBSERVATION lines and exits 0 (2 on machinery failure)."""
import json
import os
import sys

from lib import tlc
from lib.common import Machinery, import_spsdk, rng, say
from lib.par import pmap

TOK = 0xA5A5


def W(v):
    v &= 0xFFFFFFFF
    return [v >> 16, v & 0xFFFF]


def data_word(i):
    return ((8192 + i) << 16) | (12288 + i)


class Probe:
    """Duck-typed debug probe + the mailbox device behind it. fault = (access index, 'lost' | 'late') | None; stalls = reads of RETURN that find nothing."""

    def __init__(self, scen, fault, stalls):
        from spsdk.debuggers.debug_probe import SPSDKDebugProbeTransferError

        self.Err = SPSDKDebugProbeTransferError
        self.scen, self.fault, self.stalls = scen, fault, stalls
        self.k = 0
        self.trace = []
        self.dst, self.dleft, self.dpar, self.dcmd = "idle", 0, [], 0
        self.ret = None
        self.budget = 2000000
        self.nstall = 0

    @staticmethod
    def get_coresight_ap_address(access_port, address):
        return (access_port << 24) | address

    def close(self):
        pass

    # ---- the device
    def put(self, w):
        self.ret = None if self.scen["silent"] else w

    def execute(self, cmd, p):
        self.trace.append({"ev": "exec", "cmd": cmd, "p": [W(x) for x in p]})
        s = self.scen
        self.put(0x80000000 | (s["devResp"] << 16) | s["devStatus"])
        self.dst, self.dleft, self.dpar = ("ack0" if s["devResp"] > 0 and s["devStatus"] == 0 else "idle"), s["devResp"], []

    def ackword(self, n):
        bad = self.scen["ackBad"]
        return (n << 16) | 0x5A5A if bad == "token" else ((n + 1) << 16) | TOK if bad == "count" else (n << 16) | TOK

    def take(self, w):
        hi, lo = w >> 16, w & 0xFFFF
        if self.dst == "idle":
            self.dcmd = lo
            if hi == 0:
                self.execute(lo, [])
            else:
                self.dst, self.dleft, self.dpar = "params", hi, []
                self.put(self.ackword(hi))
        elif self.dst == "params":
            if self.dleft == 1:
                self.execute(self.dcmd, self.dpar + [w])
            else:
                self.dpar.append(w)
                self.dleft -= 1
                self.put(self.ackword(self.dleft))
        elif self.dst == "ack0" and w == ((self.scen["devResp"] << 16) | TOK):
            self.put(data_word(1))
            self.dst, self.dleft = "data", self.scen["devResp"] - 1
        elif self.dst == "data" and w == ((self.dleft << 16) | TOK):
            if self.dleft == 0:
                self.dst, self.ret = "idle", None
            else:
                self.put(data_word(self.scen["devResp"] - self.dleft + 1))
                self.dleft -= 1
        else:
            self.dst = "idle"
            self.put(0x8000FFFF)

    # ---- the probe
    def hit(self):
        k, self.k = self.k, self.k + 1
        self.budget -= 1
        if self.budget < 0:
            raise KeyboardInterrupt()
        return self.fault[1] if self.fault and self.fault[0] == k else None

    def coresight_reg_write(self, access_port=True, addr=0, data=0):
        reg = addr & 0xFF
        if reg != 0x04:
            return                                  # CSW writes (resynchronisation) are outside the modelled exchange
        f = self.hit()
        took = f != "lost"
        self.trace.append({"ev": "wr", "val": W(data), "took": took, "err": f is not None})
        if took:
            self.take(data)
        if f:
            raise self.Err("probe: transfer error")

    def coresight_reg_read(self, access_port=True, addr=0):
        reg = addr & 0xFF
        if reg == 0xFC:
            return 0x002A0000
        if reg == 0x00:                             # CSW: the request is consumed at once; the read itself may fail (after the write took effect)
            if self.hit():
                last = next((e for e in reversed(self.trace) if e["ev"] == "wr"), None)
                if last is not None:
                    last["err"] = True              # the write had reached the device; what failed is the read-back of the status word
                raise self.Err("probe: transfer error")
            return 0
        f = self.hit()
        if self.ret is None:
            self.nstall += 1
            if self.nstall <= 3:                    # a host that keeps polling an empty register until its time-out: the first polls are recorded
                self.trace.append({"ev": "rd", "val": [0, 0], "stall": True, "kept": True})
            raise self.Err("probe: WAIT")
        v = self.ret
        if self.stalls > 0:                         # a slow device: the access is answered with WAIT although the value is (by now) there
            self.stalls -= 1
            f = "lost"
        if f == "lost":                             # the value never arrived, the register still holds it
            self.trace.append({"ev": "rd", "val": W(v), "stall": False, "kept": True})
            raise self.Err("probe: transfer error")
        self.ret = None
        self.trace.append({"ev": "rd", "val": W(v), "stall": False, "kept": False, "err": f == "late"})
        if f == "late":                             # the value was taken from the register and then lost
            raise self.Err("probe: transfer error")
        return v


CMDS = {"start": ("StartDebugMailbox", 1, 0, 0), "isp": ("EnterISPMode", 5, 1, 0), "blank": ("EnterBlankDebugAuthentication", 8, 8, 0),
        "write": ("WriteToFlash", 9, 5, 0), "auth_start": ("DebugAuthenticationStart", 16, 0, 26), "auth_resp": ("DebugAuthenticationResponse", 17, 6, 0),
        "generic": ("DebugMailboxCommand", 0, 2, 2)}


def run_one(job):
    import time

    from spsdk.dat import dm_commands as C
    from spsdk.dat.debug_mailbox import DebugMailbox
    from spsdk.exceptions import SPSDKError

    jid, calls, fault, stalls = job
    time.sleep = lambda s: None                     # worker process only: the protocol delays carry no meaning against a twin
    import spsdk.dat.debug_mailbox as M

    M.sleep = lambda s: None
    evs = []
    probe = Probe(calls[0][1], None, 0)
    dm = DebugMailbox(probe, family="lpc55s69", reset=True, op_timeout=25)
    probe.k = 0
    probe.fault, probe.stalls = fault, stalls
    for name, scen in calls:
        cls, cid, npar, nresp = CMDS[name]
        probe.scen = scen
        probe.trace = []
        probe.nstall = 0
        r = rng("SYS", "dm", jid, name)
        params = [r.choice([0, 1, TOK, 0xFFFFFFFF, r.getrandbits(32), 0x0001A5A5]) for _ in range(npar)]
        call = {"ev": "call", "op": name, "cmd": cid, "npar": npar, "nresp": nresp, "params": [W(x) for x in params]}
        call.update(scen)
        res = {"ev": "result", "kind": "ret", "documented": True, "exc": "none", "data": []}
        try:
            if name == "generic":
                cmd = C.DebugMailboxCommand(dm, paramlen=npar, resplen=nresp)
            elif name == "auth_resp":
                cmd = C.DebugAuthenticationResponse(dm, paramlen=npar)
            else:
                cmd = getattr(C, cls)(dm)
            out = cmd.run(params) if npar else cmd.run()
            res["data"] = [W(x) for x in out] if nresp else []
        except SPSDKError as e:
            res.update(kind="exc", exc=type(e).__name__, documented=True)
        except TimeoutError as e:
            res.update(kind="exc", exc=type(e).__name__, documented=True)
        except KeyboardInterrupt:
            res.update(kind="exc", exc="unbounded", documented=False)
        except BaseException as e:  # noqa: BLE001
            res.update(kind="exc", exc=type(e).__name__, documented=False)
        evs += [call] + probe.trace + [res]
    return {"id": jid, "ev": [norm(e) for e in evs], "job": [jid, [[n, s] for n, s in calls], fault, stalls]}


def norm(e):
    return {"ev": e["ev"], "op": e.get("op", "none"), "cmd": int(e.get("cmd", 0)), "npar": int(e.get("npar", 0)), "nresp": int(e.get("nresp", 0)),
            "params": e.get("params", []), "devStatus": int(e.get("devStatus", 0)), "devResp": int(e.get("devResp", 0)), "ackBad": e.get("ackBad", "none"),
            "silent": bool(e.get("silent", False)), "val": e.get("val", [0, 0]), "took": bool(e.get("took", False)), "err": bool(e.get("err", False)),
            "stall": bool(e.get("stall", False)), "kept": bool(e.get("kept", False)), "p": e.get("p", []), "kind": e.get("kind", "none"),
            "documented": bool(e.get("documented", True)), "exc": e.get("exc", "none"), "data": e.get("data", [])}


def scen(nresp, **k):
    s = {"devStatus": 0, "devResp": nresp, "ackBad": "none", "silent": False}
    s.update(k)
    return s


def jobs(tier):
    r = rng("SYS", "dm-jobs")
    out, n = [], 0
    for name, (_, _, npar, nresp) in CMDS.items():
        # fault-free, slow device
        for stalls in (0, 1, 2):
            n += 1
            out.append((f"dm-{n}", [(name, scen(nresp))], None, stalls))
        # the device says no / answers with another number of words / acknowledges wrongly / stays silent
        for s in [scen(nresp, devStatus=st) for st in (1, 0x10, 0xFFFF)] + [scen(nresp, devResp=nresp + 1)] + ([scen(nresp, devResp=nresp - 1)] if nresp else []) + \
                 ([scen(nresp, ackBad=b) for b in ("token", "count")] if npar else []) + [scen(nresp, silent=True)]:
            n += 1
            out.append((f"dm-{n}", [(name, s)], None, 0))
        # a probe error at every access of the exchange, before or after the access took effect
        total = 2 * (1 + npar) + 1 + (2 * (nresp + 1) + nresp if nresp else 0) + 2
        pts = range(total) if (tier == "thorough" or total <= 14) else sorted(set(r.sample(range(total), 12)) | {0, 1, 2, total - 3, total - 4})
        for k in pts:
            for kind in ("lost", "late"):
                n += 1
                out.append((f"dm-{n}", [(name, scen(nresp))], (k, kind), 0))
        # histories: the same mailbox used for a second command (what the first one left behind matters)
        for k in (range(total) if tier == "thorough" else sorted(r.sample(range(total), min(total, 5)))):
            n += 1
            out.append((f"dm-{n}", [(name, scen(nresp)), ("start", scen(0))], (k, "late"), 0))
    return out


def model_check(say_):
    """The design model: the ideal host holds, the host as built is refuted (prediction), success is reachable."""
    res = {}
    for cfg, want in (("DbgMbox_ideal.cfg", False), ("DbgMbox_built.cfg", True), ("DbgMbox_reach.cfg", True)):
        g = tlc.run("SYS", "DbgMbox", cfg, workers=1, deadlock=False)
        viol = bool(g.violated)
        res[cfg] = {"violated": viol, "distinct": g.distinct}
        if viol != want:
            raise Machinery(f"DbgMbox {cfg}: violated={viol}, expected {want}\n{g.out[-800:]}")
    say_(f"[SYS/dbgmbox] design model: ideal host holds NoFalseSuccess, host as built refuted, success reachable {res}")
    return res


def run(tier):
    import_spsdk()
    mc = model_check(say)
    js = jobs(tier)
    traces = pmap(run_one, js, chunksize=8)
    # canary: hand-written traces (no SPSDK): a clean exchange accepted; success after a repeated final acknowledgement rejected
    sc = scen(1)
    call = norm(dict({"ev": "call", "op": "generic", "cmd": 7, "npar": 1, "nresp": 1, "params": [[0, 9]]}, **sc))
    wr = (lambda v, **k: norm(dict({"ev": "wr", "val": v, "took": True}, **k)))
    rd = (lambda v, **k: norm(dict({"ev": "rd", "val": v}, **k)))
    ok = norm({"ev": "result", "kind": "ret", "data": [[8193, 12289]]})
    ex = norm({"ev": "exec", "cmd": 7, "p": [[0, 9]]})
    good = {"id": "c-good", "ev": [call, wr([1, 7]), rd([1, TOK]), wr([0, 9]), ex, rd([32769, 0]), wr([1, TOK]), rd([8193, 12289]), wr([0, TOK]), ok]}
    bad1 = {"id": "c-dup", "ev": good["ev"][:-2] + [wr([0, TOK], err=True), wr([0, TOK]), norm({"ev": "exec", "cmd": TOK, "p": []}), ok]}
    bad2 = {"id": "c-data", "ev": good["ev"][:-1] + [norm({"ev": "result", "kind": "ret", "data": [[1, 2]]})]}
    bad3 = {"id": "c-par", "ev": [call, wr([1, 7]), rd([1, TOK]), wr([0, 8]), norm({"ev": "exec", "cmd": 7, "p": [[0, 8]]}), rd([32769, 0]), wr([1, TOK]), rd([8193, 12289]), wr([0, TOK]), ok]}
    crej, _ = tlc.tv("SYS", "DbgMboxTrace", [good, bad1, bad2, bad3])
    if set(crej) != {"c-dup", "c-data", "c-par"}:
        raise Machinery(f"debug-mailbox canary failed: rejected {sorted(crej)}")
    rej, _ = tlc.tv("SYS", "DbgMboxTrace", [{"id": t["id"], "ev": t["ev"]} for t in traces], heap="4g")
    by = {t["id"]: t for t in traces}
    classes = {}
    for tid, (matched, length, evname) in rej.items():
        t = by[tid]
        e = t["ev"][min(matched, len(t["ev"]) - 1)]
        res = next((x for x in t["ev"][matched:] if x["ev"] == "result"), t["ev"][-1])
        fault = t["job"][2]
        if evname != "result":
            key = f"twin-disagrees-with-automaton/{evname}"
        elif res["kind"] == "exc" and not res["documented"]:
            key = f"undocumented-exception:{res['exc']}"
        elif res["kind"] == "ret":
            start = max(i for i, x in enumerate(t["ev"][:matched + 1]) if x["ev"] == "call")
            rep = any(x["ev"] == "wr" and x["took"] and x["err"] for x in t["ev"][start:matched + 1])
            key = "false-success/" + ("word-written-again-after-it-took-effect" if rep else
                                      "mailbox-left-out-of-step-by-the-call-before" if start > 0 else "probe-error" if fault else "device-scenario")
        else:
            key = "fails-without-cause" if not fault else "fails-after-harmless-probe-error"
        classes.setdefault(key, []).append(t["job"])
    out = {"design_model": mc, "executions": len(traces), "rejected": len(rej), "classes": {k: {"count": len(v), "example": v[0]} for k, v in sorted(classes.items())}}
    os.makedirs(os.path.join(os.environ.get("VERIF_ROOT", "/verif"), "evidence", "extras"), exist_ok=True)
    with open(os.path.join(os.environ.get("VERIF_ROOT", "/verif"), "evidence", "extras", "sys_dbgmbox.json"), "w") as f:
        json.dump(out, f, indent=1)
    for k, v in sorted(classes.items()):
        say(f"OBSERVATION: sys_dbgmbox {k} ({len(v)}x, e.g. {json.dumps(v[0])[:200]})")
    if any(k.startswith("twin-disagrees") for k in classes):
        raise Machinery("the probe twin and the device automaton of DbgMboxTrace.tla disagree")
    say(f"[SYS/dbgmbox] tier={tier} executions={len(traces)} rejected={len(rej)} classes={len(classes)} (observations only - not a listed property)")
    return 0


def replay(path):
    raise Machinery("no replay for the extras lane")
