"""Growth beyond the listed properties (item 2 of DESIGN section 7): bootable image || boot ROM of the family.

spec/SYS/BimgRom.tla       reference model: where the ROM of a family reads its boot device (header segments at ITS offsets, the application
                           container at ITS image offset - the frozen ROM view anchors/SYS/bimgrom/romview.json, not the live database), and the
                           address clauses (IVT self pointer / boot data, MBI vector and load address, AHAB image offsets and load addresses
                           against where the bytes sit on a memory-mapped device / where the ROM copies them)
spec/SYS/BimgRomMC.tla     MC: design model at cell granularity (host merge + container builder || ROM), the documented design holds, four wrong
                           designs are REFUTED; GEN: the case space over the real classes with the numbers the model prescribes for every case
spec/SYS/BimgRomTrace.tla  TV: one reading of the merged image the real code produced; INSTANCEs MbiRom (C02), AhabRom (C06), HabRom (C07) -
                           the container automaton runs over the bytes FOUND AT THE ROM'S IMAGE OFFSET inside the merged image

The container builders, key pools and EXECUTORS of C02 / C06 / C07 are imported and used unchanged (c02.build_once, c06.to_config / expectation /
secrets, c07.concretise / execute, lib/mbi_rom2.walk, lib/ahab_rom2.walk).  Python only drives and records.

Not a registered check: `./check sys_bimgrom` prints OBSERVATION lines and exits 0 (2 on a machinery failure)."""
import json
import os
import struct
import time

import c02
import c06
import c07
import c14
from lib import ahab_rom2 as AR2
from lib import bimgrom_anchor, hab_keys, tlc
from lib import mbi_rom2 as MR
from lib.common import ROOT, Machinery, import_spsdk, rng, say, scratch
from lib.par import pmap
from lib.ptv import prun

LANE = "SYS"
ANCHORS = os.path.join(ROOT, "anchors", "SYS", "bimgrom")
LIBS = ("C02", "C06", "C07")
ROUTES = ("bin", "yaml", "cli", "reparse")
VERSION_SEGS = ("image_version", "image_version_ap")
RAM = 0x20008000                 # load address of the cases that are not executed in place (<<8192, 32768>> in BimgRomMC!GCases)
DUMMY = {"x": 0}
G = {}                           # what the parent prepared for the forked workers


def lim(a):
    return [(a >> 16) & 0xFFFF, a & 0xFFFF]


def word(l2):
    return (l2[0] << 16) | l2[1]


# ------------------------------------------------------------------ the device side: a dumb reader of the merged image
def tag_ok(name, blk):
    """The tag the ROM looks for in a header block (opaque blocks carry none)."""
    if name in ("fcb", "fcb_xspi"):
        return blk[:4] == b"FCFB"
    if name == "xmcd":
        return len(blk) >= 4 and blk[3] >> 4 == 0xC and (blk[0] | (blk[1] & 0x0F) << 8) == len(blk)
    if name == "image_version_ap":
        return len(blk) >= 4 and (blk[0] | blk[1] << 8) ^ (blk[2] | blk[3] << 8) == 0xFFFF
    return True


def read_headers(image, cls, eff, supplied):
    """One Hdr event per header segment of the ROM's table at or behind the start of the image.  supplied: {segment index: bytes}."""
    pat = bytes([cls["pat"]])
    starts = sorted({s["off"] for s in cls["segs"]} | {cls["imgOff"]})
    ev = []
    for i, s in enumerate(cls["segs"]):
        if s["off"] < eff:
            continue
        at = s["off"] - eff
        end = min(o for o in starts if o > s["off"]) - eff
        sup = supplied.get(i)
        n = len(sup) if sup is not None else 0
        blk = image[at:at + (n or 4)]
        ev.append({"ev": "Hdr", "i": i + 1, "devOff": s["off"], "at": at, "slotEnd": end, "len": n, "same": sup is not None and image[at:at + n] == sup,
                   "tagOk": tag_ok(s["name"], blk), "restBlank": image[at + n:end] == pat * max(0, end - at - n),
                   "blank": image[at:end] == pat * max(0, end - at)})
    return ev


def boot_event(kind, cont, n_images=0):
    e = {"ev": "Boot", "self": [0, 0], "start": [0, 0], "entry": [0, 0], "len": 0, "pc": [0, 0], "load": [0, 0], "total": 0, "nImages": n_images}
    try:
        if kind == "hab":
            entry, _r1, _dcd, bd, self_, _csf, _r2 = struct.unpack_from("<7I", cont, 4)
            o = bd - self_
            start, ln, _pl = struct.unpack_from("<3I", cont, o) if 0 <= o <= len(cont) - 12 else (0, 0, 0)
            e.update(self=lim(self_), start=lim(start), entry=lim(entry), len=c07.n31(ln))
        elif kind == "mbi":
            e.update(pc=lim(struct.unpack_from("<I", cont, 4)[0]), load=lim(struct.unpack_from("<I", cont, 0x34)[0]), total=MR.cl(struct.unpack_from("<I", cont, 0x20)[0]))
    except struct.error:
        pass
    return e


# ------------------------------------------------------------------ containers (builders and executors of C02 / C06 / C07, unchanged)
class Skip(Exception):
    """The family offers no container of the wanted shape (nothing to execute - counted, not judged)."""


def make_mbi(cid, fam, cls, k, r, wd):
    target = "xip" if k["xip"] else "load_to_ram"
    cands = [(comp, mem) for comp in G["comps"] if comp.get("kind") != "dsc" for mem in comp["members"]
             if mem["family"] == fam and mem["target"] == target and mem["auth"] in ("crc", "signed") and (k["xip"] or comp["opts"]["load"])]
    if not cands:
        raise Skip(f"no {target} crc/signed MBI class")
    comp, mem = r.choice(cands)
    origin = (word(k["base"]) + cls["imgOff"]) if k["xip"] else RAM
    case = dict(c02.common_opts(comp, mem, r, "quick"), id=cid, family=fam, target=target, auth=mem["auth"], route="api", comp=comp["id"])
    case["len"] = r.choice([0x200, 0x3FD, 0x400, 0x1000, 0x1234])
    case["reloc"] = []
    if comp["opts"]["load"]:
        case["load"] = origin
    if comp["cb"] == 1:
        case["seed"] |= 1                                            # (c02.build_once: the certificate block is described in its own file, as the schema asks)
        case["v1"] = {"bits": r.choice([2048, 2048, 3072, 4096]), "nroots": r.randrange(1, 5), "used": 0, "depth": 1}
    elif comp["cb"] == 21:
        n = r.randrange(1, 5)
        case["v21"] = {"curve": r.choice(["p256", "p384"]), "roots": [f"r{i}" for i in range(n)], "used": r.randrange(n), "isk": None, "ud": 0, "cons": 0}
        case["digest"] = None
    patch = {"off": 4, "word": (origin + 0x141) & 0xFFFFFFFF}         # the application's reset vector, linked for where the image will sit
    data, rom, sec, info = c02.build_once(case, comp, wd, patch)
    ypath = os.path.join(wd, "mbi_cfg.yaml")
    import yaml
    with open(ypath, "w") as f:
        yaml.safe_dump(info["cfg"], f)
    return {"bin": data, "yaml": ypath, "hdr": {"rom": rom, "pay": info["pay"]}, "walk": lambda b: MR.walk(b, rom, sec)[0],
            "cls": f"{comp['kind']}.{mem['auth']}", "load_given": comp["opts"]["load"]}


def make_ahab(cid, fam, cls, k, r, wd):
    f6 = next((f for f in G["fams06"] if f["family"] == fam), None)
    if f6 is None:
        raise Skip("no AHAB support for the family")
    cores = [(c, t) for c in f6["cores"] for t in c[2] if t[0] == "executable"]
    if not cores:
        raise Skip("no executable image type")
    cver = r.choice(f6["cvers"])
    cont = c06.random_container(r, f6, cver, signed=r.random() < 0.6, last=True)
    n_img = r.choice([1, 1, 2])
    off = 0x2000
    for i in range(n_img):
        core, typ = r.choice(cores)
        ln = r.choice([0x40, 0x400, 0x600, 0x1234, 0x17FF])
        if k["xip"]:
            load = word(k["base"]) + cls["imgOff"] + off          # executed in place: the address at which the image bytes are seen
            io = off
        else:
            load = RAM + 0x10000 * i
            io = off if r.random() < 0.5 else 0                   # explicit or automatic placement
        cont["img"].append(c06.plain_image(r, f6, ln, off=io, load=load, entry=load + r.choice([0, 4, 0x20]), type=[typ[0], typ[1]], core=[core[0], core[1]]))
        off += 0x2000
    case = {"id": cid, "family": fam, "revision": f6["revision"], "memory": "standard", "cver": cver, "cvers": f6["cvers"], "max_cont": f6["max_cont"],
            "max_img": f6["max_img"], "cont": [cont], "history": False, "tamper": 0}
    from spsdk.image.ahab.ahab_image import AHABImage
    import yaml

    cfg = c06.to_config(case, wd)
    ahab = AHABImage.load_from_config(json.loads(json.dumps(cfg)))
    ahab.update_fields()
    data = bytes(ahab.export())
    srk_hash = {ci: [bytes(c.get_srk_hash(0))] for ci, c in enumerate(ahab.ahab_containers) if case["cont"][ci]["srk_set"] != "none"}
    sec = c06.secrets(case, srk_hash)
    ypath = os.path.join(wd, "ahab_cfg.yaml")
    with open(ypath, "w") as f:
        yaml.safe_dump(cfg, f)
    return {"bin": data, "yaml": ypath, "hdr": {"exp": c06.expectation(case)}, "walk": lambda b: AR2.walk(b, sec), "cls": c06.case_class(case), "revision": f6["revision"]}


SEC_NAME = {v: n for n, v in c07.SEC.items()}


def make_hab(cid, fam, mt, cls, k, r, wd, route="bin"):
    want_flags = ("plain", "auth") if k["xip"] else ("plain", "auth", "enc")
    # (the entry point a case names lies inside its application; the YAML form of the configuration documents target indexes 2 and 4 only)
    cands = [c for c in G["hab_cases"] if c["ivtOff"] == cls["imgOff"] and c["cfg"] in ("none", "dcd") and c["flags"] in want_flags
             and (c["entryGiven"] != 2 or c["appLen"] >= 0x3100) and (route != "yaml" or c["flags"] == "plain" or c["tgt"] in (2, 4))]
    if not cands:
        raise Skip("no generated HAB case for the image offset")
    c = dict(r.choice(cands), rep=0)
    start = word(k["base"]) if k["xip"] else r.choice([0x20001C00, 0x2024FC00, 0x80001000])
    if start not in c07.STARTS:
        c07.STARTS.append(start)                                    # (the list of example start addresses of the C07 generator, this process only)
    c["startSel"] = c07.STARTS.index(start)
    c["id"] = f"{c['id']}-{cid}"
    ctx = c07.concretise(c, wd)
    opts = ctx["config"]["options"]
    if "family" in opts:
        if (fam, mt) in c07.db_lays().get((c["ivtOff"], c["ils"]), []):
            opts["family"], opts["bootDevice"] = fam, mt            # the builder takes IVT offset and initial load size of THIS device from its database
        else:
            opts.pop("family"), opts.pop("bootDevice")
            opts["ivtOffset"], opts["initialLoadSize"] = c["ivtOff"], c["ils"]
    ctx["inp"]["waive"] = []
    data = c07.build(ctx)
    # the same configuration in the form the bootable-image configuration refers to (YAML: options / inputImageFile / sections by name)
    ycfg = {"options": dict(opts), "inputImageFile": os.path.join(wd, "app.bin"),
            "sections": [{SEC_NAME[s["section_id"]]: {kk: vv for o in s["options"] for kk, vv in o.items()}} for s in ctx["config"]["sections"]]}
    import yaml
    ypath = os.path.join(wd, "hab_cfg.yaml")
    with open(ypath, "w") as f:
        yaml.safe_dump(ycfg, f)
    return {"bin": data, "yaml": ypath if c["flags"] != "enc" else None, "hdr": {"inp": ctx["inp"]}, "walk": lambda b: c07.execute(b, ctx)[0],
            "cls": f"{c['flags']}.{c['cfg']}", "noreparse": c["flags"] == "enc"}


# ------------------------------------------------------------------ header blocks
def header_payload(i, s, fam, mt, r, wd):
    """-> (configuration value, supplied bytes) of header segment s for the family."""
    name, size = s["name"], s["size"]
    if name in VERSION_SEGS:
        v = r.randrange(1, 0xFFFF)
        return v, c14.version_bytes(name, v)
    if name in ("fcb", "fcb_xspi"):
        m = G["mats"].fcb(fam, "latest", mt, size)[0]
        return m["bin"], open(m["bin"], "rb").read()
    if name == "xmcd":
        menu = G["xmcd"][fam]
        m = menu[r.randrange(len(menu))]
        return m["bin"], open(m["bin"], "rb").read()
    d = c14.raw_payload(size, fam, name, "bimgrom")
    p = os.path.join(wd, f"{name}.bin")
    with open(p, "wb") as f:
        f.write(d)
    return p, d


# ------------------------------------------------------------------ one case on the real code
def run_one(job):
    cid, case, route = job
    from spsdk.exceptions import SPSDKError
    from spsdk.image.bootable_image.bimg import BootableImage
    from spsdk.image.bootable_image.segments import BootableImageSegment, get_segment_class
    from spsdk.image.mem_type import MemoryType

    view = G["view"]
    dev = view["devs"][case["dev"] - 1]
    cls = view["classes"][dev["cls"] - 1]
    fam, mt, kind = dev["fam"], dev["mt"], cls["kind"]
    r = rng(LANE, "bimgrom", cid)
    wd = os.path.join(scratch(), "bimgrom", cid)
    os.makedirs(wd, exist_ok=True)
    k = {"present": case["present"], "plen": list(case["plen"]), "req": case["req"], "xip": case["xip"], "reread": False, "base": case["base"], "load": lim(RAM)}
    tr = {"id": cid, "dev": case["dev"], "k": k, "rom": DUMMY, "pay": 0, "exp": DUMMY, "inp": DUMMY, "ev": [],
          "info": {"family": fam, "mem_type": mt, "kind": kind, "route": route, "req": case["req"], "xip": case["xip"], "cls": dev["cls"]}}
    ev = tr["ev"]
    # ---- the application container, built standalone by the builder of its check
    try:
        if kind == "mbi":
            cont = make_mbi(cid, fam, cls, k, r, wd)
        elif kind == "ahab":
            cont = make_ahab(cid, fam, cls, k, r, wd)
        else:
            cont = make_hab(cid, fam, mt, cls, k, r, wd, route)
    except Skip as x:
        tr["skip"] = str(x)
        return tr
    except Machinery:
        raise
    except Exception as x:  # noqa: BLE001 - the standalone container could not be built: subject of C02 / C06 / C07, not of this lane
        tr["skip"] = f"container builder: {type(x).__name__}: {str(x)[:160]}"
        return tr
    tr.update(cont["hdr"])
    tr["info"]["container"] = cont["cls"]
    if route == "yaml" and not cont.get("yaml"):
        route = tr["info"]["route"] = "bin"
    if route == "reparse" and cont.get("noreparse"):
        route = tr["info"]["route"] = "bin"
    k["reread"] = route == "reparse"
    # ---- the bootable-image configuration
    cpath = os.path.join(wd, "container.bin")
    with open(cpath, "wb") as f:
        f.write(cont["bin"])
    cfg = {"family": fam, "revision": cont.get("revision", "latest"), "memory_type": mt, "init_offset": case["req"]}
    cfg[get_segment_class(BootableImageSegment.from_label(cls["cname"])).cfg_key()] = cont["yaml"] if route == "yaml" else cpath
    supplied = {}
    for i, s in enumerate(cls["segs"]):
        if case["present"][i]:
            val, data = header_payload(i, s, fam, mt, r, wd)
            cfg[get_segment_class(BootableImageSegment.from_label(s["name"])).cfg_key()] = val
            supplied[i] = data
            k["plen"][i] = len(data)
    # ---- merge (the real code)
    image, eff = None, case["eff"]
    try:
        if route == "cli":
            import yaml
            from click.testing import CliRunner

            from spsdk.apps import nxpimage

            ypath, out = os.path.join(wd, "bimg.yaml"), os.path.join(wd, "bimg.bin")
            with open(ypath, "w") as f:
                yaml.safe_dump(cfg, f)
            cr = CliRunner().invoke(nxpimage.main, ["bootable-image", "merge", "-c", ypath, "-o", out])
            if cr.exit_code != 0 or not os.path.exists(out):
                ev.append({"ev": "Merge", "refused": True, "eff": 0, "total": 0, "why": f"exit {cr.exit_code}: {(cr.output or '').strip()[-200:]} {cr.exception!r}"[:300]})
                return tr
            image = open(out, "rb").read()          # (the tool does not say where the image starts: the user programs it at the documented start)
        else:
            bimg = BootableImage.load_from_config(cfg, search_paths=[wd])
            image = bimg.export()
            eff = bimg.init_offset
            if route == "reparse":                  # the image read back by the tool and written out again is the image that is programmed
                back = BootableImage.parse(image, family=fam, mem_type=MemoryType.from_label(mt), revision=cfg["revision"])
                image = back.export()
                eff = back.init_offset
    except SPSDKError as x:
        ev.append({"ev": "Merge", "refused": True, "eff": 0, "total": 0, "why": f"{type(x).__name__}: {str(x)[:200]}"})
        return tr
    except Exception as x:  # noqa: BLE001 - a crash is an observation: no action of the model matches it
        ev.append({"ev": "Crash", "of": "Merge", "exc": type(x).__name__, "why": str(x)[:200]})
        return tr
    if not isinstance(eff, int) or not 0 <= eff < 1 << 30:
        eff = -1
    ev.append({"ev": "Merge", "refused": False, "eff": eff, "total": len(image), "why": ""})
    if eff < 0:
        return tr
    # ---- the device reads
    ev += read_headers(image, cls, eff, supplied)
    at = cls["imgOff"] - eff
    ev.append({"ev": "Locate", "devOff": cls["imgOff"], "at": at, "fileLen": len(image), "addr": lim((word(k["base"]) + cls["imgOff"]) & 0xFFFFFFFF)})
    if not 0 <= at < len(image):
        return tr
    found = image[at:]
    walk = cont["walk"](found)
    ev += walk
    tr["info"]["sameAsStandalone"] = found == cont["bin"]
    if walk and walk[-1].get("ev") == "Accept":
        ev.append(boot_event(kind, found, sum(1 for e in walk if e.get("ev") == "ImageEntry")))
    return tr


def strip(t):
    return {x: t[x] for x in ("id", "dev", "k", "rom", "pay", "exp", "inp", "ev")}


# ------------------------------------------------------------------ the design model and the case space
VARIANTS = ("filerel", "late", "nosnap", "ramzero")
ACTIONS = ["HostBuild", "HostMerge", "RMerge", "RHdr", "RLocate", "RCont", "RBoot"]


def model_check():
    env = {"ROM_FILE": bimgrom_anchor.PATH}
    jobs = [("mc", (LANE, "BimgRomMC", "BimgRomMC_ok.cfg"), {"require_actions": ACTIONS, "env": env, "workers": 2, "timeout": 300})]
    jobs += [("run", (LANE, "BimgRomMC", f"BimgRomMC_{v}.cfg"), {"env": env, "workers": 2, "timeout": 300}) for v in VARIANTS]
    jobs += [("run", (LANE, "BimgRomMC", "BimgRomGen.cfg"), {"env": env, "workers": 1, "timeout": 300})]
    res = prun(jobs)
    out = {"BimgRomMC_ok.cfg": {"violated": False, "distinct": res[0].distinct, "generated": res[0].generated,
                                "actions": {a: res[0].coverage[a][1] for a in ACTIONS}}}
    for v, g in zip(VARIANTS, res[1:5]):
        out[f"BimgRomMC_{v}.cfg"] = {"violated": g.violated == "NeverRejected", "distinct": g.distinct}
        if g.violated != "NeverRejected":
            raise Machinery(f"design variant '{v}' was not refuted by TLC (violated: {g.violated})\n{g.out[-600:]}")
    gen = res[5]
    if gen.violated or not gen.no_error:
        raise Machinery(f"BimgRomGen: {gen.violated}\n{gen.out[-800:]}")
    cases = gen.json_prints()
    if len(cases) * 2 != gen.distinct or len(cases) < 1000:
        raise Machinery(f"GEN emitted {len(cases)} cases for {gen.distinct} states")
    out["BimgRomGen.cfg"] = {"violated": False, "distinct": gen.distinct, "cases": len(cases)}
    return out, cases


def pick(cases, view, tier):
    """Quick tier: a stratified sample (class x mapped x start class x supplied class, families rotating); thorough: a bigger one."""
    r = rng(LANE, "bimgrom-pick")
    strata = {}
    for c in cases:
        cls = view["classes"][c["cls"] - 1]
        start = "full" if c["eff"] == 0 and c["req"] == 0 else "snap" if c["req"] != c["eff"] else "cont" if c["eff"] == cls["imgOff"] else "later"
        sup = "none" if not any(c["present"]) else "all" if all(c["present"]) else "some"
        strata.setdefault((c["cls"], c["xip"], start, sup), []).append(c)
    per = 2 if tier == "quick" else 14
    out = []
    for key in sorted(strata):
        group = strata[key]
        r.shuffle(group)
        out += group[:per]
    r.shuffle(out)
    return out


# ------------------------------------------------------------------ canary: a golden image of NXP's tool chain on a hand-made device image
def canary_traces(view):
    """Known-good trace that no code of the tree under test produced: the golden XIP image of the RT1050 (IAR example, signed by CST) is laid
    out BY HAND at the offset of the ROM view behind a hand-made FCB; the trace is what the dumb reader + the C07 executor see in it."""
    a = os.path.join(ANCHORS, "canary_hab")
    m = json.load(open(os.path.join(a, "meta.json")))
    o, sec = m["options"], m["sections"]
    rd = lambda f: open(os.path.join(a, f), "rb").read() if os.path.exists(os.path.join(a, f)) else None  # noqa: E731
    d, app, table = rd("output.bin"), rd("app.bin"), rd("srk_table.bin")
    entry = o.get("entrypointaddress") or m.get("exec_start") or struct.unpack_from("<I", app, 4)[0]
    inp = {"start": lim(o["startaddress"]), "ivtOff": o["ivtoffset"], "ils": o["initialloadsize"], "appLen": len(app), "flags": "auth", "cfgKind": "none",
           "cfgLen": 0, "entry": lim(int(entry)), "ver": int(sec["20"]["header_version"].replace(".", ""), 16), "nSrk": len(c07.srk_entries(table)),
           "srcIdx": int(sec["21"]["installsrk_sourceindex"]), "fast": False, "imgTgt": int(sec["25"]["installkey_targetindex"]),
           "vfyIdx": int(sec["26"]["authenticatedata_verificationindex"]), "macLen": 16, "dekLen": 0, "waive": [], "xmcdKind": "none", "cfgVer": 0, "dcdCmds": []}
    ctx = {"inp": inp, "app": app, "cfg_bytes": b"", "start": o["startaddress"], "srk_der": None, "fuse": bytes.fromhex(m["fuse_hex"]) if m.get("fuse_hex") else None,
           "csfk_der": rd("csfk.der"), "imgk_der": rd("imgk.der"), "dek_path": None}
    di = next(i for i, x in enumerate(view["devs"]) if x["fam"] == "mimxrt1050" and x["mt"] == "flexspi_nor")
    cls = view["classes"][view["devs"][di]["cls"] - 1]
    fcb = b"FCFB" + bytes([0, 4, 1, 0x56]) + bytes(range(1, 249)) + bytes(256)

    def variant(name, eff=0, cont_at=None, with_fcb=True, mut=None, base=None):
        cont = bytearray(d)
        if mut:
            mut(cont)
        at = cls["imgOff"] if cont_at is None else cont_at
        image = bytearray(at + len(cont))
        if with_fcb:
            image[0:len(fcb)] = fcb
        image[at:at + len(cont)] = cont
        image = bytes(image[eff:])
        k = {"present": [with_fcb and eff == 0, False, False], "plen": [len(fcb) if with_fcb and eff == 0 else 0, 0, 0], "req": eff, "xip": True, "reread": False,
             "base": base or lim(o["startaddress"]), "load": lim(RAM)}
        ev = [{"ev": "Merge", "refused": False, "eff": eff, "total": len(image), "why": ""}]
        ev += read_headers(image, cls, eff, {0: fcb} if k["present"][0] else {})
        ev.append({"ev": "Locate", "devOff": cls["imgOff"], "at": cls["imgOff"] - eff, "fileLen": len(image), "addr": lim(o["startaddress"] + cls["imgOff"])})
        found = image[cls["imgOff"] - eff:]
        walk = c07.execute(found, ctx)[0]
        ev += walk
        if walk and walk[-1].get("ev") == "Accept":
            ev.append(boot_event("hab", found))
        return {"id": name, "dev": di + 1, "k": k, "rom": DUMMY, "pay": 0, "exp": DUMMY, "inp": inp, "ev": ev}

    def self_moved(c):          # the container names an address 0x400 above where it sits (IVT self pointer)
        struct.pack_into("<I", c, 20, struct.unpack_from("<I", c, 20)[0] + 0x400)

    good = [variant("canary-good"), variant("canary-good-from-container", eff=cls["imgOff"], with_fcb=False)]
    bad = [variant("canary-container-4-late", cont_at=cls["imgOff"] + 4), variant("canary-self-pointer", mut=self_moved),
           variant("canary-base-not-of-device", base=[0x1234, 0])]
    t = variant("canary-fcb-tag")
    next(e for e in t["ev"] if e["ev"] == "Hdr").update(tagOk=False)
    bad.append(t)
    t = variant("canary-eff")
    t["ev"][0]["eff"] = 0x400
    bad.append(t)
    t = variant("canary-entry-outside")
    t["ev"][-1]["entry"] = lim(o["startaddress"] + 0x8000000)
    bad.append(t)
    t = variant("canary-gap-not-erased")
    next(e for e in t["ev"] if e["ev"] == "Hdr" and e["i"] == 2).update(blank=False)
    bad.append(t)
    return good, bad


# ------------------------------------------------------------------ naming of what the model rejects (names only - TLC has decided)
def obs_key(t, matched):
    i = t["info"]
    e = t["ev"][min(matched, len(t["ev"]) - 1)]
    view = G["view"]
    cls = view["classes"][i["cls"] - 1]
    eff = next((x["eff"] for x in t["ev"] if x["ev"] == "Merge"), 0)
    start = "full" if eff == 0 else "container" if eff == cls["imgOff"] else "later"
    name = e["ev"]
    if name == "Merge":
        req_eff = min([o for o in sorted({s["off"] for s in cls["segs"]} | {cls["imgOff"]}) if o >= i["req"]] or [0]) if i["req"] else 0
        at = next((s["name"] for s in cls["segs"] if s["off"] == req_eff), cls["cname"] if req_eff == cls["imgOff"] else "?") if req_eff else "full"
        start = at
        why = ("cannot-read-back-own-image" if i["route"] == "reparse" else "refused") if e["refused"] else "start-not-at-table-offset"
    elif name == "Crash":
        why = e["exc"]
    elif name == "Hdr":
        s = cls["segs"][e["i"] - 1]["name"]
        sup = t["k"]["present"][e["i"] - 1]
        why = s + ":" + ("+".join(x for x in ("same", "tagOk", "restBlank") if not e[x]) or "position" if sup else "not-blank")
    elif name == "Locate":
        why = "position"
    elif name == "Boot":
        why = "address"
    else:
        bad = sorted(x for x, v in e.items() if v is False and x not in ("ca", "enc", "arr", "rd"))
        why = "+".join(bad)[:60] or "structure"
    return f"{i['kind']}/{'xip' if i['xip'] else 'copied'}/{i['route']}/start={start}/{name}/{why}"


def run(tier):
    t0 = time.time()
    import_spsdk()
    view = bimgrom_anchor.load()
    mc, cases = model_check()
    say(f"[SYS/bimgrom] design model: documented design holds ({mc['BimgRomMC_ok.cfg']['distinct']} states, every action fired), "
        f"wrong designs refuted: {', '.join(VARIANTS)}; GEN: {len(cases)} cases over {len(view['devs'])} devices / {len(view['classes'])} classes ({time.time() - t0:.0f}s)")
    # ---- canary
    c07.preload()
    good, bad = canary_traces(view)
    env = {"ROM_FILE": bimgrom_anchor.PATH}
    crej, _ = tlc.tv(LANE, "BimgRomTrace", good + bad, env=env, libs=LIBS)
    if set(crej) != {t["id"] for t in bad}:
        raise Machinery(f"bootable-image || ROM canary failed: rejected {sorted(crej.items())}, expected exactly {sorted(t['id'] for t in bad)}")
    # ---- what the workers share
    hab_keys.ensure()
    c07.db_lays()
    G["view"] = view
    G["comps"] = c02.compositions()
    G["fams06"] = c06.families()
    G["hab_cases"] = c07.gen_cases("quick")[0]
    G["mats"] = c14.Materials()
    chosen = pick(cases, view, tier)
    jobs = [(f"b{n}", c, ROUTES[n % len(ROUTES)]) for n, c in enumerate(chosen)]
    need = sorted({(view["devs"][c["dev"] - 1]["fam"], view["devs"][c["dev"] - 1]["mt"]) for c in chosen
                   if any(s["name"] == "xmcd" and p for s, p in zip(view["classes"][c["cls"] - 1]["segs"], c["present"]))})
    G["xmcd"] = dict(pmap(lambda f: (f, G["mats"].xmcd(f)), sorted({f for f, _ in need}), chunksize=1))      # XMCD blocks are slow to build: once per family
    say(f"[SYS/bimgrom] prepared at {time.time() - t0:.0f}s; executing {len(jobs)} cases")
    traces = pmap(run_one, jobs, chunksize=2)
    done = [t for t in traces if "skip" not in t]
    skipped = {}
    for t in traces:
        if "skip" in t:
            skipped.setdefault(t["skip"][:60], []).append(t["id"])
    if len(done) < len(traces) // 2:
        raise Machinery(f"only {len(done)} of {len(traces)} cases could be executed: {json.dumps({k: len(v) for k, v in skipped.items()})[:600]}")
    say(f"[SYS/bimgrom] executed at {time.time() - t0:.0f}s")
    rej, res = tlc.tv(LANE, "BimgRomTrace", [strip(t) for t in done], env=env, libs=LIBS, heap="6g", timeout=1500)
    by = {t["id"]: t for t in done}
    classes = {}
    for tid, (matched, length, evname) in rej.items():
        t = by[tid]
        classes.setdefault(obs_key(t, matched), []).append({"id": tid, "info": t["info"], "event": t["ev"][min(matched, len(t["ev"]) - 1)]})
    accepted = [t for t in done if t["id"] not in rej]
    stats = {"by_kind": {}, "by_route": {}, "found_differs_from_standalone": sum(1 for t in accepted if t["info"].get("sameAsStandalone") is False)}
    for t in accepted:
        stats["by_kind"][t["info"]["kind"]] = stats["by_kind"].get(t["info"]["kind"], 0) + 1
        stats["by_route"][t["info"]["route"]] = stats["by_route"].get(t["info"]["route"], 0) + 1
    out = {"design_model": mc, "gen_cases": len(cases), "executions": len(done), "skipped": {k: len(v) for k, v in sorted(skipped.items())},
           "accepted": len(accepted), "accepted_stats": stats, "rejected": len(rej), "tv_states": res.distinct if res else 0,
           "canary": {"accepted": [t["id"] for t in good], "rejected": sorted(crej)},
           "classes": {k: {"count": len(v), "example": v[0]} for k, v in sorted(classes.items())}}
    os.makedirs(os.path.join(ROOT, "evidence", "extras"), exist_ok=True)
    for name in ("sys_bimgrom.json", "bimgrom.json"):
        with open(os.path.join(ROOT, "evidence", "extras", name), "w") as f:
            json.dump(out, f, indent=1, default=str)
    for k, v in sorted(classes.items()):
        say(f"OBSERVATION: sys_bimgrom {k} ({len(v)}x, e.g. {json.dumps(v[0], default=str)[:260]})")
    say(f"[SYS/bimgrom] tier={tier} executions={len(done)} (skipped {len(traces) - len(done)}) accepted={len(accepted)} {json.dumps(stats['by_kind'])} "
        f"{json.dumps(stats['by_route'])} rejected={len(rej)} classes={len(classes)} wall={time.time() - t0:.0f}s (observations only - not a listed property)")
    return 0


def replay(path):
    return run("quick")
