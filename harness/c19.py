"""C19 - BD command files mean what they say.

spec/C19/BdLang.tla  : expression evaluator (Eval/Dom) and the statement -> command table (Expected)
spec/C19/BdProg.tla  : the program as a state machine over definitions and sections
 GEN : TLC enumerates expression ASTs (BdExprGen, with lemmas) and programs (BdProgGen, exhaustive for single statements,
       -simulate for multi-construct programs)
 replay: a renderer prints each AST / program as BD text with MINIMAL parentheses according to the documented (C) operator
       precedence, the real BDParser + BootImageV21.load_from_config process it, the result is projected to command records
 TV  : TLC (BdTrace) re-executes the program on the state machine and compares every logged command / option / section id.
spec/C19/BdSession.tla : histories of parse calls on ONE parser object (sequence of command files, NextFile resets every table; the sources are part of the state)
 GEN : BdSessGen - exhaustive pairs of files over a menu of COLLIDING definitions (same name / id, other meaning; defined only earlier; only later) + simulated
       longer sessions;  replay: one BDParser object parses (and the command builder builds) the files one after another, every file observed like a
       single program plus the names of the tables its configuration shows;  TV: BdTrace (events NextFile, DefSource; End carries onames / snames / kbids).
"""
import json
import os

from lib import tlc
from lib.common import ROOT, Machinery, import_spsdk, rng, say, scratch
from lib.par import pmap
from lib.verdict import Verdict

PROP = "C19"
KEYS = os.path.join(ROOT, "keys", "sb21")

# documented (C-like) precedence, higher binds tighter; binary operators are left-associative
PREC = {"*": 10, "/": 10, "%": 10, "+": 9, "-": 9, "<<": 8, ">>": 8, "<": 7, "<=": 7, ">": 7, ">=": 7, "==": 6, "!=": 6,
        "&": 5, "^": 4, "|": 3, "&&": 2, "||": 1}
UNARY = 11


def show(e, parent=0, side=None, r=None):
    k = e["k"]
    if k == "lit":
        v = e["v"]
        if r is not None:
            form = r.randrange(4)
            if form == 1:
                return hex(v)
            if form == 2 and v and v % 1024 == 0:
                return f"{v // 1024}K"
        return str(v)
    if k == "size":
        return f"{e['v']:#x}.{e['sz']}"
    if k == "ref":
        return e["n"]
    if k == "def":
        return f"defined({e['n']})"
    if k in ("neg", "pos", "not"):
        op = {"neg": "-", "pos": "+", "not": "!"}[k]
        inner = show(e["e"], UNARY, "r", r)
        if e["e"]["k"] in ("neg", "pos", "not"):
            inner = "(" + inner + ")"  # "--1" would lex differently; parenthesise nested unary operators
        s = f"{op}{inner}"
        # unary operators bind tightest in the documented precedence: no parentheses needed around them
        return s
    p = PREC[e["op"]]
    s = f"{show(e['l'], p, 'l', r)} {e['op']} {show(e['r'], p, 'r', r)}"
    if p < parent or (p == parent and side == "r"):
        s = "(" + s + ")"
    return s


def render(hist, files, r):
    """Program (list of construct events) -> BD text. Returns (text, extern list)."""
    out, extern, src = [], [], {}
    # sources are definitions and must precede the sections
    for ev in hist:
        if ev["ev"] == "Stmt" and ev["st"]["s"] == "load_file" and ev["st"]["via"] in ("source", "extern") and "src" not in ev["st"]:
            st = ev["st"]
            name = f"src{len(src)}"
            path = files(st["data"])
            if st["via"] == "extern":
                extern.append(path)
                src[id(st)] = (name, f"extern({len(extern) - 1})")
            else:
                src[id(st)] = (name, f'"{path}"')
    block = None
    if not any(ev["ev"] in ("DefOption", "DefOptionStr") for ev in hist):
        out.append("options {\n  flags = 0x8;\n}\n")  # a command file always has its options block here (see assumptions)
    one_line = r.random() < 0.5
    sep = " " if one_line else "\n  "

    def close():
        nonlocal block
        if block is not None:
            out.append("\n}\n")
            block = None

    def open_(kind, head):
        nonlocal block
        if block != kind:
            close()
            out.append(head + " {")
            block = kind

    sources_emitted = False
    nsec = 0
    for ev in hist:
        kind = ev["ev"]
        if kind in ("DefOption", "DefOptionStr"):
            if block == "options" and r.random() < 0.3:
                close()  # several options blocks
            open_("options", "options")
            val = show(ev["e"], r=r) if kind == "DefOption" else f'"{ev["v"]}"'
            out.append(f"{sep}{ev['n']} = {val};")
        elif kind == "DefConst":
            open_("constants", "constants")
            out.append(f"{sep}{ev['n']} = {show(ev['e'], r=r)};")
        elif kind == "DefSource":
            # an explicit definition (sessions): the name stands for the file holding ev["d"], given as a path or as the k-th file of the command line
            open_("sources", "sources")
            path = files(ev["d"])
            if ev["form"] == "extern":
                extern.append(path)
                out.append(f"{sep}{ev['n']} = extern({len(extern) - 1});")
            else:
                out.append(f'{sep}{ev["n"]} = "{path}";')
        elif kind == "DefKeyblob":
            close()
            num = (lambda v: hex(v) if r.random() < 0.7 else str(v))
            out.append(f"keyblob ({ev['id']}) {{\n    (\n        start = {num(ev['lo'])},\n        end = {num(ev['hi'])},\n"
                       f"        key = \"{ev['key']}\",\n        counter = \"{ev['ctr']}\"\n    )\n}}\n")
        elif kind == "BeginSection":
            if src and not sources_emitted:
                open_("sources", "sources")
                for name, val in src.values():
                    out.append(f"{sep}{name} = {val};")
                sources_emitted = True
            nsec += 1
            open_(f"section{nsec}", f"section ({ev['id']})")
        elif kind == "Stmt":
            out.append("\n  " + stmt_text(ev["st"], files, src, r))
        elif kind == "Refuse":
            out.append("\n  " + unsupported_text(ev["kind"], r))
    close()
    return "".join(out), extern


UNSUPPORTED = {
    "if": "if 1 { erase all; }",
    "if_else": "if 0 { erase all; } else { reset; }",
    "from": "from nosuch { erase all; }",
    "mode": "mode 1;",
    "info": 'info "hello";',
    "warning": 'warning "hello";',
    "error": 'error "hello";',
    "sizeof": "erase 0x1000..0x1000 + sizeof(ca);",
    "section_list": "load $.text > 0x1000;",
    "load_dot": "load {{01 02 03 04}} > .;",
    "symbol_ref": "jump nosuch?:main;",
    "source_attr": "load 0x55.b > ;",
}


def unsupported_text(kind, r):
    """Text of a construct the R-spec lists as unsupported; the families (pattern_mem_<id>) are rendered with a seeded spelling."""
    if kind.startswith("pattern_mem_"):
        m = int(kind.rsplit("_", 1)[1])
        opt = r.choice([f"@{m} ", f"@({m - 1} + 1) ", f"@{m:#x} "] + ([MEM_NAMES[m] + " "] * 3 if m in MEM_NAMES else []))
        pat = r.choice(["0x55.b", "0x1122.h", "0x12345678", "0xFFFFFFFF", "305419896", "0xA5", "0x12345678.w"])
        to = r.choice(["0x8000000", "0x8000000..0x8000100", "0x1000..0x2000", "4096"])
        return f"load {opt}{pat} > {to};"
    return UNSUPPORTED[kind]


# documented keywords of the memory option (elftosb / blhost user's guides) and the memory ids they stand for
MEM_NAMES = {0: "internal", 1: "qspi", 8: "semcnor", 9: "flexspinor", 256: "semcnand", 257: "spinand", 272: "spieeprom", 273: "i2ceeprom", 288: "sdcard", 289: "mmccard"}


def mem(m, r=None):
    """Memory option of a statement: nothing for the internal memory, `@<id>` or the documented keyword otherwise (seeded choice)."""
    if r is not None and m in MEM_NAMES and r.random() < (0.5 if m else 0.15):
        return MEM_NAMES[m] + " "
    return f"@{m} " if m else ""


def addr_first(e, r):
    """An operand that directly follows a keyword which accepts an identifier as memory option must not start with an identifier."""
    s = show(e, r=r)
    if s[:1].isalpha() or s[:1] == "_":
        return "(" + s + ")"
    return s


def stmt_text(st, files, src, r):
    s = st["s"]
    if s == "load_blob":
        blob = " ".join(f"{b:02x}" for b in st["blob"])
        return f"load {mem(st['mem'], r)}{{{{{blob}}}}} > {show(st['addr'], r=r)};"
    if s == "load_file":
        if st["via"] == "literal":
            return f'load {mem(st["mem"], r)}"{files(st["data"])}" > {show(st["addr"], r=r)};'
        name = st["src"] if "src" in st else src[id(st)][0]
        return f"load {mem(st['mem'], r)}{name} > {show(st['addr'], r=r)};"
    if s in ("prog_pat", "prog_blob"):
        opt = r.choice(["ifr ", "fuse ", "@4 ", "@(2 + 2) "])
        if s == "prog_pat":
            data = r.choice([f"{st['pat']:#x}", f"{st['pat']:#X}".replace("0X", "0x"), str(st["pat"]), f"{st['pat']:#010x}"])
        else:
            data = "{{" + " ".join(f"{b:02x}" for b in st["blob"]) + "}}"
        return f"load {opt}{data} > {show(st['addr'], r=r)};"
    if s == "fill":
        return f"load {st['pat']:#x}.{st['sz']} > {show(st['addr'], r=r)};"
    if s == "fill_range":
        return f"load {st['pat']:#x}.{st['sz']} > {show(st['lo'], r=r)}..{show(st['hi'], r=r)};"
    if s == "erase_range":
        lo = show(st["lo"], r=r)
        if not st["mem"] and (lo[:1].isalpha() or lo[:1] == "_"):
            lo = "(" + lo + ")"  # an identifier right after `erase` is read as a memory option by the documented grammar
        return f"erase {mem(st['mem'], r)}{lo}..{show(st['hi'], r=r)};"
    if s == "erase_addr":
        a = show(st["addr"], r=r)
        if not st["mem"] and (a[:1].isalpha() or a[:1] == "_"):
            a = "(" + a + ")"
        return f"erase {mem(st['mem'], r)}{a};"
    if s == "erase_all":
        return f"erase {mem(st['mem'], r)}all;"
    if s == "erase_unsecure_all":
        return "erase unsecure all;"
    if s == "enable":
        return f"enable {mem(st['mem'], r)}{show(st['addr'], r=r)};"
    if s in ("call", "jump"):
        arg = {"none": "", "empty": " ()", "expr": f" ({show(st['arg'], r=r)})"}[st["argform"]]
        return f"{s} {show(st['addr'], r=r)}{arg};"
    if s == "jump_sp":
        arg = {"none": "", "empty": " ()", "expr": f" ({show(st['arg'], r=r)})"}[st["argform"]]
        sp = show(st["sp"], 99, r=r)
        ad = show(st["addr"], 99, r=r)
        if ad[:1] in "+-(":
            ad = "(" + ad + ")"
        return f"jump_sp {sp} {ad}{arg};"
    if s == "reset":
        return "reset;"
    if s == "version_check":
        return f"version_check {'nsec' if st['nsec'] else 'sec'} {show(st['ver'], r=r)};"
    if s == "encrypt":
        return f'encrypt ({st["kb"]}) {{\n    load "{files(st["data"])}" > {show(st["addr"], r=r)};\n  }}'
    if s == "keywrap":
        return f'keywrap ({st["kb"]}) {{\n    load {{{{{st["kek"]}}}}} > {show(st["addr"], r=r)};\n  }}'
    if s in ("keystore_to_nv", "keystore_from_nv"):
        return f"{s} {mem(st['mem'])}{show(st['addr'], r=r)};"      # numeric memory option only (the documented form of the key-store statements)
    raise Machinery(f"no renderer for {s}")


# ------------------------------------------------------------------ running the real code
def project(cmd):
    """Real command object -> command record of the spec (public attributes only)."""
    from spsdk.sbfile.sb2 import commands as C

    rec = {"t": "?", "a": 0, "n": 0, "f": 0, "m": 0, "x": 0, "s": -1, "d": []}
    if isinstance(cmd, C.CmdLoad):
        rec.update(t="load", a=cmd.address, n=len(cmd.data), m=cmd.mem_id, d=list(cmd.data))
    elif isinstance(cmd, C.CmdFill):
        rec.update(t="fill", a=cmd.address, n=cmd.header.count, d=list(cmd.pattern))
    elif isinstance(cmd, C.CmdProg):
        words = [cmd.data_word1] + ([cmd.data_word2] if cmd.is_eight_byte else [])
        rec.update(t="prog", a=cmd.address, n=4 * len(words), m=cmd.mem_id, d=[(w >> (8 * i)) & 0xFF for w in words for i in range(4)])
    elif isinstance(cmd, C.CmdErase):
        rec.update(t="erase", a=cmd.address, n=cmd.length, f=cmd.flags & 0x3, m=cmd.mem_id)
    elif isinstance(cmd, C.CmdMemEnable):
        rec.update(t="enable", a=cmd.address, n=cmd.size, m=cmd.mem_id)
    elif isinstance(cmd, C.CmdJump):
        rec.update(t="jump", a=cmd.address, x=cmd.argument, s=-1 if cmd.spreg is None else cmd.spreg)
    elif isinstance(cmd, C.CmdCall):
        rec.update(t="call", a=cmd.address, x=cmd.argument)
    elif isinstance(cmd, C.CmdReset):
        rec.update(t="reset")
    elif isinstance(cmd, C.CmdVersionCheck):
        rec.update(t="version_check", x=cmd.version, s=cmd.type.tag)
    elif isinstance(cmd, C.CmdKeyStoreRestore):
        rec.update(t="keystore_to_nv", a=cmd.address, m=cmd.controller_id)
    elif isinstance(cmd, C.CmdKeyStoreBackup):
        rec.update(t="keystore_from_nv", a=cmd.address, m=cmd.controller_id)
    else:
        rec["t"] = type(cmd).__name__
    for k in ("a", "n", "f", "m", "x", "s"):
        if not isinstance(rec[k], int) or isinstance(rec[k], bool) or not (-(2**31) < rec[k] < 2**31):
            rec[k] = -999999  # outside the spec's integer range: can never match an expected record
    return rec


class Runner:
    def __init__(self):
        from spsdk.exceptions import SPSDKError
        from spsdk.sbfile.sb2.images import BootImageV21
        from spsdk.sbfile.sb2.sly_bd_parser import BDParser

        self.SPSDKError = SPSDKError
        self.BootImageV21 = BootImageV21
        self.BDParser = BDParser
        self.dir = os.path.join(scratch(), "c19")
        os.makedirs(self.dir, exist_ok=True)
        self._files = {}

    def files(self, data):
        key = bytes(data)
        if key not in self._files:
            path = os.path.join(self.dir, f"data{len(self._files)}.bin")
            with open(path, "wb") as f:
                f.write(key)
            self._files[key] = path
        return self._files[key]

    def run(self, text, extern, parser=None):
        """-> ("ok", options, [(section uid, [command records])], image, configuration) | ("spsdk-error", msg) | ("exc:<Type>", msg)
        parser: the BDParser object to use (sessions: ONE object for several command files); a fresh one otherwise."""
        return self.build(self.parse(text, extern, parser))

    def parse(self, text, extern, parser=None):
        """-> ("conf", configuration) | ("spsdk-error", msg) | ("exc:<Type>", msg)"""
        try:
            conf = (parser or self.BDParser()).parse(text=text, extern=extern)
            if conf is None:
                return ("spsdk-error", "parser returned None")
            return ("conf", conf)
        except self.SPSDKError as e:
            return ("spsdk-error", str(e)[:300])
        except Exception as e:  # noqa: BLE001
            return (f"exc:{type(e).__name__}", str(e)[:300])

    def build(self, parsed):
        if parsed[0] != "conf":
            return parsed
        conf = parsed[1]
        try:
            sb = self._load(conf)
            secs = [(sec.uid, [project(c) for c in sec]) for sec in sb]
            return ("ok", conf.get("options", {}), secs, sb, conf)
        except self.SPSDKError as e:
            return ("spsdk-error", str(e)[:300])
        except Exception as e:  # noqa: BLE001
            return (f"exc:{type(e).__name__}", str(e)[:300])

    def _load(self, conf):
        conf = dict(conf)
        conf.setdefault("signPrivateKey", os.path.join(KEYS, "k0_cert0_2048.pem"))
        return self.BootImageV21.load_from_config(
            config=conf,
            key_file_path=os.path.join(KEYS, "SBkek_PUF.txt"),
            signing_certificate_file_paths=[os.path.join(KEYS, "root_k0_signed_cert0_noca.der.cert")],
            root_key_certificate_paths=[os.path.join(KEYS, f"root_k{i}_signed_cert0_noca.der.cert") for i in range(4)],
            rkth_out_path=os.path.join(self.dir, "hash.bin"),
            search_paths=[self.dir],
        )


def observe_expr(runner, e, r):
    text = "options {\n  vx = %s;\n}\nsection (0) {\n  reset;\n}\n" % show(e, r=r)
    try:
        conf = runner.BDParser().parse(text=text)
        got = None if conf is None else conf["options"].get("vx")
        if isinstance(got, bool):
            got = int(got)
        if isinstance(got, int) and -(2**31) < got < 2**31:
            return text, {"k": "int", "v": got}
        return text, {"k": "other", "v": repr(got)[:80]}
    except runner.SPSDKError as x:
        return text, {"k": "spsdk-error", "v": str(x)[:120]}
    except Exception as x:  # noqa: BLE001
        return text, {"k": "exc", "v": type(x).__name__}


def errrec(what):
    return {"t": what, "a": 0, "n": 0, "f": 0, "m": 0, "x": 0, "s": -1, "d": []}


def observe_prog(runner, hist, r, tid, pre=None, parser=None, sess=False):
    """pre: (text, extern, result) when the program has been rendered / processed already; parser: the parser object to use (sessions);
    sess: the End event also carries the names of the tables the configuration shows"""
    if pre is not None:
        text, extern, res = pre
    else:
        text, extern = render(hist, runner.files, r)
        res = runner.run(text, extern, parser)
    evs = []
    stmts = [ev for ev in hist if ev["ev"] in ("Stmt", "Refuse")]
    per_stmt = None
    if res[0] == "ok":
        flat = [c for _, cmds in res[2] for c in cmds]
        per_stmt = flat if len(flat) == len(stmts) else None
    else:
        # the whole program was refused: attribute the refusal by running every statement on its own (with all definitions)
        per_stmt = []
        defs = [ev for ev in hist if ev["ev"] in ("DefOption", "DefOptionStr", "DefConst", "DefKeyblob", "DefSource")]
        for st in stmts:
            t1, x1 = render(defs + [{"ev": "BeginSection", "id": 0}, st], runner.files, r)
            r1 = runner.run(t1, x1)
            if r1[0] == "ok":
                flat = [c for _, cmds in r1[2] for c in cmds]
                per_stmt.append(flat[0] if len(flat) == 1 else errrec(f"{len(flat)} commands"))
            else:
                per_stmt.append(errrec(r1[0]))
    k = 0
    kbdefs = [e for e in hist if e["ev"] == "DefKeyblob"]
    for ev in hist:
        ev = dict(ev)
        if ev["ev"] in ("Stmt", "Refuse"):
            if per_stmt is None:
                ev["obs"] = errrec("command-count-mismatch")
            else:
                ev["obs"] = per_stmt[k]
                if ev["ev"] == "Stmt" and ev["st"]["s"] in ("encrypt", "keywrap") and ev["obs"]["t"] == "load" and ev["st"].get("act", True):
                    ev["obs"] = owner_of(ev["st"], ev["obs"], kbdefs)
            k += 1
        evs.append(ev)
    refused = any(ev["ev"] == "Refuse" for ev in hist)
    if refused:
        evs.append({"ev": "EndRefused"})
    elif res[0] == "ok":
        opts = res[1]
        names_i = [ev["n"] for ev in hist if ev["ev"] == "DefOption"]
        names_s = [ev["n"] for ev in hist if ev["ev"] == "DefOptionStr"]

        def last_unique(names):
            seen, out = set(), []
            for n in reversed(names):
                if n not in seen:
                    seen.add(n)
                    out.append(n)
            return list(reversed(out))

        # definition order with "a later definition wins": the spec keeps the position of the LAST definition
        iopts = [[n, int(opts[n]) if isinstance(opts.get(n), (int, bool)) else -999999] for n in last_unique(names_i)]
        sopts = [[n, opts[n] if isinstance(opts.get(n), str) else "<missing>"] for n in last_unique(names_s)]
        evs.append({"ev": "End", "iopts": iopts, "sopts": sopts, "ids": [u for u, _ in res[2]], "counts": [len(c) for _, c in res[2]]})
        if sess:
            conf = res[4]
            srcs = conf.get("sources", {})
            kbl = conf.get("keyblobs", [])
            evs[-1].update(onames=sorted(str(n) for n in opts), snames=sorted(str(n) for n in srcs) if isinstance(srcs, dict) else ["<not a table>"],
                           kbids=[kb.get("keyblob_id") if isinstance(kb, dict) and isinstance(kb.get("keyblob_id"), int) and -(2**31) < kb.get("keyblob_id") < 2**31
                                  else -999999 for kb in kbl] if isinstance(kbl, list) else [-999999])
    else:
        evs.append({"ev": "End", "iopts": [], "sopts": [], "ids": [], "counts": [], "failed": res[0]})
        if sess:
            evs[-1].update(onames=[], snames=[], kbids=[])
    return {"id": tid, "ev": evs, "text": text, "result": res[0]}


def split_files(hist):
    """Session history -> the histories of its command files (separated by NextFile events)."""
    files = [[]]
    for ev in hist:
        if ev["ev"] == "NextFile":
            files.append([])
        else:
            files[-1].append(ev)
    return files


def observe_session(runner, hist, r, tid, mode):
    """A session: ONE BDParser object gets the command files of the history one after another.
    mode "interleaved": parse file 1, build its commands, parse file 2, build ... (a batch build);
    mode "deferred":    parse all files first, then build the commands of every returned configuration (results are kept and used later)."""
    files = split_files(hist)
    parser = runner.BDParser()
    obs = []
    if mode == "deferred":
        parsed = []
        for fh in files:
            text, extern = render(fh, runner.files, r)
            parsed.append((text, extern, runner.parse(text, extern, parser)))
        for k, (fh, (text, extern, p)) in enumerate(zip(files, parsed)):
            obs.append(observe_prog(runner, fh, r, tid, pre=(text, extern, runner.build(p)), sess=True))
    else:
        for fh in files:
            obs.append(observe_prog(runner, fh, r, tid, parser=parser, sess=True))
    evs = []
    for k, t in enumerate(obs):
        if k:
            evs.append({"ev": "NextFile"})
        evs += t["ev"]
    text = "".join(f"// ---- command file {k + 1} of {len(obs)} for ONE BDParser object ({mode})\n{t['text']}\n" for k, t in enumerate(obs))
    return {"id": tid, "sess": mode, "ev": evs, "text": text, "result": "/".join(t["result"] for t in obs)}


def owner_of(st, obs, kbdefs):
    """encrypt / keywrap: replace the loaded bytes by the id of the key blob they belong to, determined independently of SPSDK (harness/c13_hw.py):
    keywrap - unwrap the record with the KEK of the statement and compare key, counter and range with every key blob the program defines;
    encrypt - decrypt the bytes with every defined key blob's OTFAD context at the load address and compare with the (zero-padded) file.
    -1: the bytes belong to none of them (or to more than one)."""
    import c13_hw as hw

    data = bytes(obs["d"])
    owners = []
    for kb in kbdefs:
        key, ctr = bytes.fromhex(kb["key"]), bytes.fromhex(kb["ctr"])
        if st["s"] == "keywrap":
            if len(data) < 48:
                continue
            try:
                rec = hw.otfad_load_table(data, bytes.fromhex(st["kek"]), 1, rec_size=len(data))[0]
            except Exception:  # noqa: BLE001
                continue
            if rec["ivOk"] and rec["crcOk"] and rec["key"] == key and rec["ctr"] == ctr and rec["srt"] == kb["lo"] and rec["end"] == kb["hi"]:
                owners.append(kb["id"])
        else:
            plain = bytes(st["data"]).ljust((len(st["data"]) + 511) // 512 * 512, b"\0")
            if len(data) != len(plain):
                continue
            ctx = hw.OtfadCtx(key, ctr, kb["lo"], kb["hi"])
            for swap in (False, True):
                dec = b"".join(hw.otfad_read([ctx], obs["a"] + o, data[o:o + 16], byte_swap=swap)[3] for o in range(0, len(data), 16))
                if dec == plain and dec != data:
                    owners.append(kb["id"])
                    break
    out = dict(obs)
    out["x"] = owners[0] if len(owners) == 1 else -1
    out["d"] = []
    return out


def key_of(t, matched):
    at = min(matched, len(t["ev"]) - 1)
    if t.get("sess") and any(e["ev"] == "NextFile" for e in t["ev"][:at + 1]):
        # rejected in a LATER file of a session: the class is "history of the parser object", then the clause of the single program
        return "C19/session/" + _key_of(t, matched)[len("C19/"):]
    return _key_of(t, matched)


def _key_of(t, matched):
    ev = t["ev"][min(matched, len(t["ev"]) - 1)]
    k = ev["ev"]
    if k == "Expr":
        ops = sorted(set(_ops(ev["e"])))
        got = ev["got"]["k"]
        return f"C19/expr/{'+'.join(ops)}/{got}"
    if k == "Stmt":
        if ev["st"]["s"] == "load_blob":
            blob, o = ev["st"]["blob"], ev["obs"]
            if o["t"] == "spsdk-error" and len(blob) > 4:
                return "C19/stmt/load_blob/refused-longer-than-4-bytes"
            if o["t"] == "load" and len(blob) <= 4 and o["d"] == list(int.from_bytes(bytes(blob), "big").to_bytes(4, "little")):
                return "C19/stmt/load_blob/data-as-little-endian-word"
        obs = ev["obs"]["t"]
        cls = obs if (obs.startswith("exc:") or obs in ("spsdk-error", "command-count-mismatch") or obs.endswith("commands")) else "command"
        return f"C19/stmt/{ev['st']['s']}/{cls}"
    if k == "Refuse":
        return f"C19/unsupported/{ev['kind']}/{ev['obs']['t'] if ev['obs']['t'].startswith('exc:') else 'translated'}"
    if k == "End":
        return "C19/program/" + ("failed:" + ev["failed"] if ev.get("failed") else "options-or-section-ids")
    return f"C19/{k}"


def _ops(e):
    k = e["k"]
    if k == "bin":
        return [e["op"]] + _ops(e["l"]) + _ops(e["r"])
    if k in ("neg", "pos", "not"):
        return [k] + _ops(e["e"])
    if k == "size":
        return ["." + e["sz"]]
    return []


DEF_KINDS = ("DefOption", "DefOptionStr", "DefConst", "DefSource", "DefKeyblob")
SESSION_CLASSES = {f"{k}/{c}" for k in DEF_KINDS for c in ("redefined-used", "earlier-only", "later-only")} | {"after-refused-file", "section-ids-differ", "source-name-as-constant"}


def _meaning(ev):
    return json.dumps({k: x for k, x in ev.items() if k not in ("ev", "form")}, sort_keys=True)


def _table_key(ev):
    return (ev["ev"], ev.get("n", ev.get("id")))


def session_classes(sessions):
    """Which classes of histories the generated sessions contain (machinery self-check: the quick tier reaches every class deterministically)."""
    got = set()
    for h in sessions:
        files = split_files(h)
        for a, b in zip(files, files[1:]):
            da = {_table_key(e): e for e in a if e["ev"] in DEF_KINDS and not (e["ev"] == "DefOption" and e["n"] == "flags")}
            db = {_table_key(e): e for e in b if e["ev"] in DEF_KINDS and not (e["ev"] == "DefOption" and e["n"] == "flags")}
            stm = [e["st"] for e in b if e["ev"] == "Stmt"]
            for key, e in db.items():
                if key in da and _meaning(da[key]) != _meaning(e):
                    used = (e["ev"] in ("DefOption", "DefOptionStr")
                            or (e["ev"] == "DefConst" and any(e["n"] in json.dumps(st) for st in stm))
                            or (e["ev"] == "DefSource" and any(st.get("src") == e["n"] for st in stm))
                            or (e["ev"] == "DefKeyblob" and any(st.get("kb") == e["id"] for st in stm)))
                    if used:
                        got.add(f"{e['ev']}/redefined-used")
                if key not in da and not any(k[0] == key[0] for k in da):
                    got.add(f"{e['ev']}/later-only")
            for key, e in da.items():
                if not any(k[0] == key[0] for k in db):
                    got.add(f"{e['ev']}/earlier-only")
            if any(e["ev"] == "Refuse" for e in a) and not any(e["ev"] == "Refuse" for e in b):
                got.add("after-refused-file")
            if [e["id"] for e in a if e["ev"] == "BeginSection"] != [e["id"] for e in b if e["ev"] == "BeginSection"]:
                got.add("section-ids-differ")
            if any(e["ev"] == "DefSource" for e in a) and any(e["ev"] == "DefConst" and any(x["ev"] == "DefSource" and x["n"] == e["n"] for x in a) for e in b):
                got.add("source-name-as-constant")
    return got


def session_canary():
    """A fixed two-file session written by hand (it never passed through SPSDK) and copies of it with ONE observation of the second file replaced by what a
    parser object that forgets to clean up would produce."""
    lit = (lambda n: {"k": "lit", "v": n})
    d1, d2 = [1, 2, 3, 4, 5], [200 - i for i in range(1, 17)]
    kb1 = {"ev": "DefKeyblob", "id": 0, "lo": 4096, "hi": 6139, "key": "000102030405060708090A0B0C0D0E0F", "ctr": "0123456789ABCDEF"}
    cmd = (lambda **kw: dict({"t": "?", "a": 0, "n": 0, "f": 0, "m": 0, "x": 0, "s": -1, "d": []}, **kw))

    def file_(val, data, form, sec, kb, bn):
        ld = {"s": "load_file", "addr": {"k": "ref", "n": "ca"}, "data": data, "mem": 0, "via": "source", "src": "sa"}
        evs = [{"ev": "DefOption", "n": "flags", "e": lit(8)}] + ([{"ev": "DefOption", "n": "buildNumber", "e": lit(7)}] if bn else [])
        evs += [{"ev": "DefConst", "n": "ca", "e": lit(val)}, {"ev": "DefSource", "n": "sa", "form": form, "d": data}] + ([kb] if kb else [])
        evs += [{"ev": "BeginSection", "id": sec}, {"ev": "Stmt", "st": ld, "obs": cmd(t="load", a=val, n=len(data), d=data)},
                {"ev": "End", "iopts": [["flags", 8]] + ([["buildNumber", 7]] if bn else []), "sopts": [], "ids": [sec], "counts": [1],
                 "onames": ["buildNumber", "flags"] if bn else ["flags"], "snames": ["sa"], "kbids": [0] if kb else []}]
        return evs

    good = {"id": "sess-good", "sess": "interleaved", "ev": file_(4096, d1, "path", 0, kb1, True) + [{"ev": "NextFile"}] + file_(8192, d2, "extern", 5, None, False)}
    out = [good]
    k2 = len(good["ev"]) - 3      # BeginSection of the second file; +1 Stmt, +2 End

    def variant(name, f):
        t = json.loads(json.dumps(good))
        t["id"] = name
        f(t["ev"])
        out.append(t)

    variant("sess-bad-source", lambda ev: ev[k2 + 1]["obs"].update(n=len(d1), d=d1))                # the earlier file's image
    variant("sess-bad-const", lambda ev: ev[k2 + 1]["obs"].update(a=4096))                           # the earlier file's constant
    variant("sess-bad-snames", lambda ev: ev[k2 + 2].update(snames=["sa", "sb"]))
    variant("sess-bad-onames", lambda ev: ev[k2 + 2].update(onames=["buildNumber", "flags"]))        # an option of the earlier file shows up
    variant("sess-bad-kbids", lambda ev: ev[k2 + 2].update(kbids=[0]))                               # the earlier file's key blob
    variant("sess-bad-sections", lambda ev: ev[k2 + 2].update(ids=[0, 5], counts=[1, 1]))            # the earlier file's section
    variant("sess-bad-order", lambda ev: ev.pop(k2 - 5))                                             # End of the first file missing: NextFile before the result was observed
    return out


def run(tier):
    import_spsdk()
    v = Verdict(PROP, tier)
    r = rng(PROP)
    runner = Runner()
    os.chdir(runner.dir)

    # ---- expressions: MC (lemmas) + GEN
    g = tlc.mc("C19", "BdExprGen", "BdExprGen.cfg", env={"GEN_FULL": "0" if tier == "quick" else "1"}, workers=1 if tier == "quick" else 8, coverage=False, heap="8g")
    v.add_mc(g)
    asts = g.json_prints()
    if len(asts) < 5000:
        raise Machinery(f"expression GEN emitted only {len(asts)} ASTs")
    traces = []
    for i, e in enumerate(asts):
        text, got = observe_expr(runner, e, r)
        traces.append({"id": i, "ev": [{"ev": "Expr", "e": e, "got": got}], "text": text})
    v.count(len(traces))
    say(f"[C19] {len(traces)} expressions evaluated by the real parser ({v.timer.s()}s)")

    # ---- programs: exhaustive single statements, simulated multi-construct programs
    g1 = tlc.run("C19", "BdProgGen", "BdProgGen.cfg", env={"GEN_MAXDEFS": 0, "GEN_MAXSTMTS": 1, "GEN_MAXSECS": 1}, workers=1, deadlock=False, heap="8g")
    v.add_mc(g1)
    progs = g1.json_prints()
    g2 = tlc.run("C19", "BdProgGen", "BdProgGen.cfg", env={"GEN_MAXDEFS": 4, "GEN_MAXSTMTS": 3, "GEN_MAXSECS": 3}, workers=1, deadlock=False,
                 simulate=f"num={300 if tier == 'quick' else 2500}", depth=14, heap="8g", timeout=2400)
    progs2 = g2.json_prints()
    if len(progs) < 300 or len(progs2) < 100:
        raise Machinery(f"program GEN emitted {len(progs)} + {len(progs2)} programs\n{g2.out[-1500:]}")
    # key blobs: every way of defining up to two of them (ids in and out of definition order) x one or two encrypt / keywrap statements
    g3 = tlc.run("C19", "BdProgGen", "BdProgGen.cfg", env={"GEN_MAXDEFS": 2, "GEN_MAXSTMTS": 2, "GEN_MAXSECS": 1, "GEN_KBONLY": 1}, workers=1, deadlock=False, heap="8g", timeout=1200)
    v.add_mc(g3)
    progs3 = g3.json_prints()
    if len(progs3) < 200:
        raise Machinery(f"key-blob GEN emitted only {len(progs3)} programs\n{g3.out[-1500:]}")
    if tier == "quick":
        # seeded subset; the programs that encrypt through a context which does NOT decrypt (ADE / VLD clear) are always in it
        r.shuffle(progs3)
        inact = [h for h in progs3 if any(e["ev"] == "Stmt" and e["st"]["s"] == "encrypt" and not e["st"]["act"] for e in h)]
        rest = [h for h in progs3 if h not in inact[:200]]
        progs3 = inact[:200] + rest[:400]
    if tier == "quick":
        # seeded subset, stratified: every refused construct and at least 40 programs of every statement kind are always in it
        r.shuffle(progs)
        kind_of = (lambda h: next((e["kind"] if e["ev"] == "Refuse" else e["st"]["s"] for e in h if e["ev"] in ("Stmt", "Refuse")), "-"))
        seen, first, rest = {}, [], []
        for h in progs:
            k = kind_of(h)
            seen[k] = seen.get(k, 0) + 1
            (first if seen[k] <= 40 else rest).append(h)
        progs = first + rest[:max(0, 1500 - len(first))]
    allp = progs + progs2 + progs3
    # ---- sessions: several command files for ONE parser object (BdSession).  Exhaustive: all pairs of files over the menu of colliding definitions
    # (both files define in the same table or in none); simulated: 3 files, several definitions, 2 sections, 2 statements
    gs = tlc.mc("C19", "BdSessGen", "BdSessGen.cfg", env={"GEN_MAXFILES": 2, "GEN_MAXDEFS": 1, "GEN_MAXSTMTS": 1, "GEN_MAXSECS": 1}, workers=1, deadlock=False,
                coverage=False, heap="4g", timeout=1200)
    v.add_mc(gs)
    sess = gs.json_prints()
    reached = session_classes(sess)
    missing = sorted(SESSION_CLASSES - reached)
    if len(sess) < 200 or missing:
        raise Machinery(f"session GEN emitted {len(sess)} sessions; classes not reached: {missing}")
    gs2 = tlc.run("C19", "BdSessGen", "BdSessGen.cfg", env={"GEN_MAXFILES": 3, "GEN_MAXDEFS": 5, "GEN_MAXSTMTS": 2, "GEN_MAXSECS": 2, "GEN_WIDE": 1}, workers=1,
                  deadlock=False, simulate=f"num={100 if tier == 'quick' else 1000}", depth=40, heap="4g", timeout=1200)
    seen, sess2 = set(), []
    for h in gs2.json_prints():       # in -simulate mode a finished history is printed once per evaluation of the action: keep one copy
        k = json.dumps(h, sort_keys=True)
        if k not in seen:
            seen.add(k)
            sess2.append(h)
    if len(sess2) < 50:
        raise Machinery(f"session GEN (simulate) emitted only {len(sess2)} sessions\n{gs2.out[-1500:]}")
    r.shuffle(sess2)
    sess2 = sess2[:100 if tier == "quick" else 2000]
    alls = sess + sess2
    for h in allp + alls:  # data files are created before forking so that every worker sees the same paths
        for ev in h:
            if ev["ev"] == "Stmt" and ev["st"]["s"] in ("load_file", "encrypt"):
                runner.files(ev["st"]["data"])
            elif ev["ev"] == "DefSource":
                runner.files(ev["d"])
    ptraces = pmap(lambda ih: observe_prog(runner, ih[1], rng(PROP, "prog", ih[0]), 1000000 + ih[0]), list(enumerate(allp)))
    v.count(len(ptraces))
    say(f"[C19] {len(ptraces)} programs processed by the real parser and command builder ({v.timer.s()}s)")
    # every second session keeps the parsed configurations and builds the commands afterwards (the order of the enumeration is fixed: both modes meet every class)
    straces = pmap(lambda ih: observe_session(runner, ih[1], rng(PROP, "sess", ih[0]), 2000000 + ih[0], "deferred" if ih[0] % 2 else "interleaved"), list(enumerate(alls)))
    v.count(len(straces))
    nfiles = sum(len(split_files(h)) for h in alls)
    say(f"[C19] {len(straces)} sessions ({nfiles} command files) processed by ONE parser object each ({v.timer.s()}s)")
    for t in traces + ptraces + straces:
        if t["ev"][0].get("got", {}).get("k", "int") == "int":
            v.nontrivial(t["text"])
    v.sample({"text": traces[len(traces) // 2]["text"], "event": traces[len(traces) // 2]["ev"][0]})
    v.sample({"text": ptraces[-1]["text"], "events": ptraces[-1]["ev"]})
    v.sample({"text": straces[len(sess) // 2]["text"], "events": straces[len(sess) // 2]["ev"]})

    # ---- canary
    good = {"id": "good", "ev": [{"ev": "Expr", "e": {"k": "bin", "op": "*", "l": {"k": "lit", "v": 3}, "r": {"k": "lit", "v": 5}}, "got": {"k": "int", "v": 15}}]}
    bad = {"id": "bad", "ev": [{"ev": "Expr", "e": {"k": "bin", "op": "*", "l": {"k": "lit", "v": 3}, "r": {"k": "lit", "v": 5}}, "got": {"k": "int", "v": -2}}]}
    # (good / bad are fixed observations that never passed through SPSDK; the program canary corrupts a real trace and only demands that the corrupted
    #  copy is rejected - whether the real trace itself is accepted is the business of the main run)
    cand = next((t for t in ptraces if t["result"] == "ok" and t["ev"][-1]["ev"] == "End" and not _has_known(t) and any(e["ev"] == "Stmt" for e in t["ev"])), None)
    batch = [good, bad]
    if cand is not None:
        pg = json.loads(json.dumps(cand))
        pg["id"] = "prog-good"
        pb = json.loads(json.dumps(pg))
        pb["id"] = "prog-bad"
        st = next(e for e in pb["ev"] if e["ev"] == "Stmt")
        st["obs"]["a"] += 4
        batch += [pg, pb]
    batch += session_canary()
    rej, _ = tlc.tv("C19", "BdTrace", [_strip(x) for x in batch])
    want = {"bad", "sess-bad-source", "sess-bad-const", "sess-bad-snames", "sess-bad-onames", "sess-bad-kbids", "sess-bad-sections", "sess-bad-order"}
    if not want <= set(rej) or "good" in rej or "sess-good" in rej or (cand is not None and "prog-bad" not in rej):
        raise Machinery(f"canary failed: rejected {sorted(rej)}")
    v.extra["canary"] = ("corrupted expression value and corrupted command address rejected; session: a later file that loads the earlier file's source, uses the earlier "
                         "file's constant, shows a leaked source / option / key blob / section, or is parsed before the result of the earlier file was observed - all "
                         f"rejected, the fixed two-file session accepted; rejected set {sorted(rej)}")

    # ---- TV
    allt = traces + ptraces + straces
    rej, res = tlc.tv("C19", "BdTrace", [_strip(t) for t in allt], heap="8g")
    v.traces(len(allt))
    by_id = {t["id"]: t for t in allt}
    for tid, (matched, length, evname) in rej.items():
        t = by_id[tid]
        v.violation(key_of(t, matched), f"{t['text'][:300]!r} -> event #{matched + 1} ({evname}) rejected: "
                    f"{json.dumps(t['ev'][min(matched, len(t['ev']) - 1)])[:400]}", {"text": t["text"], "trace": _strip(t)})
    # ---- system lane: the same programs, end to end (BD text -> SB 2.1 file -> mboot link -> device -> boot ROM), spec/SYS/SbLoadTrace.tla
    import sys_sbload

    sys_sbload.run_lane(v, allp, tier, PROP)

    v.extra["sessions"] = {"exhaustive_pairs": len(sess), "simulated": len(sess2), "command_files": nfiles, "classes": sorted(reached)}
    v.cov["rule"] = ("sessions: every pair of command files over a menu of colliding definitions (integer option, string option, constant, source, key blob: one name / id "
                     "with two meanings; both files define in the same table or in none; every definition is used by a statement) given to ONE BDParser object, plus simulated "
                     "sessions of 3 files; every file observed like a single program + the names of the tables its configuration shows; "
                     "expressions: all ASTs of depth <= 2 over 18 binary and 3 unary operators and a literal menu that lie in the asserted domain "
                     "(TLC enumerates, each rendered with minimal parentheses and evaluated by the real parser); programs: every single-statement "
                     "program of the statement menu (quick: seeded subset of 1500) + simulated programs with up to 4 definitions, 3 sections, "
                     "3 statements each; non-trivial = accepted by the real parser; distinct by program text; system lane: a seeded subset of the programs "
                     "built into SB 2.1 files by SPSDK, sent with McuBoot.receive_sb_file to the device twin over both transports, the bytes the device holds "
                     "walked by the independent boot-ROM executor, the decoded sections / commands compared by TLC with the language semantics (SbLoadTrace)")
    v.assumptions += ["sessions: a BDParser object may be used for several command files (its parse() documents the clean-up 'before next parsing'); each file is a "
                      "complete program; a name is defined once per FILE; a reference to a name the file itself does not define is not generated (the documentation does not "
                      "say how it is refused)",
                      "operands stay below 2^31 (TLC integers); negative operands of / % << >> & | ^ and non-boolean operands of && || are outside the asserted domain",
                      "the renderer (minimal parentheses by documented C precedence) is trusted",
                      "fill patterns are generated only where all readings agree (.b < 0x100, .h >= 0x100, .w >= 0x1000000)",
                      "memory options are written as @<id> or as the documented keyword (internal, qspi, semcnor, flexspinor, spinand, sdcard ...); the key-store "
                      "statements get the numeric form only (their documentation shows no other)"]
    return v.finish()


def _has_known(t):
    return any(e["ev"] == "Stmt" and e["st"]["s"] in ("load_blob",) for e in t["ev"])


def _strip(t):
    if t.get("sess"):
        return {"id": t["id"], "sess": t["sess"], "ev": t["ev"]}
    return {"id": t["id"], "ev": t["ev"]}


def replay(path):
    import_spsdk()
    w = json.load(open(path))["witness"]
    if w.get("e2e"):
        import sys_sbload

        os.chdir(Runner().dir)
        if sys_sbload.replay(w):
            say(f"VIOLATION property=C19 replay={path}")
            return 1
        say("replay: accepted by the composed specification")
        return 0
    runner = Runner()
    os.chdir(runner.dir)
    say(w["text"])
    t = w["trace"]
    r = rng(PROP, "replay")
    if t["ev"][0]["ev"] == "Expr":
        text, got = observe_expr(runner, t["ev"][0]["e"], r)
        t2 = {"id": 0, "ev": [{"ev": "Expr", "e": t["ev"][0]["e"], "got": got}]}
    else:
        hist = [{k: x for k, x in e.items() if k != "obs"} for e in t["ev"] if e["ev"] not in ("End", "EndRefused")]
        if t.get("sess"):
            for e in hist:
                if e["ev"] == "DefSource":
                    runner.files(e["d"])
            t2 = _strip(observe_session(runner, hist, r, 0, t["sess"]))
        else:
            t2 = _strip(observe_prog(runner, hist, r, 0))
    rej, _ = tlc.tv("C19", "BdTrace", [t2])
    say(json.dumps(t2)[:1000])
    if rej:
        say(f"VIOLATION property=C19 replay={path}")
        return 1
    say("replay: accepted by the spec")
    return 0
