"""C14 - bootable image: segments land at the device offsets and come back on parse.

spec/C14/Bimg.tla      : R-spec. A segment table (ordered segments, static offset or dynamic = aligned end of the predecessor,
                         device fill pattern) + a case (which segments are supplied, payload lengths, requested init offset)
                         determine the exported image completely; the spec is the READER of that image: Build / Refuse, then
                         Gap and Seg steps along a cursor, End, then one ParseSeg step per included segment.  A segment kind with a
                         nominal size owns a slot; its payload is in one of the length classes short / nominal / long, and the rest of the
                         slot behind a short payload is gap (device pattern): every Gap step says how many of its bytes are such a rest.
spec/C14/BimgMC.tla    : MC + GEN. The tables are extracted from the device database at run time (TABLE_FILE); TLC enumerates,
                         per distinct table, subsets of optional segments x payload length menu x requested init offsets, checks
                         the layout lemmas (NoOverlap, StartsWhereTold, InitSnap, CursorMonotone, TotalIsEnd, SlotRestIsGap) on every
                         state of every walk, checks that the menu holds every length class of every fixed-size segment of every table
                         (ClassesCovered) and emits each case with its expected placement, slot rests and length classes.
spec/C14/BimgHist.tla  : R-spec, history layer. ONE object that lives on: every public mutator (init offset setter, load_config / clear of
                         a segment, export, the parse of its own export taking its place) is an action on the CURRENT case; after any
                         history the export must be the image Bimg prescribes for the current case (= the image of a fresh object).
spec/C14/BimgHistGen.tla : MC + GEN of histories (the history is part of the state): exhaustive lanes (all sequences of 2 / 3 changes from
                         every requested start, also after a parse) and a -simulate lane (longer, changes without exports in between).
spec/C14/BimgKinds.tla : MC + GEN of the dimension "application containers of every kind the family supports" (harness/c14_kinds.py): every
                         (target, authentication) image of the family's MBI table (plain, CRC, signed with certificate block v1 RSA / v2.1 ECDSA,
                         NXP-signed, encrypted), HAB plain, AHAB unsigned / signed x supplied as a binary file / as the YAML configuration of the
                         container (the segment holds the container OBJECT) x load_from_config + export / `nxpimage bootable-image merge` x full
                         image / image that starts at the container; the payload of a case is the container's STANDALONE export.
spec/C14/BimgTrace.tla : TV. One trace per executed case or history; every logged number is recomputed by the spec (clause ContOk: the container
                         of a trace of the kinds lane is the standalone container - byte-identical, or equal outside a randomised signature that verifies).

Python only EXECUTES: it builds real payloads (MBI / HAB / AHAB containers through the public builders, SB2.1 / SB3.1 golden
files, FCB / XMCD through their classes, marker-filled key blobs ...), drives the real BootableImage through
load_from_config / init_offset setter / set_init_offset / parse, reads the exported bytes with a dumb scanner
(where is each payload, are the bytes between them the pattern) and logs what it saw.
"""
import json
import os
import struct

from lib import tlc
from lib.common import ROOT, Machinery, import_spsdk, rng, say, scratch, sha
from lib.par import pmap
from lib.verdict import Verdict

PROP = "C14"
ANCHORS = os.path.join(ROOT, "anchors", "C14")

RAW = ("keyblob", "keystore", "bee_header_0", "bee_header_1")       # opaque fixed-size blocks: parse returns exactly SIZE bytes
FIXED = RAW + ("fcb", "fcb_xspi")                                   # segment kinds that own a slot of SIZE bytes and whose payload is a file of any
                                                                    # length (shorter than the slot / nominal / longer); parse returns SIZE bytes
VERSION = ("image_version", "image_version_ap")                     # 4-byte blocks written from an integer, always present
CONTAINERS = ("mbi", "hab_container", "ahab_container", "primary_image_container_set", "secondary_image_container_set", "sb21", "sb31")
PATTERNS = {"zeros": 0, "ones": 255}


# ------------------------------------------------------------------ inventory: tables from the device database
def inventory():
    """-> (tables, triples): tables = list of table dicts (TABLE_FILE content), triples = [(family, revision, mem_type label, table index)]."""
    from spsdk.image.bootable_image.bimg import BootableImage
    from spsdk.image.bootable_image.segments import BootableImageSegment, get_segment_class

    tables, index, triples = [], {}, []
    for fam in BootableImage.get_supported_families():
        for rev in BootableImage.get_supported_revisions(fam):
            for mt in BootableImage.get_supported_memory_types(fam, rev):
                descr = BootableImage.get_memory_type_config(fam, mt, rev)
                pat = descr.get("image_pattern", "zeros")
                if pat not in PATTERNS:
                    raise Machinery(f"{fam}/{rev}/{mt.label}: image pattern {pat!r} is not modelled")
                segs = []
                for name, off in descr["segments"].items():
                    cls = get_segment_class(BootableImageSegment.from_label(name))
                    segs.append({"name": name, "off": int(off) if off >= 0 else -1, "size": max(int(cls.SIZE), 0),
                                 "al": int(cls.OFFSET_ALIGNMENT), "cfg": cls.cfg_key(),
                                 "opt": name not in VERSION and (name not in CONTAINERS or off < 0),
                                 "raw": name in RAW, "fixed": name in FIXED and int(cls.SIZE) > 0, "cont": name in CONTAINERS})
                sig = ("ones:" if pat == "ones" else "") + ",".join(f"{s['name']}@{s['off']:x}" if s["off"] >= 0 else f"{s['name']}@dyn{s['al']}" for s in segs)
                key = json.dumps([pat, segs], sort_keys=True)
                if key not in index:
                    index[key] = len(tables)
                    tables.append({"sig": sig, "pat": PATTERNS[pat], "segs": segs})
                triples.append((fam, rev, mt.label, index[key]))
    return tables, triples


def static_offsets(t):
    return sorted({s["off"] for s in t["segs"] if s["off"] >= 0})


def room(t, i):
    """Bytes between the start of static segment i and the next static table offset (None for the last one / dynamic)."""
    s = t["segs"][i]
    if s["off"] < 0:
        return None
    later = [x["off"] for x in t["segs"][i + 1:] if x["off"] >= 0]
    return (min(later) - s["off"]) if later else None


# ------------------------------------------------------------------ payloads
def app_image(n, reset_vector, salt):
    r = rng(PROP, "app", n, salt)
    b = bytearray(r.randbytes(n))
    struct.pack_into("<8I", b, 0, 0x20008000, reset_vector, *[reset_vector + 0x10 + 4 * k for k in range(6)])
    if n > 0x40C:
        b[0x40C] = 0xFE  # DSC families read a life-cycle byte from the application's flash configuration field: keep it a defined value (OEM_OPEN)
    return bytes(b)


def raw_payload(n, *salt):
    """Opaque bytes whose first and last byte differ from both fill patterns."""
    r = rng(PROP, "raw", n, *salt)
    b = bytearray(r.randbytes(n))
    for k in (0, n - 1):
        if b[k] in (0, 255):
            b[k] = 0xA5
    return bytes(b)


class Materials:
    """Real payloads, built once per family through the public builders (files under the scratch directory)."""

    MBI_APPS = (0x1000, 0x1234, 0x2800)
    HAB_APPS = (0x300, 0x1001, 0x2345)
    AHAB_IMGS = (0x600, 0x800, 0x1234)

    def __init__(self):
        self.dir = os.path.join(scratch(), "c14-mat")
        os.makedirs(self.dir, exist_ok=True)
        self.cache = {}
        self.notes = {}

    def path(self, *parts):
        p = os.path.join(self.dir, *[str(x) for x in parts])
        os.makedirs(os.path.dirname(p), exist_ok=True)
        return p

    def put(self, data, *parts):
        """Write a payload file atomically (several worker processes may want the same file at the same time)."""
        p = self.path(*parts)
        tmp = f"{p}.{os.getpid()}.tmp"
        with open(tmp, "wb") as f:
            f.write(data)
        os.replace(tmp, p)
        return p

    # ---- application containers
    def mbi(self, fam, rev):
        from spsdk.image.mbi.mbi import MasterBootImage, get_mbi_class, get_mbi_classes

        out = []
        classes = get_mbi_classes(fam, rev)
        order = [(t, a) for want in ("crc", "plain") for (_, t, a) in classes.values() if a == want]
        for k, n in enumerate(self.MBI_APPS):
            app = self.put(app_image(n, 0x10000141, f"{fam}"), fam, rev, f"app{k}.bin")
            done = None
            for target, auth in order:
                cfg = {"family": fam, "revision": rev, "outputImageExecutionTarget": target, "outputImageAuthenticationType": auth,
                       "masterBootOutputFile": "mbi.bin", "inputImageFile": app, "outputImageExecutionAddress": 0,
                       "enableHwUserModeKeys": False, "enableTrustZone": False}
                try:
                    m = get_mbi_class(cfg)()
                    m.load_from_config(cfg, search_paths=[self.dir])
                    data = m.export()
                    done = (data, cfg)
                    break
                except Exception as e:  # noqa: BLE001 - try the next image type of the family
                    self.notes[f"mbi/{fam}/{target}/{auth}"] = repr(e)[:160]
            if done is None:
                raise Machinery(f"no plain/crc MBI could be built for {fam}/{rev}: {self.notes}")
            # is the container accepted by the family's own MBI parser (that is what BootableImage.parse relies on)?
            try:
                MasterBootImage.parse(fam, done[0], revision=rev).validate()
                selfparse = True
            except Exception as e:  # noqa: BLE001
                selfparse = False
                self.notes[f"mbi-selfparse/{fam}"] = repr(e)[:160]
            import yaml
            ypath = self.path(fam, rev, f"mbi{k}.yaml")
            with open(ypath, "w") as f:
                yaml.safe_dump(done[1], f)
            out.append({"bin": self.put(done[0], fam, rev, f"mbi{k}.bin"), "len": len(done[0]), "yaml": ypath, "selfparse": selfparse})
        return out

    def hab(self, ivt_offset):
        from spsdk.image.hab.hab_container import HabContainer

        out = []
        ils = 2 * ivt_offset if ivt_offset else 0x1000
        start = 0x30000000
        for k, n in enumerate(self.HAB_APPS):
            app = self.put(app_image(n, start + ils + 0x141, f"hab{ivt_offset}"), "hab", ivt_offset, f"app{k}.bin")
            cfg = {"options": {"flags": 0, "startAddress": start, "ivtOffset": ivt_offset, "initialLoadSize": ils,
                               "entryPointAddress": start + ils + 0x141}, "inputImageFile": app, "sections": []}
            hab = HabContainer.load_from_config(HabContainer.transform_bd_configuration(dict(cfg)), search_paths=[self.dir])
            data = hab.export()
            HabContainer.parse(data)
            out.append({"bin": self.put(data, "hab", ivt_offset, f"hab{k}.bin"), "len": len(data), "selfparse": True})
        return out

    def ahab(self, fam, rev, which):
        from spsdk.image.ahab.ahab_image import AHABImage
        from spsdk.utils.database import get_db

        core_ids = get_db(fam, rev).get_dict("ahab", "core_ids")
        labels = [v[1] for v in core_ids.values()]
        core = next((c for c in ("cortex-m33", "cortex-a55") if c in labels), labels[0])
        out = []
        for k, n in enumerate(self.AHAB_IMGS):
            img = self.put(rng(PROP, "ahab", fam, which, n).randbytes(n), fam, rev, f"{which}-img{k}.bin")
            cfg = {"family": fam, "revision": rev, "target_memory": "standard", "output": "ahab.bin", "containers": [{"container": {
                "srk_set": "none", "used_srk_id": 0, "srk_revoke_mask": 0, "fuse_version": 0, "sw_version": 0,
                "images": [{"image_path": img, "image_offset": 0x2000, "load_address": 0x1FFC0000, "entry_point": 0x1FFC0000,
                            "image_type": "executable", "core_id": core, "is_encrypted": False, "boot_flags": 0,
                            "meta_data_start_cpu_id": 0, "meta_data_mu_cpu_id": 0, "meta_data_start_partition_id": 0, "hash_type": "sha256"}]}}]}
            a = AHABImage.load_from_config(cfg, search_paths=[self.dir])
            a.update_fields()
            data = a.export()
            p = AHABImage(family=fam, revision=rev)
            p.parse(data)
            import yaml
            ypath = self.path(fam, rev, f"{which}{k}.yaml")
            with open(ypath, "w") as f:
                yaml.safe_dump(cfg, f)
            out.append({"bin": self.put(data, fam, rev, f"{which}{k}.bin"), "len": len(data), "yaml": ypath, "selfparse": True})
        return out

    def golden(self, kind):
        names = sorted(f for f in os.listdir(ANCHORS) if f.endswith("." + kind))
        if len(names) < 2:
            raise Machinery(f"golden {kind} files are missing in {ANCHORS}")
        return [{"bin": os.path.join(ANCHORS, f), "len": os.path.getsize(os.path.join(ANCHORS, f)), "selfparse": True} for f in names]

    # ---- header segments
    def fcb(self, fam, rev, mt, size):
        """A flash configuration block of the family (registers at their reset values, tag forced, LUT area randomised)."""
        from spsdk.image.fcb.fcb import FCB
        from spsdk.image.mem_type import MemoryType

        data = None
        try:
            data = bytearray(FCB(fam, MemoryType.from_label(mt), rev).export())
        except Exception as e:  # noqa: BLE001 - the FCB class does not know the family: a tagged block of the right size
            self.notes[f"fcb/{fam}/{mt}"] = repr(e)[:120]
        if data is None or len(data) != size:
            data = bytearray(size)
            data[4:8] = b"\x00\x04\x01V"
        data[0:4] = b"FCFB"
        data[0x80:0x100] = raw_payload(0x80, "fcb-lut", fam)
        return [{"bin": self.put(bytes(data), fam, rev, f"fcb-{mt}.bin"), "len": len(data), "selfparse": True}]

    def xmcd(self, fam):
        """External memory configuration blocks of the family, one per distinct length (registers at their default values)."""
        from spsdk.image.xmcd.xmcd import XMCD

        out = []
        for mt in XMCD.get_supported_memory_types(fam):
            for ct in XMCD.get_supported_configuration_types(fam, mt):
                data = XMCD(fam, mt, ct).export()
                XMCD.parse(data + bytes(16), family=fam)
                out.append({"bin": self.put(data, fam, f"xmcd-{mt.label}-{ct.label}.bin"), "len": len(data), "selfparse": True})
        out.sort(key=lambda m: m["len"])
        seen, res = set(), []
        for m in out:
            if m["len"] not in seen:
                seen.add(m["len"])
                res.append(m)
        return res

    @staticmethod
    def key(fam, rev, mt, seg):
        name = seg["name"]
        if name in ("ahab_container", "primary_image_container_set", "secondary_image_container_set"):
            return ("ahab", fam, rev, "secondary" if name.startswith("secondary") else "primary")
        return {"mbi": ("mbi", fam, rev), "hab_container": ("hab", seg["off"] if seg["off"] in (0x400, 0x1000) else 0x400),
                "sb21": ("sb21",), "sb31": ("sb31",), "fcb": ("fcb", fam, rev, mt, seg["size"]), "fcb_xspi": ("fcb", fam, rev, mt, seg["size"]),
                "xmcd": ("xmcd", fam)}.get(name)

    def build(self, key):
        k = key[0]
        if k == "mbi":
            return self.mbi(key[1], key[2])
        if k == "hab":
            return self.hab(key[1])
        if k == "ahab":
            return self.ahab(key[1], key[2], key[3])
        if k in ("sb21", "sb31"):
            return self.golden({"sb21": "sb2", "sb31": "sb3"}[k])
        if k == "fcb":
            return self.fcb(key[1], key[2], key[3], key[4])
        if k == "xmcd":
            return self.xmcd(key[1])
        raise Machinery(f"unknown material {key}")

    def prepare(self, tables, triples):
        """Build every payload menu that the given triples need (in parallel, grouped by family)."""
        need = {}
        for fam, rev, mt, tb in triples:
            for seg in tables[tb]["segs"]:
                key = self.key(fam, rev, mt, seg)
                if key is not None and key not in self.cache:
                    need.setdefault(fam if len(key) > 2 or key[0] == "xmcd" else "", set()).add(key)
        groups = [sorted(v) for v in need.values()]

        def work(keys):
            res = [(k, self.build(k)) for k in keys]
            return res, self.notes

        for res, notes in pmap(work, groups, chunksize=1):
            self.notes.update(notes)
            for k, v in res:
                self.cache[k] = v

    def get(self, fam, rev, mt, table, i):
        """Menu of payloads (list of {bin, len, ...}) for segment i of the table, for this (family, revision, memory type)."""
        key = self.key(fam, rev, mt, table["segs"][i])
        if key is None:
            return None
        if key not in self.cache:
            self.cache[key] = self.build(key)
        return self.cache[key]


def raw_lens(table, i):
    """Length classes of a fixed-size block: shorter than its slot (an opaque block: down to one byte; an FCB keeps its header and look-up
    table: 5/8 of the slot), one byte short, nominal, and - where the next table offset leaves room - longer (up to that offset)."""
    s = table["segs"][i]
    lens = [1 if s["raw"] else (s["size"] * 5) // 8, s["size"] - 1, s["size"]]
    rm = room(table, i)
    if rm is not None and rm > s["size"]:
        lens.append(rm)
    return lens


def table_menus(tables, triples, mats, small=False):
    """Fill the payload length menu (`lens`) of every table from the payloads of its first triple."""
    first = {}
    for tr in triples:
        first.setdefault(tr[3], tr)
    for tb, t in enumerate(tables):
        fam, rev, mt, _ = first[tb]
        for i, s in enumerate(t["segs"]):
            if s["name"] in VERSION:
                s["lens"] = [4]
            elif s["fixed"]:
                s["lens"] = raw_lens(t, i)
            else:
                s["lens"] = sorted({m["len"] for m in mats.get(fam, rev, mt, t, i)})
            rm = room(t, i)
            if rm is not None:
                s["lens"] = [n for n in s["lens"] if n <= rm]       # payload sizes up to the next segment's offset
            if not s["lens"]:
                raise Machinery(f"no payload fits segment {s['name']} of table {t['sig']}")
            if s["name"] == "xmcd" and len(s["lens"]) > 2:      # XMCD parsing costs ~0.5 s per attempt: shortest, (a middle one,) longest block
                s["lens"] = [s["lens"][0], s["lens"][-1]] if small else [s["lens"][0], s["lens"][-2], s["lens"][-1]]


def version_bytes(name, v):
    if name == "image_version":
        return struct.pack("<I", v)
    return struct.pack("<HH", v & 0xFFFF, (v & 0xFFFF) ^ 0xFFFF)   # value and its antipole


MODES = ("cfg", "setter", "set_init_offset")


# ------------------------------------------------------------------ executor
class Exec:
    def __init__(self, tables, mats):
        self.tables, self.mats = tables, mats

    def one_payload(self, triple, i, n, r, use_yaml):
        """-> (configuration value, supplied bytes) of a payload of menu length n for segment i of the triple's table"""
        fam, rev, mt, tb = triple
        t = self.tables[tb]
        s = t["segs"][i]
        name = s["name"]
        if name in VERSION:
            v = r.randrange(1, 0xFFFF)
            return v, version_bytes(name, v)
        if s["raw"]:
            d = raw_payload(n, fam, name)
            return self.mats.put(d, "raw", f"{name}-{n}-{sha([fam])}.bin"), d
        menu = self.mats.get(fam, rev, mt, t, i)
        if s["fixed"]:      # (FCB) the family's block in another length class: cut behind n bytes / followed by more bytes up to the next offset
            base = open(menu[0]["bin"], "rb").read()
            if n == len(base):
                return menu[0]["bin"], base
            d = bytearray(base[:n] if n < len(base) else base + raw_payload(n - len(base), fam, name, "long"))
            if d[-1] in (0, 255):
                d[-1] = 0xA5            # the last supplied byte differs from both fill patterns (the scanner sees where the payload ends)
            return self.mats.put(bytes(d), "fixed", f"{name}-{n}-{sha([fam, rev, mt])}.bin"), bytes(d)
        k = s["lens"].index(n) if n in s["lens"] else 0
        m = menu[min(k, len(menu) - 1)]
        return (m["yaml"] if (use_yaml and "yaml" in m) else m["bin"]), open(m["bin"], "rb").read()

    def payloads(self, case, triple, r, use_yaml):
        """-> (config dict, {segment index: supplied bytes}, actual payload lengths)"""
        fam, rev, mt, tb = triple
        t = self.tables[tb]
        cfg = {"family": fam, "revision": rev, "memory_type": mt}
        data, plen = {}, []
        for i, s in enumerate(t["segs"]):
            if not case["present"][i]:
                plen.append(0)
                continue
            cfg[s["cfg"]], data[i] = self.one_payload(triple, i, case["plen"][i], r, use_yaml)
            plen.append(len(data[i]))
        return cfg, data, plen

    @staticmethod
    def observe(bimg, t, data, ev, handles=None):
        """Export the object and read the bytes with a dumb scanner: where is every payload the image claims to contain, what lies
        between them.  Appends Gap / Seg / End events; -> (image, found segment indexes) or None when the trace ends with a Crash event."""
        try:
            image = bimg.export()
            api_total = len(bimg)
            claimed = {seg.NAME.label: seg for seg in bimg.segments}
            api = {n: (bimg.get_segment_offset(seg), len(seg)) for n, seg in claimed.items()}
        except Exception as e:  # noqa: BLE001
            ev.append({"ev": "Crash", "of": "Export", "exc": type(e).__name__, "msg": str(e)[:160]})
            return None
        if handles is not None:
            handles.update(claimed)         # references to segment objects are taken from the public `segments` list only
        pat = bytes([t["pat"]])
        cur = 0
        found = []
        unused = 0      # bytes of the slot of the last found segment (nominal size of its class) that its payload did not fill

        def gap(a, b):
            """Bytes a..b lie between two payloads: the first `rest` of them are the unused rest of a slot; every one must be the pattern."""
            rest = min(b - a, unused)
            return {"ev": "Gap", "from": a, "to": b, "rest": rest, "restPat": image[a:a + rest] == pat * rest, "pat": image[a:b] == pat * (b - a)}

        for i, s in enumerate(t["segs"]):
            if i not in data or s["name"] not in claimed:
                continue
            d = data[i]
            at = image.find(d, cur)
            ok = at >= 0
            if not ok:
                at = image.find(d[:16], cur)
            if at < 0:
                ev.append({"ev": "Seg", "i": i + 1, "at": -1, "len": len(d), "ok": False, "apiOff": api[s["name"]][0], "apiLen": api[s["name"]][1]})
                continue
            if at > cur:
                ev.append(gap(cur, at))
            ev.append({"ev": "Seg", "i": i + 1, "at": at, "len": len(d), "ok": ok, "apiOff": api[s["name"]][0], "apiLen": api[s["name"]][1]})
            cur = at + len(d)
            unused = max(0, int(type(claimed[s["name"]]).SIZE) - len(d))
            found.append(i)
        if cur < len(image):
            ev.append(gap(cur, len(image)))
        # a block the object holds although it was not supplied; one that consists of fill bytes only is indistinguishable from an absent
        # one (the parser returns the image version word of an image without one as 4 fill bytes) and is read as gap
        extra = sorted(n for n, seg in claimed.items() if n not in [t["segs"][i]["name"] for i in data] and seg.export().strip(pat) != b"")
        if extra:
            ev.append({"ev": "Crash", "of": "Export", "exc": "UnsuppliedSegmentPresent", "msg": ",".join(extra)})
            return None
        ev.append({"ev": "End", "total": len(image), "apiLen": api_total})
        return image, found

    @staticmethod
    def parse_back(image, found, data, t, triple, ev):
        """Parse the exported bytes back.  Appends Parse / PSeg / Done events; -> (parsed object, {segment index: returned bytes}) or None."""
        from spsdk.exceptions import SPSDKError
        from spsdk.image.bootable_image.bimg import BootableImage
        from spsdk.image.mem_type import MemoryType

        fam, rev, mt, _ = triple
        pat = bytes([t["pat"]])
        try:
            parsed = BootableImage.parse(image, family=fam, mem_type=MemoryType.from_label(mt), revision=rev)
        except SPSDKError as e:
            ev.append({"ev": "Parse", "ok": False, "init": -1, "msg": str(e)[:160]})
            return None
        except Exception as e:  # noqa: BLE001
            ev.append({"ev": "Crash", "of": "Parse", "exc": type(e).__name__, "msg": str(e)[:160]})
            return None
        ev.append({"ev": "Parse", "ok": True, "init": parsed.init_offset})
        back = {seg.NAME.label: seg for seg in parsed.segments}
        got = {}
        for i in found:
            s = t["segs"][i]
            seg = back.get(s["name"])
            if seg is None:
                ev.append({"ev": "PSeg", "i": i + 1, "present": False, "plen": 0, "prefixOk": False, "tailPat": False})
                continue
            got[i] = seg.export()
            d = data[i]
            ev.append({"ev": "PSeg", "i": i + 1, "present": True, "plen": len(got[i]), "prefixOk": got[i][:len(d)] == d,
                       "tailPat": got[i][len(d):] == pat * max(0, len(got[i]) - len(d))})
        ev.append({"ev": "Done"})
        return parsed, got

    def run(self, cid, case, triple, mode):
        from spsdk.exceptions import SPSDKError
        from spsdk.image.bootable_image.bimg import BootableImage
        from spsdk.image.bootable_image.segments import BootableImageSegment

        fam, rev, mt, tb = triple
        t = self.tables[tb]
        r = rng(PROP, "case", cid)
        use_yaml = r.random() < 0.25
        cfg, data, plen = self.payloads(case, triple, r, use_yaml)
        req = case["req"]
        seg_at_req = next((s["name"] for s in t["segs"] if s["off"] == req), None)
        if mode == "set_init_offset" and seg_at_req is None:
            mode = "setter"
        tr = {"id": cid, "tb": tb + 1, "present": case["present"], "plen": plen, "req": req, "ev": [],
              "info": {"family": fam, "revision": rev, "mem_type": mt, "mode": mode, "yaml": use_yaml, "sig": t["sig"],
                       "config": {k: (os.path.basename(v) if isinstance(v, str) and os.sep in v else v) for k, v in cfg.items()}}}
        ev = tr["ev"]

        # ---- build
        try:
            if mode == "cfg":
                cfg["init_offset"] = req
                bimg = BootableImage.load_from_config(cfg, search_paths=[self.mats.dir])
            elif mode == "setter":
                bimg = BootableImage.load_from_config(cfg, search_paths=[self.mats.dir])
                bimg.init_offset = req
            else:
                bimg = BootableImage.load_from_config(cfg, search_paths=[self.mats.dir])
                bimg.set_init_offset(BootableImageSegment.from_label(seg_at_req) if r.random() < 0.5 else req)
        except SPSDKError as e:
            ev.append({"ev": "Build", "refused": True, "eff": 0, "msg": str(e)[:160]})
            return tr
        except Exception as e:  # noqa: BLE001 - a crash is an observation: no action of the spec matches it
            ev.append({"ev": "Crash", "of": "Build", "exc": type(e).__name__, "msg": str(e)[:160]})
            return tr
        eff = bimg.init_offset
        ev.append({"ev": "Build", "refused": False, "eff": eff if isinstance(eff, int) else -999})
        res = self.observe(bimg, t, data, ev)           # ---- read the exported bytes
        if res is not None:
            self.parse_back(res[0], res[1], data, t, triple, ev)     # ---- parse the exported bytes back
        return tr

    def run_hist(self, hid, h, triple):
        """One history on ONE live object: create it from the configuration of the initial case, then apply the changes TLC chose
        through the public API (references to segment objects only from the public `segments` list), export / parse where TLC put them."""
        from spsdk.exceptions import SPSDKError
        from spsdk.image.bootable_image.bimg import BootableImage
        from spsdk.image.bootable_image.segments import BootableImageSegment

        fam, rev, mt, tb = triple
        t = self.tables[tb]
        r = rng(PROP, "hist", hid)
        use_yaml = r.random() < 0.25
        case = {"present": h["present"], "plen": h["plen"], "req": h["req"]}
        cfg, data, plen = self.payloads(case, triple, r, use_yaml)
        steps = [{k: s[k] for k in s if k not in ("place", "rest", "total")} for s in h["hist"] if s["a"] != "Build"]
        tr = {"id": hid, "tb": tb + 1, "present": case["present"], "plen": plen, "req": case["req"], "ev": [],
              "info": {"family": fam, "revision": rev, "mem_type": mt, "mode": "history", "lane": h.get("lane", ""), "yaml": use_yaml, "sig": t["sig"],
                       "config": {k: (os.path.basename(v) if isinstance(v, str) and os.sep in v else v) for k, v in cfg.items()},
                       "case": case, "hist": steps}}
        ev = tr["ev"]
        try:
            cfg["init_offset"] = case["req"]
            bimg = BootableImage.load_from_config(cfg, search_paths=[self.mats.dir])
        except SPSDKError as e:
            ev.append({"ev": "Build", "refused": True, "eff": 0, "msg": str(e)[:160]})
            return tr
        except Exception as e:  # noqa: BLE001
            ev.append({"ev": "Crash", "of": "Build", "exc": type(e).__name__, "msg": str(e)[:160]})
            return tr
        eff = bimg.init_offset
        ev.append({"ev": "Build", "refused": False, "eff": eff if isinstance(eff, int) else -999})
        handles = {}
        res = self.observe(bimg, t, data, ev, handles)
        if res is None:
            return tr
        parsed = None
        # where the content of a segment came from since its last clear(): "bin" (file with the bytes), "int", or - the segment holds the
        # container as an object - "yaml" (configuration file of the container) / "parsed"
        src = {i: ("int" if isinstance(cfg[t["segs"][i]["cfg"]], int) else "yaml" if str(cfg[t["segs"][i]["cfg"]]).endswith(".yaml") else "bin") for i in data}
        for s in steps:
            a = s["a"]
            try:
                if a == "SetInit":
                    q = s["req"]
                    seg_at = next((x["name"] for x in t["segs"] if x["off"] == q), None)
                    via = r.choice(("setter", "set_init_offset", "segment") if seg_at else ("setter", "set_init_offset"))
                    try:
                        if via == "setter":
                            bimg.init_offset = q
                        elif via == "set_init_offset":
                            bimg.set_init_offset(q)
                        else:
                            bimg.set_init_offset(BootableImageSegment.from_label(seg_at))
                    except SPSDKError as e:
                        ev.append({"ev": "SetInit", "req": q, "eff": -1, "refused": True, "via": via, "msg": str(e)[:160]})
                        return tr
                    eff = bimg.init_offset
                    ev.append({"ev": "SetInit", "req": q, "eff": eff if isinstance(eff, int) else -999, "refused": False, "via": via})
                elif a in ("SetSeg", "ClearSeg"):
                    i = s["i"] - 1
                    seg = handles.get(t["segs"][i]["name"])
                    if seg is None:     # cannot happen when the object showed what the R-spec says (the trace is rejected earlier then)
                        ev.append({"ev": "Crash", "of": a, "exc": "NoReference", "msg": t["segs"][i]["name"]})
                        return tr
                    if a == "ClearSeg":
                        seg.clear()
                        data.pop(i, None)
                        src.pop(i, None)
                        ev.append({"ev": "ClearSeg", "i": i + 1})
                    else:
                        # a container that is held as an object (configured from YAML, returned by parse) and replaced by a binary file keeps
                        # exporting the old object (known finding): mostly stay on the YAML path there, so that the rest of the history is reached
                        was = src.get(i, "none")
                        val, d = self.one_payload(triple, i, s["len"], r, r.random() < (0.75 if was in ("yaml", "parsed") else 0.25))
                        seg.load_config({t["segs"][i]["cfg"]: val}, search_paths=[self.mats.dir])
                        data[i] = d
                        now = "int" if isinstance(val, int) else "yaml" if val.endswith(".yaml") else "bin"
                        src[i] = was if (now == "bin" and was in ("yaml", "parsed")) else now     # "held as an object" lasts until clear() / a new YAML
                        ev.append({"ev": "SetSeg", "i": i + 1, "len": len(d), "was": was, "src": now})
                elif a == "Export":
                    eff = bimg.init_offset
                    ev.append({"ev": "Export", "eff": eff if isinstance(eff, int) else -999})
                    res = self.observe(bimg, t, data, ev, handles)
                    if res is None:
                        return tr
                elif a == "Parse":
                    parsed = self.parse_back(res[0], res[1], data, t, triple, ev)
                    if parsed is None:
                        return tr
                elif a == "Reparse":
                    bimg, got = parsed
                    data = dict(got)
                    src = dict.fromkeys(got, "parsed")
                    handles = {x.NAME.label: x for x in bimg.segments}
                    eff = bimg.init_offset
                    ev.append({"ev": "Reparse", "eff": eff if isinstance(eff, int) else -999})
                else:
                    raise Machinery(f"history step {a!r} is not known to the executor")
            except Machinery:
                raise
            except Exception as e:  # noqa: BLE001 - a crash of a mutator is an observation: no action of the spec matches it
                ev.append({"ev": "Crash", "of": a, "exc": type(e).__name__, "msg": str(e)[:160]})
                return tr
        return tr


def strip(t):
    return {k: t[k] for k in ("id", "tb", "present", "plen", "req", "ev", "kd") if k in t}      # kd: header of the lane "container kinds" only


# ------------------------------------------------------------------ verdict plumbing
def key_of(t, tables, matched):
    """Finding key derived from the witness: table signature, failing clause, input class (for a history: the changes since the last good export)."""
    tab = tables[t["tb"] - 1]
    sig = tab["sig"]
    at = min(matched, len(t["ev"]) - 1)
    ev = t["ev"][at]
    k = ev["ev"]
    names = [s["name"] for s in tab["segs"]]
    before = t["ev"][:at]

    def start_name(eff):
        if eff == 0:
            return "full"
        return next((s["name"] for s in tab["segs"] if s["off"] == eff), f"{eff:#x}")

    # the start the image has (as the object reported it last), the walk of the last export, the last parse
    effs = [e["eff"] for e in before if e["ev"] in ("Build", "SetInit", "Export", "Reparse") and "eff" in e]
    last_export = max([n for n, e in enumerate(before) if e["ev"] in ("Build", "Export")], default=0)
    walk = [e for e in before[last_export:] if e["ev"] == "Seg"] if before else []

    def start():
        return start_name(effs[-1] if effs else 0)

    # ---- a history: the classes of the changes made to the live object since its last accepted export
    muts, prev_eff = [], None
    for n, e in enumerate(t["ev"][:at + (1 if k in ("SetInit", "SetSeg", "ClearSeg", "Reparse") else 0)]):
        if e["ev"] in ("Build", "Export"):
            prev_eff = e.get("eff", 0)
            if any(x["ev"] == "End" for x in t["ev"][n:at]):       # this export was read to its end: the changes before it are not the cause
                muts = []
        elif e["ev"] == "SetInit":
            muts.append(f"SetInit:{start_name(prev_eff or 0)}->{start_name(e['eff']) if not e.get('refused') else 'refused'}")
            prev_eff = e["eff"]
        elif e["ev"] == "SetSeg":
            muts.append(f"SetSeg:{names[e['i'] - 1]}({'new' if e.get('was', 'none') == 'none' else 'replace'}:{e.get('was', 'none')}->{e.get('src', '?')})")
        elif e["ev"] == "ClearSeg":
            muts.append(f"ClearSeg:{names[e['i'] - 1]}")
        elif e["ev"] == "Reparse":
            muts.append("Reparse")
    mut = "+".join(muts)

    def hist(clause):
        return f"C14/{sig}/history/{mut}/{clause}" if mut else f"C14/{sig}/{clause}"

    if k == "Crash":
        if ev["of"] == "Parse":
            return f"C14/{sig}/parse/start={start()}/crash:{ev['exc']}"
        return hist(f"{ev['of'].lower()}/crash:{ev['exc']}")
    if k == "Build":
        if ev["refused"]:
            return f"C14/{sig}/build/refused"
        if ev["eff"] < 0:
            return f"C14/{sig}/build/init-offset-negative"
        return f"C14/{sig}/build/init-snap"
    if k == "SetInit":
        return hist("refused" if ev.get("refused") else "init-snap")
    if k in ("SetSeg", "ClearSeg", "Reparse", "Export"):
        return hist(k.lower())
    if k == "Gap":
        if not ev.get("restPat", True):     # the unused rest of the slot behind a short payload is not the device's pattern
            return hist(f"gap/slot-rest-not-pattern/{names[walk[-1]['i'] - 1] if walk else '?'}")
        return hist("gap/" + ("range" if ev["pat"] else "not-pattern"))
    if k == "Seg":
        cls = "bytes" if not ev["ok"] else "api-offset" if ev["apiOff"] != ev["at"] else "api-length" if ev["apiLen"] != ev["len"] else "offset"
        return hist(f"{names[ev['i'] - 1]}/{cls}")
    if k == "End":
        return hist("total-length")
    # ---- parse of an image the reader accepted: the same classes for cases and histories
    inc = "+".join(names[e["i"] - 1] + (">size" if 0 < tab["segs"][e["i"] - 1]["size"] < e["len"] else "") for e in walk)
    if k == "Parse":
        why = "refused"
        if not t.get("info", {}).get("selfparse", True):
            why = "refused/container-parser-refuses-own-export"
        return f"C14/{sig}/parse/start={start()}/{why}/inc={inc}"
    if k == "PSeg":
        p = next((e for e in reversed(before) if e["ev"] == "Parse"), None)
        if effs and p and p["init"] != effs[-1]:
            return f"C14/{sig}/parse/start={start()}/init-misdetected"       # the parser settled on another start than the image has
        cls = "missing" if not ev["present"] else "bytes" if not ev["prefixOk"] else "tail" if not ev["tailPat"] else "short"
        return f"C14/{sig}/parse/start={start()}/{names[ev['i'] - 1]}/{cls}"
    return f"C14/{sig}/{k}"


def validate(v, tables, table_file, traces):
    rej, res = tlc.tv("C14", "BimgTrace", [strip(t) for t in traces], env={"TABLE_FILE": table_file}, heap="6g", timeout=1200)
    v.traces(len(traces))
    v.extra["tv_states"] = v.extra.get("tv_states", 0) + res.distinct
    by_id = {t["id"]: t for t in traces}
    for tid, (matched, length, evname) in sorted(rej.items(), key=lambda x: str(x[0])):
        t = by_id[tid]
        ev = t["ev"][min(matched, len(t["ev"]) - 1)]
        info = t.get("info", {})
        done = [e for e in t["ev"][:matched + 1] if e["ev"] in ("SetInit", "SetSeg", "ClearSeg", "Reparse")]
        story = (" after " + " ; ".join(f"{e['ev']}({', '.join(f'{k}={e[k]}' for k in ('req', 'eff', 'i', 'len') if k in e)})" for e in done)) if done else ""
        kf = key_of
        if info.get("mode") == "kinds":
            import c14_kinds

            kf = c14_kinds.key_of
        v.violation(kf(t, tables, matched),
                    f"{info.get('family')}/{info.get('revision')}/{info.get('mem_type')} [{info.get('mode')}] present={t['present']} plen={t['plen']} "
                    f"req={t['req']:#x}{story}: event #{matched + 1} ({evname}) is not the reader's next step: {json.dumps(ev)[:300]}",
                    {"trace": t, "table": tables[t["tb"] - 1], "failed_event": matched + 1})
    return rej


def synthetic_trace(case, tid):
    """The trace a correct implementation produces for a GEN case, built from the placement TLC emitted with the case."""
    ev = [{"ev": "Build", "refused": False, "eff": case["eff"]}]
    cur = 0
    inc = [(i, p) for i, p in enumerate(case["place"]) if p[0] >= 0]
    rest = 0
    for i, (off, n) in inc:
        if off > cur:
            ev.append({"ev": "Gap", "from": cur, "to": off, "rest": rest, "restPat": True, "pat": True})
        ev.append({"ev": "Seg", "i": i + 1, "at": off, "len": n, "ok": True, "apiOff": off, "apiLen": n})
        cur = off + n
        rest = case["rest"][i]          # as the spec emitted it with the case
    ev.append({"ev": "End", "total": case["total"], "apiLen": case["total"]})
    ev.append({"ev": "Parse", "ok": True, "init": case["eff"]})
    for i, (off, n) in inc:
        ev.append({"ev": "PSeg", "i": i + 1, "present": True, "plen": n, "prefixOk": True, "tailPat": True})
    ev.append({"ev": "Done"})
    return {"id": tid, "tb": case["tb"], "present": case["present"], "plen": case["plen"], "req": case["req"], "ev": ev}


def synthetic_hist_trace(h, tables, tid):
    """The trace a correct implementation produces for a GEN history, built from the placements TLC emitted with every export."""
    segs = tables[h["tb"] - 1]["segs"]
    ev = []
    place, eff = None, 0

    def walk(s):
        cur = rest = 0
        for i, (off, n) in enumerate(s["place"]):
            if off < 0:
                continue
            if off > cur:
                ev.append({"ev": "Gap", "from": cur, "to": off, "rest": rest, "restPat": True, "pat": True})
            ev.append({"ev": "Seg", "i": i + 1, "at": off, "len": n, "ok": True, "apiOff": off, "apiLen": n})
            cur = off + n
            rest = s["rest"][i]
        ev.append({"ev": "End", "total": s["total"], "apiLen": s["total"]})

    for s in h["hist"]:
        a = s["a"]
        if a == "Build":
            ev.append({"ev": "Build", "refused": False, "eff": s["eff"]})
        elif a == "Export":
            ev.append({"ev": "Export", "eff": s["eff"]})
        if a in ("Build", "Export"):
            walk(s)
            place, eff = s["place"], s["eff"]
        elif a == "SetInit":
            ev.append({"ev": "SetInit", "req": s["req"], "eff": s["eff"], "refused": False})
        elif a == "SetSeg":
            ev.append({"ev": "SetSeg", "i": s["i"], "len": s["len"]})
        elif a == "ClearSeg":
            ev.append({"ev": "ClearSeg", "i": s["i"]})
        elif a == "Parse":
            ev.append({"ev": "Parse", "ok": True, "init": eff})
            for i, (off, n) in enumerate(place):
                if off >= 0:    # what the generator assumes parse returns: the payload, a fixed-size block filled up to its size
                    ev.append({"ev": "PSeg", "i": i + 1, "present": True, "plen": max(n, segs[i]["size"]), "prefixOk": True, "tailPat": True})
            ev.append({"ev": "Done"})
        elif a == "Reparse":
            ev.append({"ev": "Reparse", "eff": s["eff"]})
        else:
            raise Machinery(f"history step {a!r} is not known")
    return {"id": tid, "tb": h["tb"], "present": h["present"], "plen": h["plen"], "req": h["req"], "ev": ev}


def hist_canaries(hists, tables):
    """Spec-generated history traces (accepted) and corruptions of them that behave like an object which forgot / ignored a change."""
    variants, want = [], set()

    def steps(h):
        return [s["a"] for s in h["hist"]]

    def exports(h):
        return [s for s in h["hist"] if s["a"] in ("Build", "Export")]

    def pick(what, cond):
        h = next((h for h in hists if cond(h)), None)
        if h is None:
            raise Machinery(f"no generated history for the canary '{what}'")
        return h

    def last_walk(ev):
        k = max(n for n, e in enumerate(ev) if e["ev"] in ("Build", "Export"))
        return k + 1, next(n for n in range(k + 1, len(ev)) if ev[n]["ev"] == "End") + 1

    def prev_walk(ev):
        ks = [n for n, e in enumerate(ev) if e["ev"] in ("Build", "Export")]
        return ks[-2] + 1, next(n for n in range(ks[-2] + 1, len(ev)) if ev[n]["ev"] == "End") + 1

    def variant(h, name, fn=None):
        t = synthetic_hist_trace(h, tables, name)
        if fn is not None:
            fn(t["ev"])
            want.add(name)
        variants.append(t)

    def stale(ev):        # the object did not react to the last change: the export is the one before the change
        a, b = last_walk(ev)
        c, d = prev_walk(ev)
        ev[a:b] = [dict(e) for e in ev[c:d]]

    def lost(ev):         # the segments in front of the former start stay left out (first segment of the last walk missing)
        a, b = last_walk(ev)
        ev.remove(next(e for e in ev[a:b] if e["ev"] == "Seg"))

    def bump(kind, field, by):
        def fn(ev):
            e = [x for x in ev if x["ev"] == kind][-1]
            e[field] = e[field] + by
        return fn

    # back to the full image: something that was left out is part of the image again
    back = pick("start moved back to 0", lambda h: h["lane"] != "sim" and steps(h)[-2:] == ["SetInit", "Export"] and h["hist"][-2]["eff"] == 0
                and len(exports(h)) >= 2 and exports(h)[-2]["eff"] > 0 and exports(h)[-2]["place"][0][0] < 0 <= exports(h)[-1]["place"][0][0])
    variant(back, "hcanary-back-good")
    variant(back, "hcanary-back-stale", stale)
    variant(back, "hcanary-back-lost-segment", lost)
    variant(back, "hcanary-back-eff", bump("SetInit", "eff", 1024))
    variant(back, "hcanary-back-export-eff", bump("Export", "eff", 1))
    up = pick("start moved up", lambda h: h["lane"] != "sim" and steps(h)[-2:] == ["SetInit", "Export"] and len(exports(h)) >= 2
              and h["hist"][-2]["eff"] > exports(h)[-2]["eff"])
    variant(up, "hcanary-up-good")
    variant(up, "hcanary-up-stale", stale)
    rep = pick("segment replaced", lambda h: h["lane"] != "sim" and steps(h)[-2:] == ["SetSeg", "Export"] and len(exports(h)) >= 2
               and exports(h)[-2]["place"][h["hist"][-2]["i"] - 1][1] not in (0, h["hist"][-2]["len"]) and exports(h)[-2]["place"] != exports(h)[-1]["place"])
    variant(rep, "hcanary-replace-good")
    variant(rep, "hcanary-replace-stale", stale)
    variant(rep, "hcanary-replace-len", bump("SetSeg", "len", 1))
    clr = pick("segment cleared", lambda h: h["lane"] != "sim" and steps(h)[-2:] == ["ClearSeg", "Export"] and len(exports(h)) >= 2
               and exports(h)[-2]["place"] != exports(h)[-1]["place"])
    variant(clr, "hcanary-clear-good")
    variant(clr, "hcanary-clear-stale", stale)
    par = pick("parsed object", lambda h: h["lane"] == "parsed" and steps(h)[-2:] == ["SetInit", "Export"] and exports(h)[-2]["place"] != exports(h)[-1]["place"])
    variant(par, "hcanary-parsed-good")
    variant(par, "hcanary-parsed-stale", stale)
    variant(par, "hcanary-parsed-eff", bump("Reparse", "eff", 512))
    variant(par, "hcanary-parsed-short", lambda ev: next(e for e in ev if e["ev"] == "PSeg").update(plen=0))
    return variants, want


def canary(cases, table_file, hists=None, tables=None, kinds=None):
    """A known-good trace (built from a case and the placement the spec itself emitted - independent of SPSDK) must be accepted,
    and rejected after corrupting one logged number / fact.  The same for histories: spec-generated history traces are accepted,
    the traces of an object that ignores / half-applies the last change are rejected."""
    case = next((c for c in cases if not c["refused"] and c["eff"] > 0 and sum(1 for p in c["place"] if p[0] >= 0) >= 2
                 and any(p[0] > 0 for p in c["place"]) and c["total"] > sum(p[1] for p in c["place"])), None)
    if case is None:
        raise Machinery("no case with a later start, two segments and a gap for the canary")
    variants = []

    def variant(name, fn):
        t = synthetic_trace(case, name)
        fn(t["ev"])
        variants.append(t)

    first = lambda ev, k, cond=lambda e: True: next(e for e in ev if e["ev"] == k and cond(e))  # noqa: E731
    variant("canary-good", lambda ev: None)
    variant("canary-offset", lambda ev: first(ev, "Seg", lambda e: e["at"] > 0).update(at=first(ev, "Seg", lambda e: e["at"] > 0)["at"] + 1))
    variant("canary-api-offset", lambda ev: first(ev, "Seg").update(apiOff=first(ev, "Seg")["apiOff"] + 1))
    variant("canary-bytes", lambda ev: first(ev, "Seg").update(ok=False))
    variant("canary-gap", lambda ev: first(ev, "Gap").update(pat=False))
    variant("canary-total", lambda ev: first(ev, "End").update(total=first(ev, "End")["total"] + 4))
    variant("canary-parse", lambda ev: [e for e in ev if e["ev"] == "PSeg"][-1].update(prefixOk=False))
    variant("canary-eff", lambda ev: ev[0].update(eff=ev[0]["eff"] + 1024))
    variant("canary-refused", lambda ev: (ev[0].update(refused=True), ev.__delitem__(slice(1, None))))
    variant("canary-missing-segment", lambda ev: ev.remove(first(ev, "Seg")))
    # the rest of a slot behind a short payload, on a device of either fill pattern: a trace whose slot rest is not the pattern, is not
    # recognised as a slot rest (rest = 0) or has another length is rejected
    good = {"canary-good"}
    for pname, pval in sorted(PATTERNS.items()):
        if tables is None or not any(t["pat"] == pval and any(s["fixed"] for s in t["segs"]) for t in tables):
            continue        # the device database knows no fixed-size segment on a device with this pattern
        case = next((c for c in cases if not c["refused"] and tables[c["tb"] - 1]["pat"] == pval
                     and any(x > 0 and tables[c["tb"] - 1]["segs"][i]["fixed"] for i, x in enumerate(c["rest"]))), None)
        if case is None:
            raise Machinery(f"no case with a payload shorter than its slot on a table with pattern '{pname}' for the canary")
        rested = lambda e: e["rest"] > 0  # noqa: E731
        variant(f"canary-slot-{pname}-good", lambda ev: None)
        good.add(f"canary-slot-{pname}-good")
        variant(f"canary-slot-{pname}-rest-not-pattern", lambda ev: first(ev, "Gap", rested).update(restPat=False, pat=False))
        variant(f"canary-slot-{pname}-rest-unseen", lambda ev: first(ev, "Gap", rested).update(rest=0))
        variant(f"canary-slot-{pname}-rest-length", lambda ev: first(ev, "Gap", rested).update(rest=first(ev, "Gap", rested)["rest"] + 1))
    want = {x["id"] for x in variants} - good
    n_good = len(good)
    if hists:
        hv, hwant = hist_canaries(hists, tables)
        variants += hv
        want |= hwant
        n_good += len(hv) - len(hwant)
    if kinds:       # the lane "container kinds": (spec-generated cases, offers)
        import c14_kinds

        kv, kwant = c14_kinds.canary_traces(kinds[0], kinds[1], tables)
        variants += kv
        want |= kwant
        n_good += len(kv) - len(kwant)
    rej, _ = tlc.tv("C14", "BimgTrace", variants, env={"TABLE_FILE": table_file})
    if set(rej) != want:
        raise Machinery(f"canary failed: rejected {sorted(rej)}, expected exactly {sorted(want)}")
    return (f"{n_good} spec-generated traces accepted; {len(want)} corruptions of them rejected "
            f"({', '.join(sorted(x.split('canary-', 1)[1] for x in want))})")


def plan(tier, cases, tables, triples, r):
    """Assign cases to (family, revision, memory type) triples. Every triple gets cases; thorough: every case is executed."""
    by_tb = {}
    for tr in triples:
        by_tb.setdefault(tr[3], []).append(tr)
    cases_tb = {}
    for c in cases:
        cases_tb.setdefault(c["tb"] - 1, []).append(c)
    jobs = []
    for tb, trs in sorted(by_tb.items()):
        cs = list(cases_tb.get(tb, []))
        if not cs:
            raise Machinery(f"GEN emitted no case for table {tables[tb]['sig']}")
        r.shuffle(cs)
        every = list(cs)
        trs = list(trs)
        r.shuffle(trs)
        if tier == "quick":
            # every case with the full image (start 0: all subsets x all lengths of the small menu), and for the later starts one
            # length assignment per (start, presence vector); then at least one case per triple
            chosen, seen = [], set()
            for c in cs:
                feat = (c["req"], tuple(c["present"]))
                if c["req"] == 0 or feat not in seen:
                    seen.add(feat)
                    chosen.append(c)
            rest = [c for c in cs if c["req"] != 0 and c not in chosen]
            n = max(len(chosen), len(trs))
            while len(chosen) < n and rest:
                chosen.append(rest.pop())
            k = 0
            while len(chosen) < n:          # tiny tables: reuse cases so that every triple is exercised
                chosen.append(cs[k % len(cs)])
                k += 1
            cs = chosen
        else:
            k = 0
            while len(cs) < 3 * len(trs):
                cs.append(cs[k])
                k += 1
        mine = [(c, trs[n % len(trs)]) for n, c in enumerate(cs)]
        # the fill pattern is a property of the DEVICE: every (family, revision, memory type) whose table has a fixed-size segment gets at least one
        # case in which a payload is shorter than its slot and the rest of the slot is gap (small tables with many devices would leave most out)
        rested = [c for c in every if slot_rest_case(c, tables)]
        if rested:
            have = {tr for c, tr in mine if slot_rest_case(c, tables)}
            for k, tr in enumerate(t for t in trs if t not in have):
                mine.append((rested[k % len(rested)], tr))
        jobs += mine
    return jobs


def slot_rest_case(c, tables):
    """Does the image of this case (as TLC emitted it) have a gap that is the unused rest of the slot of a fixed-size segment?"""
    return not c["refused"] and any(x > 0 and tables[c["tb"] - 1]["segs"][i]["fixed"] for i, x in enumerate(c["rest"]))


def final_coverage(out):
    """Action -> generated states, from the LAST coverage report of a TLC run (a run longer than a minute prints interim reports as well,
    which lib.tlc adds up)."""
    import re

    last = out.rsplit("The coverage statistics at", 1)[-1]
    cov = {}
    for name, n in re.findall(r"^<(\w+) line \d+, col \d+ to line \d+, col \d+ of module \w+>: \d+:(\d+)", last, re.M):
        cov[name] = cov.get(name, 0) + int(n)
    return cov


def class_coverage(cases, jobs, tables):
    """Every length class (short / nominal / long) of every fixed-size segment of every table - hence with every fill pattern the device
    database has for that segment kind - and, for the short class, a case in which the rest of the slot is gap, must be among the cases that
    are EXECUTED (classes and slot rests as TLC emitted them with the cases).  -> executed cases per pattern / segment kind / class."""
    def items(c):
        if c["refused"]:
            return
        for i, s in enumerate(tables[c["tb"] - 1]["segs"]):
            if s["fixed"] and c["place"][i][0] >= 0:
                yield (c["tb"] - 1, i, c["cls"][i])
                if c["rest"][i] > 0:
                    yield (c["tb"] - 1, i, "short+rest-is-gap")

    need = {}
    for c in cases:
        for k in items(c):
            need[k] = 0
    for c, _ in jobs:
        for k in items(c):
            need[k] += 1
    missing = sorted(f"{tables[tb]['sig']}:{tables[tb]['segs'][i]['name']}:{cl}" for (tb, i, cl), n in need.items() if n == 0)
    if missing:
        raise Machinery(f"length classes of fixed-size segments that no executed case reaches: {missing}")
    names = {v: k for k, v in PATTERNS.items()}
    out = {}
    for (tb, i, cl), n in sorted(need.items()):
        d = out.setdefault(names[tables[tb]["pat"]], {}).setdefault(tables[tb]["segs"][i]["name"], {})
        d[cl] = d.get(cl, 0) + n
    for pat, kinds in out.items():
        for kind, d in kinds.items():
            if not {"short", "nominal", "short+rest-is-gap"} <= set(d):
                raise Machinery(f"fixed-size segment {kind} on devices with pattern {pat}: executed length classes are only {sorted(d)}")
    # ... and on every device (family, revision, memory type) whose table has a fixed-size segment
    devs = {}
    for c, tr in jobs:
        if any(s["fixed"] for s in tables[tr[3]]["segs"]):
            devs[tr[:3]] = devs.get(tr[:3], False) or slot_rest_case(c, tables)
    left = sorted("/".join(d) for d, ok in devs.items() if not ok)
    if left:
        raise Machinery(f"devices with a fixed-size segment on which no executed case leaves the rest of a slot as gap: {left}")
    for pat, val in PATTERNS.items():
        out.setdefault(pat, {})["devices with a short payload in a slot"] = len({tr[:3] for c, tr in jobs if tables[tr[3]]["pat"] == val and slot_rest_case(c, tables)})
    return out


HIST_STEPS = ("SetInit", "SetSeg", "ClearSeg", "Export", "Parse", "Reparse")


def gen_histories(v, tier, tables, table_file):
    """TLC generates the histories of one live object (BimgHistGen): exhaustive lanes + a simulated lane; the lemmas of Bimg / BimgHist
    are checked on every state of every history."""
    quick = tier == "quick"
    inv = ("HTypeOK", "CaseOK", "NoOverlap", "StartsWhereTold", "DynamicFollows", "InitSnap", "FirstAtZero", "CursorMonotone", "TotalIsEnd")
    runs = [  # (lanes: changes per history, snapping starts in the menu, simulate, created with: every start / as a full image only)
        ({"all": 2, "parsed": 2}, False, None, "all"),
        ({"sim": 6}, True, "num=66", "all") if quick else ({"sim": 10}, True, "num=600", "all"),
    ]
    if not quick:
        runs.insert(1, ({"all": 3, "parsed": 3}, False, None, "zero"))   # three changes: from the full image (the first change moves the start anywhere)
        runs.insert(2, ({"init": 2}, True, None, "all"))                 # every pair of init offset changes incl. the snapping starts (one below a segment)
    hists = []
    for lanes, snap, sim, r0 in runs:
        env = {"TABLE_FILE": table_file, "H_SNAP": "1" if snap else "0", "H_R0": r0}
        env.update({f"H_D_{x.upper()}": lanes.get(x, 0) for x in ("init", "all", "parsed", "sim")})
        if sim:
            res = tlc.run("C14", "BimgHistGen", "BimgHistGen.cfg", env=env, workers=1, deadlock=False, heap="6g", timeout=900, simulate=sim, depth=40 * max(lanes.values()))
            if res.violated or "Error:" in res.out:
                raise Machinery(f"simulation of BimgHistGen did not pass: {res.violated}\n" + "\n".join(res.out.splitlines()[-40:]))
        else:
            res = tlc.mc("C14", "BimgHistGen", "BimgHistGen.cfg", env=env, workers=8, deadlock=False, heap="6g", timeout=1500, coverage=False)
            v.add_mc(res)
        got = res.json_prints()
        if not got:
            raise Machinery(f"BimgHistGen emitted no history for lanes {lanes}")
        hists += got
    # deterministic order (TLC's workers print in any order), duplicates of the simulated lane dropped
    uniq = {}
    for h in hists:
        uniq.setdefault(json.dumps(h, sort_keys=True), h)
    hists = [uniq[k] for k in sorted(uniq)]
    fires = dict.fromkeys(HIST_STEPS, 0)
    for h in hists:
        for s in h["hist"]:
            if s["a"] in fires:
                fires[s["a"]] += 1
    if min(fires.values()) == 0 or len({h["tb"] for h in hists}) != len(tables):
        raise Machinery(f"history generation is vacuous: steps {fires}, {len({h['tb'] for h in hists})} of {len(tables)} tables")
    v.extra["history_lanes"] = {x: sum(1 for h in hists if h["lane"] == x) for x in sorted({h["lane"] for h in hists})}
    v.extra["history_steps"] = fires
    v.extra["history_invariants"] = list(inv)
    return hists


def plan_hist(hists, tables, triples, r):
    """Every generated history is executed; the triples of its table take turns (every triple gets at least one history)."""
    by_tb = {}
    for tr in triples:
        by_tb.setdefault(tr[3], []).append(tr)
    hs_tb = {}
    for h in hists:
        hs_tb.setdefault(h["tb"] - 1, []).append(h)
    jobs = []
    for tb, trs in sorted(by_tb.items()):
        hs = list(hs_tb[tb])
        trs = list(trs)
        r.shuffle(hs)
        r.shuffle(trs)
        for n in range(max(len(hs), len(trs))):
            jobs.append((hs[n % len(hs)], trs[n % len(trs)]))
    return jobs


def run(tier):
    import_spsdk()
    v = Verdict(PROP, tier)
    r = rng(PROP)
    tables, triples = inventory()
    mats = Materials()
    mats.prepare(tables, triples)
    table_menus(tables, triples, mats, small=(tier == "quick"))
    table_file = os.path.join(scratch(), "c14-tables.json")
    json.dump(tables, open(table_file, "w"))
    say(f"[C14] {len(triples)} (family, revision, memory type) triples, {len(tables)} distinct segment tables, payloads built ({v.timer.s()}s)")

    # ---- MC + GEN
    actions = ("GRefuse", "GBuild", "Gap", "Seg", "End", "Parse", "ParseSeg", "Done")
    quick = tier == "quick"
    mc = tlc.mc("C14", "BimgMC", "BimgMC.cfg", env={"TABLE_FILE": table_file, "GEN_FULL": "0" if quick else "1"}, workers=8, deadlock=False, heap="6g",
                timeout=900, coverage=not quick, require_actions=() if quick else actions)
    v.add_mc(mc)
    cases = sorted(mc.json_prints(), key=lambda c: json.dumps(c, sort_keys=True))     # TLC's workers print in any order
    if len(cases) < 1000 or len({c["tb"] for c in cases}) != len(tables):
        raise Machinery(f"GEN emitted {len(cases)} cases for {len({c['tb'] for c in cases})} of {len(tables)} tables")
    # non-vacuity without TLC's (expensive) coverage option: every case is a deterministic walk, so the number of times each action
    # fires follows from the emitted placements, and the sum must be exactly TLC's number of distinct states
    fires = dict.fromkeys(actions, 0)
    for c in cases:
        if c["refused"]:
            fires["GRefuse"] += 1
            continue
        fires["GBuild"] += 1
        cur = 0
        for off, n in (p for p in c["place"] if p[0] >= 0):
            fires["Gap"] += off > cur
            fires["Seg"] += 1
            fires["ParseSeg"] += 1
            cur = off + n
        for a in ("End", "Parse", "Done"):
            fires[a] += 1
    if mc.distinct != len(cases) + sum(fires.values()) or min(fires.values()) == 0:
        raise Machinery(f"state count {mc.distinct} does not match the walks of the {len(cases)} emitted cases ({fires}): vacuous or duplicated actions")
    if not quick and any(final_coverage(mc.out).get(a, 0) != n for a, n in fires.items()):
        raise Machinery(f"TLC coverage {final_coverage(mc.out)} differs from the walks of the emitted cases {fires}")
    v.extra["action_firings"] = fires
    say(f"[C14] MC/GEN: {mc.distinct} states, {len(cases)} cases, lemmas hold, every action fires ({v.timer.s()}s)")

    # ---- execute on the real BootableImage
    jobs = plan(tier, cases, tables, triples, r)
    v.extra["fixed_size_length_classes_executed"] = class_coverage(cases, jobs, tables)
    ex = Exec(tables, mats)
    jobs = [(n, c, tr, MODES[n % len(MODES)]) for n, (c, tr) in enumerate(jobs)]
    traces = pmap(lambda j: ex.run(*j), jobs, chunksize=4)
    def selfparse(t):      # does the family's own container parser accept the containers that were built for it?
        fam, rev, mt = t["info"]["family"], t["info"]["revision"], t["info"]["mem_type"]
        tab = tables[t["tb"] - 1]
        last = max(i for i, p in enumerate(t["present"]) if p and tab["segs"][i]["name"] in CONTAINERS and tab["segs"][i]["off"] >= 0)
        return all(m["selfparse"] for m in mats.get(fam, rev, mt, tab, last))

    for t in traces:
        t["info"]["selfparse"] = selfparse(t)
    v.count(len(traces))
    covered = {(t["info"]["family"], t["info"]["revision"], t["info"]["mem_type"]) for t in traces}
    if len(covered) != len(triples):
        raise Machinery(f"only {len(covered)} of {len(triples)} triples were exercised")
    for t in traces:
        if any(e["ev"] == "Seg" for e in t["ev"]) or (t["ev"] and t["ev"][0].get("refused")):
            v.nontrivial(json.dumps([t["info"]["family"], t["info"]["revision"], t["info"]["mem_type"], t["present"], t["plen"], t["req"], t["info"]["mode"]]))
    for t in (traces[0], traces[len(traces) // 2], traces[-1]):
        v.sample({k: t[k] for k in ("tb", "present", "plen", "req", "ev", "info")})
    say(f"[C14] {len(traces)} cases executed on {len(covered)} triples ({v.timer.s()}s)")

    # ---- histories of ONE live object: generated by TLC, executed on the real object, every step decided by TLC
    hists = gen_histories(v, tier, tables, table_file)
    say(f"[C14] history GEN: {len(hists)} histories {v.extra['history_lanes']}, steps {v.extra['history_steps']}, lemmas hold ({v.timer.s()}s)")
    hjobs = [(f"h{n}", h, tr) for n, (h, tr) in enumerate(plan_hist(hists, tables, triples, rng(PROP, "hist-plan")))]
    htraces = pmap(lambda j: ex.run_hist(*j), hjobs, chunksize=4)
    for t in htraces:
        t["info"]["selfparse"] = selfparse(t)
    v.count(len(htraces))
    hcovered = {(t["info"]["family"], t["info"]["revision"], t["info"]["mem_type"]) for t in htraces}
    if len(hcovered) != len(triples):
        raise Machinery(f"only {len(hcovered)} of {len(triples)} triples were exercised by a history")
    changed = 0
    for t in htraces:
        n = sum(1 for e in t["ev"] if e["ev"] in ("SetInit", "SetSeg", "ClearSeg", "Reparse"))
        if n and any(e["ev"] == "Export" for e in t["ev"]):
            changed += 1
            v.nontrivial(json.dumps([t["info"]["family"], t["info"]["revision"], t["info"]["mem_type"], t["info"]["case"], t["info"]["hist"]]))
    if changed < len(htraces) // 2:
        raise Machinery(f"only {changed} of {len(htraces)} histories changed the live object and exported it again")
    v.sample({k: htraces[len(htraces) // 3][k] for k in ("tb", "present", "plen", "req", "ev", "info")})
    v.extra["histories_executed"] = len(htraces)
    say(f"[C14] {len(htraces)} histories executed on {len(hcovered)} triples ({v.timer.s()}s)")

    # ---- application containers of every kind the family supports, as a binary and as a YAML configuration, through the API and the command
    import c14_kinds

    ktraces, kcases, koffers = c14_kinds.run_lane(v, tier, tables, triples, mats, table_file)
    v.extra["canary"] = canary(cases, table_file, hists, tables, (kcases, koffers))
    validate(v, tables, table_file, traces + htraces + ktraces)
    parsed = sum(1 for t in traces if t["ev"][-1]["ev"] == "Done")
    v.extra["parsed_back_completely"] = parsed
    v.extra["tables"] = [t["sig"] for t in tables]
    v.extra["material_notes"] = mats.notes
    v.cov["exhaustive"] = tier == "thorough"
    v.cov["checker_cmd"] = ("TLC BimgMC (lemmas over all cases of all tables, case emission) ; TLC BimgHistGen (lemmas over all states of all histories, "
                            "history emission; -simulate for the long lane) ; TLC BimgKinds (lemmas over all walks of container kind x form x route x start, case emission) ; "
                            "TLC BimgTrace (decides every executed case and history)")
    v.cov["rule"] = (
        f"cases = initial states of BimgMC: for each of the {len(tables)} distinct segment tables of the device database, every subset of optional "
        "segments x payload length menu (every fixed-size segment kind - key blob, key store, BEE header, FCB - in the three length classes shorter than its slot "
        "(1 byte resp. 5/8 of an FCB; size-1), nominal, longer (up to the next table offset, where there is room), on every table = with both fill patterns (zeros, ones) "
        "the database has for the kind; three real container sizes; shortest / middle / longest XMCD block) x requested start "
        "(0, every static segment start, one below, one above); thorough executes every case of the full menu (each on at least one triple of its table, triples taken in rotation so that every "
        "triple gets at least three cases); quick uses the menu without "
        "'size-1' / most 'one below' starts and executes every case with start 0 plus one length assignment per (start, subset), at least one case "
        "per (family, revision, memory type), and on every (family, revision, memory type) whose table has a fixed-size segment at least one case whose payload is shorter "
        "than its slot (rest of the slot = gap, compared byte by byte with the device's pattern); a case is non-trivial if the real image was built and "
        "read (or the build was refused); distinct by (triple, case, API path). "
        "histories = behaviours of BimgHistGen on ONE live object created with every optional segment, from every requested start (0 and every static segment start): "
        + ("every sequence of 2 changes (init offset to every other start / payload of a segment supplied, replaced by the other length of the history menu, cleared) "
           "with an export after each, the same after the object was replaced by the parse of its own export, every sequence of 3 such changes on an object created as a "
           "full image, every sequence of 2 init offset changes incl. the "
           "snapping ones (one below a segment start), 600 simulated histories of 10 changes with exports / parses anywhere"
           if tier == "thorough" else
           "every sequence of 2 changes (init offset to every other start / payload of a segment supplied, replaced by the other length of the history menu, cleared) "
           "with an export after each, the same after the object was replaced by the parse of its own export, 66 simulated histories of 6 changes (snapping starts, "
           "exports / parses anywhere)")
        + "; every generated history is executed, triples of a table in rotation (every triple at least one history); after every export TLC walks the image "
        "of the CURRENT case; a history is non-trivial if the live object was changed at least once and exported again, distinct by (triple, initial case, history). "
        "container kinds = initial states of BimgKinds: offers (one container kind of one device: every (execution target, authentication type) image of the family's MBI "
        "table - plain, CRC, signed with certificate block v1 RSA / v2.1 ECDSA, NXP-signed, encrypted+signed -, HAB plain, AHAB unsigned / signed; payload = the standalone "
        "export of the container's configuration through the public builder) x form (binary file / YAML configuration of the container) x route (load_from_config + export / "
        "nxpimage bootable-image merge) x requested start (0 / the container's offset); "
        + ("every (family, table, construction) on one revision of the family, every generated case executed"
           if tier == "thorough" else
           "one device (drawn with the seed) per distinct construction (kind x image type x export mixins) plus one per kind whose container does not lie at offset 0; executed: "
           "YAML form on both routes as a full image, YAML form through the API as an image that starts at the container, binary form through the API")
        + "; non-trivial if the container was located in the exported bytes, distinct by (device, kind, form, route, start)")
    v.assumptions += [
        "application containers are mandatory, the secondary container set and all header blocks except the image version are optional",
        "payloads differ from the fill pattern in their first and last byte (an all-pattern block is indistinguishable from an absent one; the image version word "
        "that the parser returns for an image without one - 4 fill bytes - is read as gap)",
        "a fixed-size block (key blob, key store, BEE header, FCB) longer than its nominal size is placed and checked for overlap, but its parse result is not asserted",
        "a payload shorter than the nominal size of its segment occupies exactly its bytes; the rest of the slot is gap (device pattern) - asserted byte-exactly in the "
        "exported image and in the tail of the parsed segment, on devices with either fill pattern; a short FCB keeps its header and look-up table (5/8 of the block)",
        "requested starts inside the dynamic part of a table (behind the last static offset) and negative starts are outside the asserted domain",
        "segment sizes and the alignment of dynamic segments (1024) are read from the segment classes at run time; offsets and the fill pattern from the device database",
        "the init_offset spelled as a segment NAME in a configuration file is refused by the schema (format: number) although load_from_config handles it: observation, not asserted",
        "cases and histories: containers are unsigned / CRC images built through the public MBI, HAB and AHAB builders; SB2.1 / SB3.1 files are golden binaries (anchors/C14); "
        "the other container kinds are the subject of the lane 'container kinds' (fresh object, no histories)",
        "container kinds: a deterministic construction (plain, CRC, RSA PKCS#1 v1.5 signature, AES-CTR with the configured counter) must give the bytes of the standalone export; "
        "a container with a randomised signature (ECDSA, RSA-PSS: MBI certificate block v2.1 without ISK certificate, signed AHAB) must be as long, equal outside the signature, "
        "and its signature must verify over the bytes found in the image (cryptography primitives; AHAB: the acceptance reader of C06 takes the same steps with the same facts)",
        "container kinds: the parse of an image with an ENCRYPTED MBI is not asserted (the parser is not given the key); authenticated / encrypted HAB containers (CSF with CMS "
        "signatures that carry the signing time) and MBI certificate blocks with an ISK certificate are not in the lane - the composition lane sys_bimgrom merges authenticated "
        "HAB containers from YAML and walks them with the HAB reader of C07",
        "histories: a live object is changed only through the public API (init_offset setter, set_init_offset, load_config / clear of segment objects taken from the "
        "public `segments` list, parse of its own export); a refused init offset, clearing the application container or the image version and a floating segment "
        "without its predecessor are not part of a history (what the object is afterwards is not settled by the property)",
    ]
    return v.finish()


def replay(path):
    import_spsdk()
    body = json.load(open(path))
    w = body["witness"]
    t0 = w["trace"]
    info = t0["info"]
    tables, triples = inventory()
    triple = next((tr for tr in triples if tr[:3] == (info["family"], info["revision"], info["mem_type"])), None)
    if triple is None or tables[triple[3]]["sig"] != info["sig"]:
        say(f"replay: {info['family']}/{info['revision']}/{info['mem_type']} with table {info['sig']} no longer exists in the device database")
        return 2
    tb = triple[3]
    first = {}
    for tr in triples:
        first.setdefault(tr[3], tr)
    mats = Materials()
    mats.prepare(tables, list(first.values()) + [triple])
    table_menus(tables, triples, mats, small=(body.get("tier") == "quick"))
    table_file = os.path.join(scratch(), "c14-tables.json")
    json.dump(tables, open(table_file, "w"))
    if info.get("mode") == "kinds":         # the same kind / form / route / start on the same device
        import c14_kinds

        t = c14_kinds.replay_case(t0, tables, triple, mats)
        if t is None:
            say(f"replay: the container kind {info.get('kind')} can no longer be built standalone for {info['family']}")
            return 2
        say(json.dumps({k: t[k] for k in ("present", "plen", "req", "kd", "ev")})[:3000])
        rej, _ = tlc.tv("C14", "BimgTrace", [strip(t)], env={"TABLE_FILE": table_file})
        if rej:
            m = list(rej.values())[0][0]
            say(f"VIOLATION property=C14 replay={path}")
            say(f"  key={c14_kinds.key_of(t, tables, m)} rejected at event #{m + 1}: {json.dumps(t['ev'][min(m, len(t['ev']) - 1)])[:300]}")
            return 1
        say("replay: trace accepted by the spec")
        return 0
    if info.get("mode") == "history":       # the history as TLC emitted it, on the same triple
        t = Exec(tables, mats).run_hist(t0["id"], dict(info["case"], hist=info["hist"], lane=info.get("lane", "")), triple)
        t["info"]["selfparse"] = info.get("selfparse", True)
        return replay_verdict(path, t, tables, table_file)
    # the case as TLC emitted it: lengths of the table's menu (the executor maps them to this family's payloads)
    old = w["table"]["segs"]
    plen = []
    for i, n in enumerate(t0["plen"]):
        lens = tables[tb]["segs"][i]["lens"]
        k = old[i]["lens"].index(n) if n in old[i].get("lens", []) else 0
        plen.append(n if (n in lens or n == 0) else lens[min(k, len(lens) - 1)])
    case = {"tb": tb + 1, "present": t0["present"], "plen": plen, "req": t0["req"]}
    t = Exec(tables, mats).run(t0["id"], case, triple, info["mode"])
    menu = mats.get(triple[0], triple[1], triple[2], tables[tb], max(i for i, p in enumerate(case["present"]) if p and tables[tb]["segs"][i]["off"] >= 0))
    t["info"]["selfparse"] = all(m.get("selfparse", True) for m in menu) if menu else True
    return replay_verdict(path, t, tables, table_file)


def replay_verdict(path, t, tables, table_file):
    say(json.dumps({k: t[k] for k in ("present", "plen", "req", "ev")})[:3000])
    rej, _ = tlc.tv("C14", "BimgTrace", [strip(t)], env={"TABLE_FILE": table_file})
    if rej:
        m = list(rej.values())[0][0]
        say(f"VIOLATION property=C14 replay={path}")
        say(f"  key={key_of(t, tables, m)} rejected at event #{m + 1}: {json.dumps(t['ev'][min(m, len(t['ev']) - 1)])[:300]}")
        return 1
    say("replay: trace accepted by the spec")
    return 0
