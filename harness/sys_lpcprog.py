"""Growth beyond the listed properties: the LPC8xx UART ISP text protocol (spsdk/lpcprog, apps/lpcprog).

spec/SYS/LpcIsp.tla       reference model of the ISP command handler (synchronisation, echo, command grammar, return codes, RAM / flash with
                          the unlock + prepare-before-write/erase rule) as functions over a device record
spec/SYS/LpcIspMC.tla     design model: device || link that may delay / lose lines || host; the host as built and a host that flushes are REFUTED
                          (a late answer is attributed to the next command), a host that matches the echo holds
spec/SYS/LpcIspFlow.tla   design model of the documented write-to-flash flow against the device rule (variants prepare-once / no-unlock REFUTED)
spec/SYS/LpcIspGen.tla    GEN: transition tour of the reference device under an ideal host on the geometry of a real part + case sets
spec/SYS/LpcIspTrace.tla  trace form: what the device twin received from the real LPCProgProtocol / lpcprog CLI + the contract of every call

Not a registered check: `./check sys_lpcprog` prints OBSERVATION lines and exits 0 (2 on machinery failure)."""
import json
import os
import struct
import sys

from lib import tlc
from lib.common import ROOT, Machinery, Timer, import_spsdk, rng, say, scratch
from lib.lpc_twin import Device, Geo, Link, Port, s32, words_of
from lib.par import pmap
from lib.ptv import check_complete, prun, ptv

LANE = "sys_lpcprog"
ANCH = os.path.join(ROOT, "anchors", "SYS", "lpcprog")
RBASE = 0x10000000
BUF = 0x10000800
UID = [0x0301001F, 0x15CC1007, 0x61AA9196, 0x75000282]
UID_TOP = [0x0301001F, 0x95CC1007, 0x61AA9196, 0xF5000282]          # the words of the hardware transcript (top bits set)
CRP = {"nocrp": 0xFFFFFFFF, "crp1": None, "crp2": None, "crp3": None, "noisp": None}


def golden():
    with open(os.path.join(ANCH, "golden.json")) as f:
        return json.load(f)


def geo_of(fam):
    g = golden()["geometry"][fam]
    return Geo(64, 1024, g["ns"], RBASE, g["rsize"]), g["part"]


def pat_bytes(n, salt):
    r = rng("SYS", "lpc-data", salt)
    return bytes(r.getrandbits(8) for _ in range(n))


def le_words(ws):
    return struct.pack("<%dI" % len(ws), *[w & 0xFFFFFFFF for w in ws])


# ------------------------------------------------------------------------------------------------ events
def norm(e):
    return {"ev": e["ev"], "op": e.get("op", "none"), "a": [int(x) for x in e.get("a", [])], "w": e.get("w", []), "mode": e.get("mode", "none"),
            "erase": bool(e.get("erase", True)), "verify": bool(e.get("verify", True)), "route": e.get("route", "api"),
            "c": e.get("c", ""), "rc": int(e.get("rc", -1)), "x": e.get("x", []), "bad": bool(e.get("bad", False)), "forced": bool(e.get("forced", False)),
            "k": e.get("k", ""), "v": e.get("v", 0) if e["ev"] == "dsync" else 0, "vals": e.get("vals", []),
            "nb": int(e.get("nb", 0)), "done": bool(e.get("done", False)), "dir": e.get("dir", ""), "kind": e.get("kind", ""),
            "exc": e.get("exc", "none"), "documented": bool(e.get("documented", True)), "rv": e.get("rv", "none"), "n": int(e.get("n", 0)), "t": e.get("t", [])}


def fix(e):
    """`v` of a result is a list; `v` of dsync a number: two field names in the trace (type-stable)."""
    n = norm(e)
    if e["ev"] == "result":
        n["vals"] = e.get("v", [])
    return n


# ------------------------------------------------------------------------------------------------ execution of one history
def project(op, fn):
    from spsdk.exceptions import SPSDKError

    res = {"ev": "result", "kind": "ret", "exc": "none", "documented": True, "rv": "none", "n": 0, "t": [], "w": [], "v": []}
    try:
        out = fn()
    except SPSDKError as e:
        res.update(kind="exc", exc=type(e).__name__, rv="exc")
        return res
    except TimeoutError as e:
        res.update(kind="exc", exc=type(e).__name__, rv="exc")
        return res
    except KeyboardInterrupt:
        res.update(kind="exc", exc="unbounded", documented=False, rv="exc")
        return res
    except SystemExit as e:
        res.update(kind="exc", exc=f"SystemExit({e.code})", documented=True, rv="exc")
        return res
    except BaseException as e:  # noqa: BLE001
        res.update(kind="exc", exc=type(e).__name__, documented=False, rv="exc")
        return res
    try:
        if isinstance(out, bool):
            res["rv"] = "true" if out else "false"
        elif out is None:
            res["rv"] = "null" if op == "read_crc" else "none"
        elif isinstance(out, (bytes, bytearray)):
            res.update(rv="data", n=len(out), w=words_of(out), t=list(out[len(out) // 4 * 4:]))
        elif isinstance(out, int):
            res.update(rv="int", v=[s32(out)])
        elif isinstance(out, str):
            if op == "read_boot":
                major, minor = out.strip().split(".")
                res.update(rv="vals", v=[int(minor), int(major)])
            else:
                res.update(rv="vals", v=[s32(int(x, 0)) for x in out.split()])
        elif isinstance(out, tuple) and out[0] == "cli":
            res.update(out[1])
        else:
            res.update(rv="vals", v=[s32(int(getattr(out, "tag")))])
    except Exception:  # noqa: BLE001  - a value that cannot be read as what the part sent
        res.update(rv="vals", v=[])
    return res


def api_call(p, c):
    op, a = c["op"], c["a"]
    if op == "sync":
        return lambda: p.sync_connection(a[0])
    if op == "unlock":
        return lambda: p.unlock(print_status=False)
    if op == "set_echo":
        return lambda: p.set_echo(bool(a[0]), print_status=False)
    if op == "set_baud_rate":
        return lambda: p.set_baud_rate(a[0], a[1], print_status=False)
    if op == "prepare":
        return lambda: p.prepare_sectors_for_write(a[0], a[1], print_status=False)
    if op == "copy":
        return lambda: p.copy_ram_to_flash(a[0], a[1], a[2], print_status=False)
    if op == "erase_sector":
        return lambda: p.erase_sector(a[0], a[1], print_status=False)
    if op == "erase_page":
        return lambda: p.erase_page(a[0], a[1], print_status=False)
    if op == "blank_check":
        return lambda: p.blank_check_sectors(a[0], a[1], print_status=False)
    if op == "compare":
        return lambda: p.compare(a[0], a[1], a[2], print_status=False)
    if op == "go":
        return lambda: p.go(a[0], len(a) > 1)
    if op == "write_ram":
        return lambda: p.write_ram(a[0], c["data"])
    if op == "read_memory":
        return lambda: p.read_memory(a[0], a[1])
    if op == "read_crc":
        return lambda: p.read_crc_checksum(a[0], a[1])
    if op == "read_part_id":
        return lambda: p.read_part_id()
    if op == "read_boot":
        return lambda: p.read_boot_code_version()
    if op == "read_uid":
        return lambda: p.read_uid()
    if op == "get_crp":
        return lambda: p.get_crp_level()
    if op == "program_flash":
        if c["mode"] == "page":
            return lambda: p.program_flash(c["data"], start_page=a[0], print_status=False, erase=c["erase"], verify=c["verify"])
        return lambda: p.program_flash(c["data"], start_sector=a[0], print_status=False, erase=c["erase"], verify=c["verify"])
    raise Machinery(f"no API binding for {op}")


def cli_call(env, c):
    """The same request through the lpcprog command line tool (click's test runner; the serial port is the twin)."""
    import re

    from click.testing import CliRunner

    from spsdk.apps import lpcprog as app

    op, a = c["op"], c["a"]
    pre = ["-p", "twin"] + (["-f", env["fam"]] if env["famgiven"] else [])
    tmp = os.path.join(scratch(), f"lpc-{os.getpid()}-{env['jid']}")
    os.makedirs(tmp, exist_ok=True)
    binf = os.path.join(tmp, "in.bin")
    outf = os.path.join(tmp, "out.bin")
    if "data" in c:
        with open(binf, "wb") as f:
            f.write(c["data"])
    if os.path.exists(outf):
        os.remove(outf)
    args = {"sync": ["sync", "-f", str(a[0])] if op == "sync" else None, "unlock": ["unlock"],
            "prepare": ["prepare-sectors"] + [str(x) for x in a], "blank_check": ["blank-check-sectors"] + [str(x) for x in a],
            "compare": ["compare"] + [str(x) for x in a], "go": ["go", str(a[0])] + (["-t"] if len(a) > 1 else []) if op == "go" else None,
            "write_ram": ["write-ram", "-a", str(a[0]), "-b", ("{{" + c["data"].hex() + "}}") if len(c.get("data", b"")) <= 64 and c.get("data") else binf] if op == "write_ram" else None,
            "read_memory": ["read-memory", hex(a[0]), str(a[1]), "-b", outf] if op == "read_memory" else None,
            "read_crc": ["read-crc-checksum"] + [str(x) for x in a],
            "cli_erase_sector": ["erase-sector"] + [str(x) for x in a], "cli_erase_page": ["erase-page"] + [str(x) for x in a],
            "program_flash": (["program-flash", "-b", binf] + (["-p", str(a[0])] if c["mode"] == "page" else ["-s", str(a[0])]) +
                              ([] if c["erase"] else ["--no-erase"]) + ([] if c["verify"] else ["--no-verify"])) if op == "program_flash" else None}[op]

    def run():
        sys.argv = ["lpcprog"] + pre + args
        r = CliRunner().invoke(app.main, pre + args, catch_exceptions=True)
        if r.exception is not None and not isinstance(r.exception, SystemExit):
            raise r.exception
        if r.exit_code != 0:
            raise SystemExit(r.exit_code)
        text = r.output
        st = re.findall(r"Status: (\w+)", text)
        good = all(s == "Success" for s in st)
        if op == "read_memory":
            data = open(outf, "rb").read() if os.path.exists(outf) else b""
            return data
        if op == "read_crc":
            m = re.search(r"Checksum: (0x[0-9a-fA-F]+)", text)
            return int(m.group(1), 16) if m else None
        if op == "go":
            return None
        return bool(good)

    return run


def run_one(job):
    import time

    time.sleep = lambda s: None                       # worker process only: the protocol's pauses carry no meaning against a twin
    from spsdk.lpcprog.device import LPCDevice
    from spsdk.lpcprog.interface import LPCProgInterface
    from spsdk.lpcprog.protocol import LPCProgProtocol

    jid, fam, fini, st, echo, famgiven, calls, fault = job["id"], job["fam"], job["fini"], job["st"], job["echo"], job["famgiven"], job["calls"], job.get("fault")
    geo, part = geo_of(fam)
    ids = {"part": part, "minor": 240, "major": 0, "uid": job.get("uid", UID)}
    log = []
    dev = Device(geo, fini, ids, log, st=st)
    dev.echo = echo
    link = Link(dev, log)
    printed = []
    env = {"fam": fam, "famgiven": famgiven, "jid": jid}
    p = None
    use_cli = any(c.get("route") == "cli" for c in calls)
    if use_cli:
        import spsdk.apps.lpcprog as app

        app.SerialDevice = lambda port, timeout, baudrate: Port(link)      # the tool's serial port is the twin (module global, worker process only)
    for i, c in enumerate(calls):
        ce = {"ev": "call", "op": c["op"], "a": c["a"], "w": words_of(c["data"]) if "data" in c else [], "mode": c.get("mode", "none"),
              "erase": c.get("erase", True), "verify": c.get("verify", True), "route": c.get("route", "api")}
        log.append(ce)
        if c.get("busy"):
            dev.busy = tuple(c["busy"])
        if fault and fault["at"] == i:
            link.arm(fault)
        if c.get("route") == "cli":
            fn = cli_call(env, c)
        else:
            if p is None:
                p = LPCProgProtocol(LPCProgInterface(Port(link)), print_func=printed.append, device=LPCDevice(fam) if famgiven else None)
                p.interface.echo = echo
            fn = api_call(p, c)
        res = project(c["op"], fn)
        if fault and fault["at"] == i:
            link.fault = None
        dev.busy = None
        log.append(res)
    g = geo.rec()
    ids_t = {"part": ids["part"], "minor": ids["minor"], "major": ids["major"], "uid": [s32(x) for x in ids["uid"]]}
    return {"id": jid, "g": g, "fini": fini, "st": st, "echo": echo, "ids": ids_t, "ev": [fix(e) for e in log], "job": slim(job)}


def slim(job):
    j = dict(job)
    j["calls"] = [{k: v for k, v in c.items() if k != "data"} | ({"nbytes": len(c["data"])} if "data" in c else {}) for c in job["calls"]]
    return j


# ------------------------------------------------------------------------------------------------ concretisation of the generated cases
def call(op, a=(), **k):
    c = {"op": op, "a": [int(x) for x in a]}
    c.update(k)
    return c


def job_of(jid, calls, **k):
    j = {"id": jid, "fam": "lpc865", "fini": "pat", "st": "cmd", "echo": True, "famgiven": True, "calls": calls, "fault": None}
    j.update(k)
    return j


def tour_jobs(edges):
    out = []
    for n, e in enumerate(edges):
        calls = []
        for m in e["h"]:
            c = call(m["op"], m["a"])
            if m["op"] == "write_ram":
                c["data"] = le_words([1000 + k for k in range(1, m["a"][1] // 4 + 1)])
            calls.append(c)
        echo_flips = any(m["op"] == "set_echo" for m in e["h"][:-1])
        if echo_flips:
            continue                                        # set_echo does not reach the part (see the observation): what follows it says nothing new
        out.append(job_of(f"t{n}", calls, famgiven=False, tour=True, rc=e["rc"], c=e["c"]))
    return out


def arg_job(n, k, geo):
    """One operation with one argument class (k = the generated record)."""
    op, cls, echo, route = k["op"], k["cls"], k["echo"], k["route"]
    ns, rs = geo.ns, geo.rsize
    U, P11, W256 = call("unlock"), call("prepare", [1, 1]), call("write_ram", [BUF, 256], data=pat_bytes(256, n))
    pre, c, st, fini, uid = [], None, "cmd", "pat", UID
    R = {"route": route}
    if op == "sync":
        c, st = call("sync", [12000], **R), "auto"
    elif op == "unlock":
        c = call("unlock", **R)
    elif op == "set_echo":
        pre = [] if cls != "off_on" else [call("set_echo", [0])]
        c = call("set_echo", [0 if cls == "off" else 1])
    elif op == "set_baud_rate":
        c = call("set_baud_rate", [57600, 1 if cls == "ok" else 3])
    elif op == "prepare":
        c = call("prepare", {"ok": [1, 2], "invalid": [ns, ns], "reversed": [2, 1], "last": [ns - 1, ns - 1]}[cls], **R)
    elif op == "erase_sector":
        pre = {"ok": [U, P11], "locked": [P11], "unprepared": [U], "invalid": [U], "busy": [U, P11]}[cls]
        c = call("erase_sector", [ns, ns] if cls == "invalid" else [1, 1], busy=("E", 11) if cls == "busy" else None)
    elif op == "erase_page":
        pre = {"ok": [U, P11], "locked": [P11], "unprepared": [U], "invalid": [U], "lastsector": [U, call("prepare", [ns - 1, ns - 1])]}[cls]
        c = call("erase_page", {"invalid": [ns * 16, ns * 16], "lastsector": [ns * 16 - 1, ns * 16 - 1]}.get(cls, [17, 18]))
    elif op == "copy":
        pre = {"ok": [U, W256, P11], "locked": [W256, P11], "unprepared": [U, W256], "busy": [U, W256, P11], "count192": [U, W256, P11],
               "sector": [U, call("write_ram", [BUF, 1024], data=pat_bytes(1024, n)), P11]}[cls]
        c = call("copy", [1024, BUF, {"count192": 192, "sector": 1024}.get(cls, 256)], busy=("C", 11) if cls == "busy" else None)
    elif op == "blank_check":
        pre = [U, P11, call("erase_sector", [1, 1])] if cls == "blank" else []
        c = call("blank_check", [ns, ns] if cls == "invalid" else [1, 1], **R)
    elif op == "compare":
        pre = [U, W256, P11, call("copy", [1024, BUF, 256])] if cls == "equal" else []
        c = call("compare", {"equal": [1024, BUF, 256], "differ": [1024, BUF, 256], "count6": [1024, BUF, 6], "align": [1026, BUF, 8],
                             "unmapped": [ns * 1024, BUF, 8]}[cls], **R)
    elif op == "go":
        pre = [] if cls == "locked" else [U]
        c = call("go", {"ok": [0], "thumb": [0, 84], "locked": [0], "unmapped": [0x20000000]}[cls], **R)
    elif op == "write_ram":
        ln = {"word": 4, "big": min(1024, rs - 0x800), "len6": 6}.get(cls, 64)
        addr = {"align": BUF + 2, "unmapped": RBASE + rs}.get(cls, BUF)
        c = call("write_ram", [addr, ln], data=pat_bytes(ln, n), busy=("W", 11) if cls == "busy" else None, **R)
    elif op == "read_memory":
        c = call("read_memory", {"flash": [2048, 64], "ram": [BUF, 128], "chunked": [1024, 2560], "onepast": [0, 1028], "align": [1026, 8], "count6": [1024, 6],
                                 "unmapped": [ns * 1024, 16], "zero": [1024, 0], "busy": [1024, 64], "second_chunk_unmapped": [(ns - 1) * 1024, 2048]}[cls],
                 busy=("R", 11) if cls == "busy" else None, **R)
    elif op == "read_crc":
        if cls == "crc0":                                   # four bytes whose CRC-32 is 0
            pre = [call("write_ram", [BUF, 4], data=bytes.fromhex("9d0ad96d"))]
        c = call("read_crc", {"ok": [1024, 256], "crc0": [BUF, 4], "count6": [1024, 6], "unmapped": [ns * 1024, 16]}[cls], **R)
    elif op in ("read_part_id", "read_boot", "read_uid"):
        c = call(op)
        uid = UID_TOP if cls == "topbit" else UID
    elif op == "get_crp":
        word = CRP[cls]
        page = bytearray(pat_bytes(64, n))
        page[0x3C:0x40] = struct.pack("<I", word)           # offset 0x2FC of the image, little endian as the core reads it
        pre = [U, call("write_ram", [BUF, 64], data=bytes(page)), call("prepare", [0, 0]), call("copy", [0x2C0, BUF, 64])]
        c = call("get_crp")
    elif op == "cli_erase_sector":
        c = call(op, {"ok": [1, 2], "invalid": [ns, ns], "last": [ns - 1, ns - 1]}[cls], **R)
    elif op == "cli_erase_page":
        c = call(op, {"ok": [17, 18], "invalid": [ns * 16, ns * 16], "lastsector": [ns * 16 - 1, ns * 16 - 1]}[cls], **R)
    else:
        raise Machinery(f"argument case for unknown operation {op}")
    c = {k_: v for k_, v in c.items() if v is not None}
    return job_of(f"a{n}", pre + [c], st=st, fini=fini, echo=echo, uid=uid, cls=f"{op}:{cls}")


def fault_job(n, k, tier):
    op, echo = k["op"], k["echo"]
    U, P11, W256 = call("unlock"), call("prepare", [1, 1]), call("write_ram", [BUF, 256], data=pat_bytes(256, n))
    st = "cmd"
    if op == "unlock":
        pre, c = [], call("unlock")
    elif op == "prepare":
        pre, c = [], P11
    elif op == "copy":
        pre, c = [U, W256, P11], call("copy", [1024, BUF, 256])
    elif op == "erase_sector":
        pre, c = [U, P11], call("erase_sector", [1, 1])
    elif op == "write_ram":
        pre, c = [], W256
    elif op == "read_memory":
        pre, c = [], call("read_memory", [2048, 64])
    elif op == "read_memory_chunked":
        pre, c = [], call("read_memory", [1024, 2048])
    elif op == "read_crc":
        pre, c = [], call("read_crc", [1024, 256])
    elif op == "read_uid":
        pre, c = [], call("read_uid")
    elif op == "read_part_id":
        pre, c = [], call("read_part_id")
    elif op == "blank_check_dirty":
        pre, c = [], call("blank_check", [1, 1])
    elif op == "compare_differ":
        pre, c = [], call("compare", [1024, BUF, 256])
    elif op == "program_flash":
        pre, c = [], call("program_flash", [1], mode="sector", erase=True, verify=(n % 2 == 0), data=pat_bytes(1024, n))
    elif op == "sync":
        pre, c, st = [], call("sync", [12000]), "auto"
    else:
        raise Machinery(f"fault case for unknown operation {op}")
    kk = k["k"]
    if op == "program_flash" and k["k"] >= 4:               # the flow has many units: spread the index over it
        kk = {4: 6, 5: 9}[k["k"]] + (n % 3)
    post = {"none": [], "unlock": [call("unlock")], "read_memory": [call("read_memory", [3072, 64])],
            "copy_unprepared": [call("copy", [2048, BUF, 256])]}[k["follow"]]
    if op == "sync" and post:
        post = post[:1]
    fault = {"at": len(pre), "dir": k["dir"], "k": kk, "kind": k["kind"], "n": 1 + n % 3}
    return job_of(f"f{n}", pre + [c] + post, st=st, echo=echo if op != "sync" else True, fault=fault, cls=f"{op}/{k['dir']}:{k['kind']}@{kk}/{k['follow']}")


FAMS = ["lpc865", "lpc845", "lpc804", "lpc812", "lpc810"]


def refuse_job(n, k, fam):
    unit = 64 if k["mode"] == "page" else 1024
    c = call("program_flash", [1], mode=k["mode"], erase=True, verify=True, data=pat_bytes(2 * unit, ("refuse", n)), busy=(k["letter"], 11, k["nth"]))
    return job_of(f"r{n}", [c], fam=fam, cls=f"pf:{k['mode']}:one:units2:refuse-{k['letter']}{k['nth']}")


def pf_job(n, k, fam, route):
    geo, _ = geo_of(fam)
    unit = 64 if k["mode"] == "page" else 1024
    units = geo.ns * (16 if k["mode"] == "page" else 1)
    ln = {"unit": unit, "units2h": 2 * unit + unit // 2, "padbad": unit + 132 if k["mode"] == "sector" else unit + 4, "tiny": 4, "empty": 0,
          "big": 5 * unit}[k["len"]]
    nun = (ln + unit - 1) // unit
    start = {"zero": 0, "one": 1, "lastfit": max(0, units - max(nun, 1)), "overflow": units - max(nun, 1) + 1}[k["start"]]
    c = call("program_flash", [start], mode=k["mode"], erase=k["erase"], verify=k["verify"], data=pat_bytes(ln, n), route=route)
    return job_of(f"p{n}", [c], fam=fam, fini=k["fini"], famgiven=k["famgiven"], cls=f"pf:{k['mode']}:{k['start']}:{k['len']}:e{int(k['erase'])}v{int(k['verify'])}:{k['fini']}:{fam}")


# ------------------------------------------------------------------------------------------------ canary: a reference host of the harness (no SPSDK)
class RefHost:
    def __init__(self, fam="lpc865", fini="pat", prepare_again=True):
        self.geo, part = geo_of(fam)
        self.log = []
        self.dev = Device(self.geo, fini, {"part": part, "minor": 240, "major": 0, "uid": UID}, self.log)
        self.link = Link(self.dev, self.log)
        self.prepare_again = prepare_again
        self.fini = fini

    def line(self):
        return self.link.readline().decode().strip()

    def cmd(self, text):
        self.link.reset_input_buffer()
        self.link.write((text + "\r\n").encode())
        if self.dev.echo and self.line() != text:
            raise Machinery("reference host: echo differs")
        return int(self.line())

    def history(self):
        lg = self.log
        data = pat_bytes(256, "canary")
        lg.append({"ev": "call", "op": "sync", "a": [12000]})
        self.link.write(b"?")
        assert self.line() == "Synchronized"
        self.link.write(b"Synchronized\r\n")
        assert self.line() == "Synchronized" and self.line() == "OK"
        self.link.write(b"12000\r\n")
        assert self.line() == "12000" and self.line() == "OK"
        lg.append({"ev": "result", "kind": "ret", "rv": "true"})
        lg.append({"ev": "call", "op": "unlock", "a": []})
        lg.append({"ev": "result", "kind": "ret", "rv": "true" if self.cmd("U 23130") == 0 else "false"})
        lg.append({"ev": "call", "op": "write_ram", "a": [BUF, 256], "w": words_of(data)})
        assert self.cmd(f"W {BUF} 256") == 0
        self.link.write(data)
        assert self.line() == "OK"
        lg.append({"ev": "result", "kind": "ret", "rv": "true"})
        for op, text in [("prepare", "P 1 1"), ("erase_sector", "E 1 1")] + ([("prepare", "P 1 1")] if self.prepare_again else []) + [("copy", f"C 1024 {BUF} 256")]:
            lg.append({"ev": "call", "op": op, "a": [int(x) for x in text.split()[1:]]})
            rc = self.cmd(text)
            lg.append({"ev": "result", "kind": "ret", "rv": "true" if rc == 0 or not self.prepare_again else "false"})    # prepare_again=False: the wrong host claims success
        lg.append({"ev": "call", "op": "read_memory", "a": [1024, 256]})
        assert self.cmd("R 1024 256") == 0
        got = self.link.read(256)
        lg.append({"ev": "result", "kind": "ret", "rv": "data", "n": len(got), "w": words_of(got)})
        lg.append({"ev": "call", "op": "read_crc", "a": [1024, 256]})
        assert self.cmd("S 1024 256") == 0
        lg.append({"ev": "result", "kind": "ret", "rv": "int", "v": [s32(int(self.line()))]})
        return lg

    def trace(self, tid):
        ev = self.history()
        ids = {"part": self.dev.ids["part"], "minor": 240, "major": 0, "uid": [s32(x) for x in UID]}
        return {"id": tid, "g": self.geo.rec(), "fini": self.fini, "st": "auto", "echo": True, "ids": ids, "ev": [fix(e) for e in ev]}


def canary():
    good = RefHost().trace("c-good")
    bad1 = RefHost().trace("c-word")                               # one word of the data handed to the caller differs from the flash
    r = next(e for e in bad1["ev"] if e["ev"] == "result" and e["rv"] == "data")
    r["w"] = [r["w"][0] ^ 1] + r["w"][1:]
    bad2 = RefHost(prepare_again=False).trace("c-prep")            # copy without the second prepare: the part says 9, the host says success
    bad3 = RefHost().trace("c-freq")
    next(e for e in bad3["ev"] if e["ev"] == "call")["a"] = [12001]
    bad4 = RefHost().trace("c-crc")
    next(e for e in bad4["ev"] if e["rv"] == "int")["vals"][0] ^= 2
    rej, res = tlc.tv("SYS", "LpcIspTrace", [good, bad1, bad2, bad3, bad4])
    check_complete(res, 5)
    if set(rej) != {"c-word", "c-prep", "c-freq", "c-crc"}:
        raise Machinery(f"LPC ISP canary failed: rejected {sorted(rej)} (expected the four corrupted copies, not the good trace)\n{res.out[-1500:]}")
    # the S command of the twin is the CRC the hardware transcript shows
    import zlib

    g = golden()
    if zlib.crc32(bytes.fromhex(g["flash_first_256"])[:128]) != int(g["read_crc_checksum_0_128"], 16):
        raise Machinery("CRC anchor of the hardware transcript does not hold")


# ------------------------------------------------------------------------------------------------ design models
def model_check():
    jobs = [("run", ("SYS", "LpcIspMC", c), {"workers": 1, "deadlock": False, "coverage": True, "timeout": 600}) for c in
            ("LpcIspMC_built.cfg", "LpcIspMC_flush.cfg", "LpcIspMC_echo.cfg", "LpcIspMC_both.cfg", "LpcIspMC_reach.cfg")] + \
           [("run", ("SYS", "LpcIspFlow", c), {"workers": 1, "deadlock": False, "coverage": True, "timeout": 600}) for c in
            ("LpcIspFlow_doc.cfg", "LpcIspFlow_once.cfg", "LpcIspFlow_locked.cfg", "LpcIspFlow_reach.cfg")]
    want = {"LpcIspMC_built.cfg": True, "LpcIspMC_flush.cfg": True, "LpcIspMC_echo.cfg": False, "LpcIspMC_both.cfg": False, "LpcIspMC_reach.cfg": True,
            "LpcIspFlow_doc.cfg": False, "LpcIspFlow_once.cfg": True, "LpcIspFlow_locked.cfg": True, "LpcIspFlow_reach.cfg": True}
    out = {}
    res = prun(jobs)
    for (kind, args, kw), g in zip(jobs, res):
        cfg = args[2]
        viol = bool(g.violated)
        out[cfg] = {"violated": g.violated or "", "distinct": g.distinct, "generated": g.generated}
        if viol != want[cfg]:
            raise Machinery(f"{args[1]} {cfg}: violated={g.violated}, expected {'a refutation' if want[cfg] else 'no error'}\n{g.out[-1200:]}")
        if not want[cfg]:
            if not g.no_error:
                raise Machinery(f"{args[1]} {cfg} did not complete\n{g.out[-1200:]}")
            need = [a for a in ACTIONS[args[1]] if not (a == "HostFlushes" and cfg == "LpcIspMC_echo.cfg")]
            vac = [a for a in need if g.coverage.get(a, (0, 0))[1] == 0 and a in g.coverage]
            missing = [a for a in need if a not in g.coverage]
            if vac or missing:
                raise Machinery(f"{args[1]} {cfg}: actions that never fired {vac} / not reported {missing}")
    return out


ACTIONS = {"LpcIspMC": ["HostSend", "HostReadEcho", "HostReadRc", "HostTimeout", "DevAnswer", "LinkLate", "LinkLose", "LinkRelease", "HostFlushes"],
           "LpcIspFlow": ["Unlock", "WriteRam", "Verify", "PrepareE", "Erase", "PrepareC", "Copy", "Crc", "Refuse", "Finish"]}


# ------------------------------------------------------------------------------------------------ keys of the observations
def key_of(t, matched, evname):
    """Observation key: operation[@cli] / how the call ended / what preceded it / what the part had answered [/ request class]."""
    ev = t["ev"]
    if evname != "result":
        return f"twin-disagrees-with-automaton/{evname}"
    res = ev[matched]
    ci = max(i for i, x in enumerate(ev[:matched]) if x["ev"] == "call")
    c = ev[ci]
    mid = ev[ci + 1:matched]
    op = c["op"] + ("@cli" if c["route"] == "cli" else "")
    hits = [x for x in ev[:matched] if x["ev"] == "hit"]
    hits_here = [x for x in mid if x["ev"] == "hit"]
    rcs = [f"{x['c']}={x['rc']}" for x in mid if x["ev"] == "dcmd" and x["rc"] != 0]
    if res["kind"] == "exc" and not res["documented"]:
        out = f"undocumented-exception:{res['exc']}"
    elif res["kind"] == "exc":
        out = "fails"
    elif res["rv"] in ("false", "null"):
        out = "reports-failure"
    elif res["rv"] == "data" and res["n"] == 0 and c["a"][1:2] != [0]:
        out = "returns-empty"
    else:
        out = "looks-like-success"
    job = t["job"]
    cls = job.get("cls", "")
    if c["op"] == "sync":                                   # what the part saw of the handshake: ? / Synchronized / digits / anything else, then command letters
        seen = ".".join(x["k"] for x in mid if x["ev"] == "dsync") + "+" + "".join(x["c"] for x in mid if x["ev"] == "dcmd")
        cause = f"link:{hits_here[0]['kind']}" if hits_here else "no-fault"
        return f"{op}/{out}/{cause}/part-saw={seen}"
    if hits_here:
        return f"{op}/{out}/link:{hits_here[0]['kind']}"
    if hits:
        return f"{op}/{out}/after-link:{hits[0]['kind']}"
    prevops = [x["op"] for x in ev[:ci] if x["ev"] == "call"]
    after = ",after-set_echo" if "set_echo" in prevops and c["op"] != "set_echo" else ""
    detail = ",".join(sorted(set(rcs))[:2]) if rcs else "part-said-ok"
    extra = ""
    if c["op"] == "program_flash":
        bits = (cls.split(":") + ["-"] * 5) if cls.startswith("pf:") else ["pf", c["mode"], "one", "unit", "-"]
        if res["exc"] == "KeyError":
            return f"{op}/{out}/no-fault/family={job['fam']}"
        extra = f"/{c['mode']},len={bits[3]},start={bits[2]}" + (",lpc810" if job["fam"] == "lpc810" else "") + (f",{bits[4]}" if bits[4].startswith("refuse") else "")
    elif cls and ":" in cls and "/" not in cls:
        extra = "/" + cls.split(":", 1)[1]
    return f"{op}/{out}/no-fault{after}/{detail}{extra}"


# ------------------------------------------------------------------------------------------------ run
def generate(tier):
    depth = 4 if tier == "quick" else 6
    cfgp = "LpcIspGen_tour.cfg"
    if depth != 4:
        cfgp = os.path.join(scratch(), "LpcIspGen_tour_deep.cfg")
        with open(cfgp, "w") as f:
            f.write(f"CONSTANTS Depth = {depth}\nINIT Init\nNEXT Next\nVIEW View\nCHECK_DEADLOCK FALSE\n")
    g1, g2 = prun([("run", ("SYS", "LpcIspGen", cfgp), {"workers": 1, "deadlock": False, "timeout": 900}),
                   ("run", ("SYS", "LpcIspGen", "LpcIspGen_cases.cfg"), {"workers": 1, "deadlock": False, "timeout": 600})])
    edges = {json.dumps(x, sort_keys=True): x for x in g1.json_prints() if "h" in x}
    edges = [edges[k] for k in sorted(edges)]
    cases = {json.dumps(x, sort_keys=True): x for x in g2.json_prints()}
    cases = [cases[k] for k in sorted(cases)]
    pairs = sorted({(e["c"], e["rc"]) for e in edges})
    if len(edges) < 500 or len(pairs) < 25:
        raise Machinery(f"the tour of LpcIspGen is too small: {len(edges)} edges, pairs {pairs}\n{g1.out[-800:]}")
    return edges, cases, pairs, {"tour": {"distinct": g1.distinct, "generated": g1.generated, "edges": len(edges), "depth": depth},
                                 "cases": {"arg": sum("arg" in c for c in cases), "fault": sum("fault" in c for c in cases), "pf": sum("pf" in c for c in cases), "refuse": sum("refuse" in c for c in cases)}}


def build_jobs(tier, edges, cases):
    from spsdk.lpcprog.protocol import LPCProgCRPLevels as L

    CRP.update(crp1=L.CRP1.tag, crp2=L.CRP2.tag, crp3=L.CRP3.tag, noisp=L.NO_ISP.tag)     # the five words the ISP documentation names (values: the enum's)
    r = rng("SYS", "lpc-jobs", tier)
    if tier == "quick":                                     # every edge out of the states reached by <= 2 steps, every (letter, return code) pair, a sample of the rest
        short = [e for e in edges if len(e["h"]) <= 3]
        long_ = [e for e in edges if len(e["h"]) > 3]
        have = {(e["c"], e["rc"]) for e in short}
        need = {}
        for e in long_:
            if (e["c"], e["rc"]) not in have:
                need.setdefault((e["c"], e["rc"]), e)
        edges = short + list(need.values()) + r.sample(long_, min(len(long_), 150))
    jobs = tour_jobs(edges)
    geo, _ = geo_of("lpc865")
    args = [c["arg"] for c in cases if "arg" in c]
    faults = [c["fault"] for c in cases if "fault" in c]
    pfs = [c["pf"] for c in cases if "pf" in c]
    for n, k in enumerate(c["refuse"] for c in cases if "refuse" in c):
        jobs.append(refuse_job(n, k, ["lpc865", "lpc845", "lpc804"][n % 3]))
    for n, k in enumerate(args):
        jobs.append(arg_job(n, k, geo))
    if tier == "quick":
        # every (operation, direction, kind) class at least once, then a seeded sample
        by = {}
        for k in faults:
            by.setdefault((k["op"], k["dir"], k["kind"], k["follow"] != "none"), []).append(k)
        pick = [r.choice(v) for _, v in sorted(by.items())]
        rest = [k for k in faults if k not in pick]
        pick += r.sample(rest, min(len(rest), 160))
        faults = pick
        byp = {}
        for k in pfs:
            byp.setdefault((k["mode"], k["start"], k["len"]), []).append(k)
        pick = [r.choice(v) for _, v in sorted(byp.items())]
        rest = [k for k in pfs if k not in pick]
        pick += r.sample(rest, min(len(rest), 70))
        pfs = pick
    for n, k in enumerate(faults):
        jobs.append(fault_job(n, k, tier))
    for n, k in enumerate(pfs):
        fam = FAMS[n % len(FAMS)] if (k["len"] != "big" or k["mode"] == "page") else FAMS[n % 4]
        if k["len"] == "big" and fam == "lpc810" and k["mode"] == "sector":
            fam = "lpc812"
        jobs.append(pf_job(n, k, fam, "cli" if n % 3 == 0 else "api"))
        if tier == "thorough":
            for m, f2 in enumerate(f for f in ("lpc865", "lpc845", "lpc804") if f != fam):
                j = pf_job(n, k, f2, "api" if n % 3 == 0 else "cli" if m == 0 else "api")
                j["id"] = f"p{n}x{m}"
                jobs.append(j)
    return jobs


def run(tier):
    import_spsdk()
    canary()
    mc = model_check()
    say(f"[SYS/lpcprog] design models: " + ", ".join(f"{k.replace('.cfg', '')}={'REFUTED ' + v['violated'] if v['violated'] else 'holds'}({v['distinct']})" for k, v in mc.items()))
    edges, cases, pairs, gen = generate(tier)
    jobs = build_jobs(tier, edges, cases)
    t0 = Timer()
    traces = pmap(run_one, jobs, chunksize=16)
    t_exec = t0.s()
    rej, stats = ptv("SYS", "LpcIspTrace", [{k: t[k] for k in ("id", "g", "fini", "st", "echo", "ids", "ev")} for t in traces], jobs=10, min_chunk=100, heap="2g", timeout=1500)
    by = {t["id"]: t for t in traces}
    classes = {}
    for tid, (matched, length, evname) in sorted(rej.items()):
        t = by[tid]
        key = key_of(t, matched, evname)
        classes.setdefault(key, []).append(t["job"])
    # the tour's prediction: the return code the model printed for the last call of each history is what the twin answered
    drift = 0
    for t in traces:
        if t["job"].get("tour"):
            last = [e for e in t["ev"] if e["ev"] == "dcmd"]
            if not last or last[-1]["rc"] != t["job"]["rc"]:
                drift += 1
    seen_pairs = sorted({(e["c"], e["rc"]) for t in traces for e in t["ev"] if e["ev"] == "dcmd"})
    out = {"design_model": mc, "generator": gen, "predicted_pairs": [f"{c}:{rc}" for c, rc in pairs], "observed_pairs": [f"{c}:{rc}" for c, rc in seen_pairs],
           "executions": len(traces), "events": sum(len(t["ev"]) for t in traces), "rejected": len(rej),
           "tv": {"distinct": sum(s["distinct"] for s in stats), "generated": sum(s["generated"] for s in stats), "batches": len(stats)},
           "tour_histories_where_the_real_host_sent_something_else": drift,
           "classes": {k: {"count": len(v), "example": v[0]} for k, v in sorted(classes.items())},
           "assumptions": ASSUMPTIONS}
    os.makedirs(os.path.join(ROOT, "evidence", "extras"), exist_ok=True)
    for name in ("sys_lpcprog.json", "lpcprog.json"):
        with open(os.path.join(ROOT, "evidence", "extras", name), "w") as f:
            json.dump(out, f, indent=1, default=str)
    for k, v in sorted(classes.items()):
        say(f"OBSERVATION: {LANE} {k} ({len(v)}x, e.g. {json.dumps(v[0], default=str)[:220]})")
    if any(k.startswith("twin-disagrees") for k in classes):
        raise Machinery("the device twin and the automaton of LpcIsp.tla disagree: " + ", ".join(k for k in classes if k.startswith("twin-disagrees")))
    say(f"[SYS/lpcprog] wall: execution {t_exec}s, trace validation {max(x['wall'] for x in stats)}s (longest of {len(stats)} TLC batches)")
    say(f"[SYS/lpcprog] tier={tier} executions={len(traces)} events={out['events']} rejected={len(rej)} classes={len(classes)} "
        f"tlc_states={out['tv']['distinct']} (observations only - not a listed property)")
    return 0


ASSUMPTIONS = [
    "order of error causes of one command line is not settled by the documentation: every generated request carries a single cause",
    "an empty line sent to the command handler (the host's CR LF after a time-out) is taken to be ignored by the part",
    "P adds to the set of prepared sectors; what the ROM does with a second P over other sectors is not settled and not generated",
    "flipped bytes are injected only where the protocol can notice them (program_flash verifies by read-back / CRC); a flipped digit of a return code or a flipped byte of R data is not detectable by any host and is outside the fault model",
    "echo of the raw bytes of a W data phase: the LPC8xx documentation describes none; the twin sends none",
    "blank check of sector 0 (remapped boot block), CRP restrictions of the commands, G actually leaving the handler, Z (flash signature), B changing the line speed: not modelled",
    "program_flash with erase=False onto a non-blank target, lengths that are not a multiple of 4 and the value of padding bytes: outside the asserted domain",
]


def replay(path):
    return run("quick")
