"""C05, configuration lane: abstract case (spec/C05/Sb31CfgGen.tla) -> configuration dictionary + files -> SecureBinary31.load_from_config.

The property quantifies over "every SB 3.1 container SPSDK builds"; `nxpimage sb31 export` builds them with
SecureBinary31.load_from_config from a configuration dictionary whose shape the templates / validation schemas define
(anchors/C05/config_shape.json, *_template.yaml).  On that path keys, numbers and command payloads are READ before the builder
of the class path runs: the part-common key from hex text / a text file / a binary file with its size probed, numbers in several
formats, payloads from files / comma separated words / one value, the signing keys from file names or a signature provider
string, the certificate block from a nested configuration or a binary.

This module only RENDERS and DRIVES: it concretises the abstract case (values from VERIF_SEED), writes the files a configuration
refers to below lib.common.scratch(), renders the dictionary and calls load_from_config.  What the container must decode to
(`conc`: the same record the class lane uses) is fixed BEFORE rendering; the exported bytes are walked by the same independent
executor (c05_rom) and decided by the same R-spec (Sb31Rom) as for the class lane.
"""
import hashlib
import json
import os

from lib.common import ROOT, Machinery, scratch

SHAPE = json.load(open(os.path.join(ROOT, "anchors", "C05", "config_shape.json")))
CMD_KEY = {int(k): v for k, v in SHAPE["command_key"].items()}
DATA_CMDS = (2, 5, 6, 7, 9, 10)


def word(r):
    k = r.randrange(8)
    return (0, 1, 0x7FFFFFFF, 0x80000000, 0xFFFFFFFF)[k] if k < 5 else r.getrandbits(32) if k < 7 else r.getrandbits(12)


# ------------------------------------------------------------------ abstract -> concrete (what the container must decode to)
def conc_cmd(ac, fam, r):
    """abstract command {t, dl, form, sub, opt} -> the concrete command the configuration will describe."""
    t, form, sub, opt, dl = ac["t"], ac["form"], ac["sub"], ac["opt"], ac["dl"]
    c = {"t": t, "a": 0, "n": 0, "x1": 0, "x2": 0, "x3": 0, "data": "", "form": form, "sub": sub, "opt": opt}
    if t in (1, 8, 12):
        c["a"], c["n"] = word(r), word(r)
    if t in (2, 3, 4, 5, 6, 7, 9, 11, 13):
        c["a"] = word(r)
    if t in (1, 2, 7, 9, 11):
        c["x1"] = word(r) if opt else 0                # memoryId: optional key, 0 when omitted
    if t == 12:
        c["x1"] = word(r)                              # pattern
    if t == 8:
        c["x1"] = word(r)                              # addressTo
        c["x2"], c["x3"] = (word(r), word(r)) if opt else (0, 0)
    if t == 10:
        c["a"], c["x1"] = r.choice([0, 4, 0xFFFF, r.getrandbits(16)]), SHAPE["wrapping_key_id"][fam][sub]
    if t == 13:
        c["x1"] = SHAPE["counter_id"][sub]
    if t in DATA_CMDS:
        if form in ("values", "values1"):              # 32-bit words, little endian
            n = max(1, dl // 4)
            ws = [word(r) for _ in range(n)]
            if form == "values1" and ws[0] == 0:
                ws[0] = 0x5A                            # a single number 0 is outside the domain (see assumptions)
            c["data"] = b"".join(w.to_bytes(4, "little") for w in ws).hex()
        elif form == "value":                          # one value of exactly 4 / 8 bytes (most significant byte non-zero), little endian
            b = bytearray(r.randbytes(dl))
            b[-1] = b[-1] or 0xB3
            c["data"] = bytes(b).hex()
        else:
            c["data"] = r.randbytes(dl).hex()
    return c


def pck_bytes(bits, val, form, r):
    b = bytearray(r.randbytes(bits // 8))
    b[0] = b[0] or 0x8F
    if val == "lead0":
        b[0], b[1] = 0, b[1] or 0x3C
    if val == "half0":
        b[:16] = bytes(16)
        b[16] = b[16] or 0x24
    if form == "bin":
        b[-1] = 0xFF                                   # a binary key file that cannot be read as text (0xFF is not UTF-8)
    return bytes(b)


def given(c):
    """What the configuration supplies next to what it requests (Sb31Format!Givens; derived from k by Sb31CfgGen!Norm): part-common key
    of `pck` bits (0: no containerKeyBlobEncryptionKey), kdkAccessRights (-1: key absent), ISK keys in the certificate block configuration."""
    return c.get("given") or {"pck": c["pck"] if c["enc"] or c["k"]["pckForm"] != "absent" else 0, "rights": c["rights"] if c["enc"] else -1,
                              "isk": bool(c["isk"])}   # (cases recorded before the dimension existed)


def concretise(case, r):
    k = case["k"]
    ts = r.choice([1, 0xFFFFFFFF, 0x100000000, 2**63, 2**64 - 1, r.getrandbits(32) + 1, r.getrandbits(64) | 1, 0x2A5B0E11])
    dlen = r.choice([0, 1, 5, 15, 16, 16, 17, 20])
    c = dict(case)
    c.update(
        ts=ts, fw=word(r), flags=0 if k["flagsAbsent"] else word(r),
        desc="" if k["descAbsent"] else "".join(chr(r.randrange(0x20, 0x7F)) for _ in range(dlen)), desc_none=k["descAbsent"],
        constraints=word(r) if case["isk"] else 0, udata=r.randbytes(case["ud"]).hex() if case["isk"] else "",
        cmds=[conc_cmd(ac, k["fam"], r) for ac in case["cmds"]],
        pck_hex=pck_bytes(case["pck"], k["pckVal"], k["pckForm"], r).hex(), upper=r.random() < 0.3, via_set=False)
    if given(case)["isk"] and not case["isk"]:   # ISK keys the certificate block configuration names although useIsk is false
        c.update(g_constraints=word(r), g_udata=r.randbytes(r.choice([0, 4, 32])).hex())
    return c


# ------------------------------------------------------------------ rendering
def num(n, f):
    """A number in one of the formats the configuration accepts (schema: type [string, number], format number)."""
    if f == "int":
        return n
    if f == "dec":
        return str(n)
    if f == "hex":
        return hex(n)
    h = "%x" % n
    h = h.rjust((len(h) + 3) // 4 * 4, "0")
    return "0x" + "_".join(h[i:i + 4] for i in range(0, len(h), 4))     # 0x2000_0000 as in the template


def words_text(data, f):
    ws = [int.from_bytes(data[i:i + 4], "little") for i in range(0, len(data), 4)]
    if f == "int":                                                      # the template's own example: mixed, blank after the comma
        return ", ".join(hex(w) if i % 2 == 0 else str(w) for i, w in enumerate(ws))
    if f == "dec":
        return ", ".join(str(w) for w in ws)
    return ",".join(num(w, f) for w in ws)


def render_cmd(c, f, d, i):
    t, data = c["t"], bytes.fromhex(c["data"])
    N = lambda x: num(x, f)  # noqa: E731

    def put(name, content, text=False):
        with open(os.path.join(d, name), "w" if text else "wb") as fh:
            fh.write(content)
        return name

    def payload(v):
        if c["form"] in ("file", "own", "auth"):
            v["file"] = put(f"cmd{i}.bin", data)
        elif c["form"] == "values":
            v["values"] = words_text(data, f)
        elif c["form"] == "values1":
            v["values"] = N(int.from_bytes(data, "little"))
        elif c["form"] == "value":
            v["value"] = N(int.from_bytes(data, "little"))
        return v

    if t == 1:
        v = {"address": N(c["a"]), "size": N(c["n"])}
        if c["opt"]:
            v["memoryId"] = N(c["x1"])
    elif t in (2, 7, 9):
        v = {"address": N(c["a"])}
        if c["opt"]:
            v["memoryId"] = N(c["x1"])
        payload(v)
        if t == 2 and c["sub"] == "none":
            v["authentication"] = "none"
        if t in (7, 9) and c["form"] == "auth":
            v["authentication"] = SHAPE["authentication"][str(t)]
            return {"load": v}
    elif t in (3, 4):
        v = {"address": N(c["a"])}
    elif t in (5, 6):
        v = payload({"address": N(c["a"])})
    elif t == 8:
        v = {"addressFrom": N(c["a"]), "size": N(c["n"]), "addressTo": N(c["x1"])}
        if c["opt"]:
            v["memoryIdFrom"], v["memoryIdTo"] = N(c["x2"]), N(c["x3"])
    elif t == 10:
        v = {"offset": N(c["a"]), "wrappingKeyId": c["sub"]}
        if c["form"] == "hex":
            v["file"] = put(f"cmd{i}.txt", data.hex(), text=True)
        else:
            v["file"] = put(f"cmd{i}.bin", data)
        if c["form"] != "omit":
            v["plainInput"] = c["form"]
    elif t == 11:
        v = {"configAddress": N(c["a"])}
        if c["opt"]:
            v["memoryId"] = N(c["x1"])
    elif t == 12:
        v = {"address": N(c["a"]), "size": N(c["n"]), "pattern": N(c["x1"])}
    elif t == 13:
        v = {"value": N(c["a"]), "counterId": c["sub"]}
    elif t == 14:
        v = {}
    else:
        raise Machinery(f"no command type {t}")
    return {CMD_KEY[t]: v}


def key_entry(name, path):
    return {name: f"type=file;file_path={path}"} if name == "signProvider" else {name: path}


def yaml_text(d):
    """Flat mapping as YAML (JSON scalars are YAML flow scalars)."""
    return "".join(f"{k}: {json.dumps(v)}\n" for k, v in d.items())


def key_names(c):
    """(pool key names of the root set, pool key name of the ISK): position i holds the key of slot root<i> of the value class the
    case gives it (Sb31Format!KeyClasses; every slot of the pool holds one key of every class)."""
    nm = lambda slot, cls: slot if cls == "full" else f"{slot}_{cls}"  # noqa: E731
    rk = c.get("rk") or ["full"] * c["nkeys"]
    return [nm(f"root{i}", rk[i]) for i in range(c["nkeys"])], nm("isk", c.get("ik") or "full")


def cert_block_object(c, pool):
    """The certificate block through the classes (for the `certBlock: <binary>` form and as the class lane builds it)."""
    from spsdk.utils.crypto.cert_blocks import CertBlockV21

    curve, used, roots, isk = c["curve"], c["used"], key_names(c)[0], key_names(c)[1]
    cb = CertBlockV21(
        root_certs=[pool.pub_pem[curve, k] for k in roots], ca_flag=not c["isk"], used_root_cert=used,
        constraints=c["constraints"], signature_provider=pool.sp(curve, roots[used]) if c["isk"] else None,
        isk_cert=pool.pub_pem[curve, isk] if c["isk"] else None, user_data=bytes.fromhex(c["udata"]) or None, family=c["k"]["fam"])
    cb.calculate()
    return cb


def render(c, d, pool):
    """Concrete case -> configuration dictionary; every file it refers to is written below d (keys of the pool by absolute path)."""
    k, curve, used, f = c["k"], c["curve"], c["used"], c["k"]["num"]
    pub = lambda n: pool.pub_path[curve, n]  # noqa: E731
    roots, isk = key_names(c)
    g = given(c)
    if (k["pckForm"] == "absent") != (g["pck"] == 0) or (c["enc"] and (g["pck"] != c["pck"] or g["rights"] != c["rights"])) or (c["isk"] and not g["isk"]) \
            or (k["cb"] == "bin" and g["isk"] != bool(c["isk"])):
        raise Machinery(f"configuration case outside the case space: enc={c['enc']} isk={c['isk']} pck={c['pck']} rights={c['rights']} k={k}, supply {g}")
    cfg = {"family": k["fam"], "firmwareVersion": num(c["fw"], f), "containerOutputFile": "out.sb3"}
    # ---- certificate block: nested configuration file or binary
    if k["cb"] == "bin":
        with open(os.path.join(d, "cert_block.bin"), "wb") as fh:
            fh.write(cert_block_object(c, pool).export())
        cfg["certBlock"] = "cert_block.bin"
    else:
        names = SHAPE["cert_block_keys"]["new" if k["cbNew"] else "legacy"]
        cb = {"family": k["fam"], "useIsk": c["isk"]}
        for i in range(c["nkeys"]):
            cb[f"rootCertificate{i}File"] = pub(roots[i])
        if k["rootId"]:
            cb["mainRootCertId"] = used
        if g["isk"]:        # requested (useIsk: true) - or only supplied: the template lists the ISK keys whatever useIsk says
            udata = c["udata"] if c["isk"] else c.get("g_udata", "")
            cb[names["isk"]] = pub(isk)
            cb[names["constraint"]] = num(c["constraints"] if c["isk"] else c.get("g_constraints", 0), f)
            if udata:
                with open(os.path.join(d, "user_data.bin"), "wb") as fh:
                    fh.write(bytes.fromhex(udata))
                cb[names["data"]] = "user_data.bin"
            cb.update(key_entry(k["cbSign"], pool.priv_path[curve, roots[used]]))
        cb["containerOutputFile"] = "cert_block_out.bin"
        with open(os.path.join(d, "cert_block.yaml"), "w") as fh:
            fh.write(yaml_text(cb))
        cfg["certBlock"] = "cert_block.yaml"
    cfg.update(key_entry(k["sign"], pool.priv_path[curve, isk if c["isk"] else roots[used]]))
    # ---- part-common key
    pck = bytes.fromhex(c["pck_hex"])
    text = pck.hex().upper() if c["upper"] else pck.hex()
    form = k["pckForm"]
    if form in ("hex", "hex0x"):
        cfg["containerKeyBlobEncryptionKey"] = ("0x" if form == "hex0x" else "") + text
    elif form in ("txt", "txtnl"):
        with open(os.path.join(d, "pck.txt"), "w") as fh:
            fh.write(text + ("\n" if form == "txtnl" else ""))
        cfg["containerKeyBlobEncryptionKey"] = "pck.txt"
    elif form == "bin":
        with open(os.path.join(d, "pck.bin"), "wb") as fh:
            fh.write(pck)
        cfg["containerKeyBlobEncryptionKey"] = "pck.bin"
    elif form != "absent" or c["enc"]:
        raise Machinery(f"part-common key form {form} of an {'encrypted' if c['enc'] else 'plain'} case")
    if k["encKey"] != "absent":
        cfg["isEncrypted"] = k["encKey"] == "true"
    if g["rights"] >= 0:    # requested (encrypted) - or only supplied
        cfg["kdkAccessRights"] = g["rights"]
    if not k["nxpAbsent"]:
        cfg["isNxpContainer"] = c["nxp"]
    if not k["flagsAbsent"]:
        cfg["containerConfigurationWord"] = num(c["flags"], f)
    if not c["desc_none"]:
        cfg["description"] = c["desc"]
    cfg["timestamp"] = num(c["ts"], f)
    cfg["commands"] = [render_cmd(x, f, d, i) for i, x in enumerate(c["cmds"])]
    return cfg


def case_dir(c):
    d = os.path.join(scratch(), "c05cfg", f"{os.getpid()}-" + hashlib.sha256(json.dumps(c, sort_keys=True).encode()).hexdigest()[:20])
    os.makedirs(d, exist_ok=True)
    return d


def build(c, pool):
    """Concrete case -> the SecureBinary31 object load_from_config returns (what `nxpimage sb31 export` exports)."""
    from spsdk.sbfile.sb31.images import SecureBinary31

    d = case_dir(c)
    cfg = render(c, d, pool)
    with open(os.path.join(d, "config.json"), "w") as fh:   # for the reader of a replay; load_from_config gets the dictionary
        json.dump(cfg, fh, indent=1)
    return SecureBinary31.load_from_config(cfg, search_paths=[d])


def schema_check(c, pool):
    """Development aid (not part of the verdict): the rendered configuration validates against the schemas `nxpimage sb31 export`
    applies.  Returns None or the refusal text."""
    from spsdk.sbfile.sb31.images import SecureBinary31
    from spsdk.utils.schema_validator import check_config

    d = case_dir(c)
    cfg = render(c, d, pool)
    try:
        check_config(cfg, SecureBinary31.get_validation_schemas(cfg["family"]), search_paths=[d])
    except Exception as e:  # noqa: BLE001
        return f"{type(e).__name__}: {str(e)[:300]}"
    return None


def omitted_optional(case):
    """Command kinds of the case whose optional keys are omitted (naming of findings only)."""
    return sorted({x["t"] for x in case["cmds"] if not x["opt"]})
