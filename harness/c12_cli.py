"""C12 - the COMMAND-LINE ROUTE of the configuration areas.

The property names the tools as observation points (`pfr`, `ifr`, `nxpimage bca | fcf | tz`, `nxpimage bootable-image fcb | xmcd`,
`nxpfuses`, `nxpmemcfg`).  Every tool is driven in-process through click's test runner; what a tool writes is one more OBSERVATION
of the existing events of a trace (Template / Export / GetConfig) - this module only executes and records, spec/C12/CfgAreaTrace.tla
decides (TemplateYaml / TemplateSchema, ExportFaithful, ComputedHold, BytesStable, Seal, Rotkh, ConfigRoundTrip ...).

The Root of Trust keys come from the committed key pool /verif/keys/rot (generated once with `cryptography`); the documented value of the
ROTKH field is computed here with hashlib over the public numbers read with `cryptography`:
    certificate block v1   : SHA-256( RKH_0 | RKH_1 | RKH_2 | RKH_3 ),  RKH_i = SHA-256(modulus | exponent), an unused slot = 32 zero bytes
    certificate block v2.1 : one key:  H(X | Y);  several keys:  H( H(X_1 | Y_1) | ... | H(X_n | Y_n) ),  H = SHA-256 (P-256) / SHA-384 (P-384)
"""
import hashlib
import logging
import os
import re
import struct

import yaml

from lib.common import ROOT, Machinery

KDIR = os.path.join(ROOT, "keys", "rot")
POOL = {"rsa2048": ["r0", "r1", "r2", "r3"], "p256": ["r0", "lzx", "lzy", "r1", "r2", "r3"], "p384": ["r0", "lzx", "lzy", "r1", "r2", "r3"]}
# the ways a key reaches the tool: "Secret file (certificate, public key, private key)"
FORMS = ("pub.pem", "priv.pem", "crt.pem", "pub.der", "crt.der")


class ToolFailed(Exception):
    """A tool ended with a non-zero exit code / an exception / without the file it announced."""


def key_file(cls, name, form):
    path = os.path.join(KDIR, f"{cls}_{name}.{form}")
    if not os.path.exists(path):
        raise Machinery(f"key pool: {path} is missing")
    return path


_material = {}


def material(cls, name):
    """(a, b) = (n, e) / (X, Y) as fixed-width big-endian bytes - read from the pool with `cryptography`, never through spsdk.crypto."""
    if (cls, name) not in _material:
        from cryptography.hazmat.primitives import serialization
        from cryptography.hazmat.primitives.asymmetric import rsa

        with open(key_file(cls, name, "pub.pem"), "rb") as f:
            pub = serialization.load_pem_public_key(f.read())
        n = pub.public_numbers()
        if isinstance(pub, rsa.RSAPublicKey):
            _material[(cls, name)] = (n.n.to_bytes(pub.key_size // 8, "big"), n.e.to_bytes((n.e.bit_length() + 7) // 8, "big"), pub)
        else:
            size = (pub.curve.key_size + 7) // 8
            _material[(cls, name)] = (n.x.to_bytes(size, "big"), n.y.to_bytes(size, "big"), pub)
    return _material[(cls, name)]


def rot_digest(rot_type, cls, names):
    """The documented Root of Trust key hash of an ordered key list (hashlib only)."""
    raws = [material(cls, n)[0] + material(cls, n)[1] for n in names]
    if rot_type == "cert_block_1":
        table = b"".join(hashlib.sha256(x).digest() for x in raws) + bytes(32) * (4 - len(raws))
        return hashlib.sha256(table).digest()
    if rot_type == "cert_block_21":
        h = hashlib.sha384 if cls == "p384" else hashlib.sha256
        return h(raws[0]).digest() if len(raws) == 1 else h(b"".join(h(x).digest() for x in raws)).digest()
    raise Machinery(f"no documented Root of Trust construction for {rot_type}")


def spsdk_keys(cls, names):
    """The same keys as the objects the LIBRARY route takes (export(keys=...))."""
    from spsdk.crypto.keys import PublicKeyEcc, PublicKeyRsa

    return [(PublicKeyRsa if cls.startswith("rsa") else PublicKeyEcc)(material(cls, n)[2]) for n in names]


def pick_keys(rot_type, width, s, r):
    """(key class, names) for one step: the class the family's Root of Trust takes, `nkeys` DISTINCT pool keys in a seeded order."""
    if rot_type == "cert_block_1":
        cls = "rsa2048"
    elif rot_type == "cert_block_21":
        cls = "p384" if (width >= 384 and s.get("big", True)) else "p256"
    else:
        return None, []
    return cls, r.sample(POOL[cls], k=min(s.get("nkeys", 1), 4))


def invoke(main, args):
    """One tool call in this process.  The handlers a tool installs into the root logger are removed again (they are no part of the property)."""
    from click.testing import CliRunner

    root, dbg = logging.getLogger(), logging.getLogger("spsdk.debug")
    before = (list(root.handlers), root.level, root.propagate, list(dbg.handlers))
    try:
        res = CliRunner().invoke(main, [str(a) for a in args], catch_exceptions=True)
    finally:
        root.handlers[:], root.level, root.propagate = before[0], before[1], before[2]
        dbg.handlers[:] = before[3]
    if res.exit_code != 0 or (res.exception is not None and not isinstance(res.exception, SystemExit)):
        exc = res.exception
        tail = " ".join((res.output or "").split())[-200:]
        raise ToolFailed(f"{' '.join(str(a) for a in args[:3])}: exit {res.exit_code}" + (f": {type(exc).__name__}: {exc}" if exc is not None else "") + (f" [{tail}]" if tail else ""))
    return res.output or ""


def read(path, binary=None):
    if not os.path.exists(path):
        raise ToolFailed(f"the tool reported success but did not write {os.path.basename(path)}")
    if binary is None:
        binary = not path.endswith((".yaml", ".yml"))
    with open(path, "rb") as f:
        data = f.read()
    return data if binary else data.decode("utf-8")


def fresh(path):
    if os.path.exists(path):
        os.remove(path)
    return path


class Tool:
    """The tools of one area.  `has` = the operations the tools offer for it: template / export / parse."""

    has = ("template", "export", "parse")
    type_key = None           # the configuration key whose SPELLING (upper / lower case) the tool must not care about
    takes_keys = False

    def __init__(self, ad, workdir):
        self.ad, self.dir = ad, workdir
        os.makedirs(workdir, exist_ok=True)

    def p(self, name):
        return os.path.join(self.dir, name)

    # -- overridden
    def template(self):
        raise NotImplementedError

    def export(self, cfg_path, seal=False, sf=(), rot=None):
        raise NotImplementedError

    def parse(self, bin_path):
        raise NotImplementedError


class PfrTool(Tool):
    type_key = "type"

    def mod(self):
        from spsdk.apps import pfr

        return pfr.main

    def template(self):
        out = fresh(self.p("tpl.yaml"))
        invoke(self.mod(), ["get-template", "-f", self.ad.family, "-r", self.ad.rev, "-t", self.ad.kind, "-o", out])
        return read(out)

    def export(self, cfg_path, seal=False, sf=(), rot=None):
        out = fresh(self.p("out.bin"))
        args = ["generate-binary", "-c", cfg_path, "-o", out, "--ignore"]        # (--ignore: the brick-condition rules of PFRC are no part of the property)
        for f in sf:
            args += ["-sf", f]
        if rot:
            args += ["-e", rot]
        if seal:
            args += ["-a"]
        invoke(self.mod(), args)
        return read(out)

    def parse(self, bin_path):
        out = fresh(self.p("parsed.yaml"))
        invoke(self.mod(), ["parse-binary", "-f", self.ad.family, "-r", self.ad.rev, "-t", self.ad.kind, "-b", bin_path, "-o", out])
        return read(out)


class CmpaTool(PfrTool):
    takes_keys = True


class IfrTool(Tool):
    type_key = "type"
    sector = {"romcfg": "ROMCFG", "cmactable": "CMACTable"}

    def mod(self):
        from spsdk.apps import ifr

        return ifr.main

    def template(self):
        out = fresh(self.p("tpl.yaml"))
        invoke(self.mod(), ["get-template", "-f", self.ad.family, "-r", self.ad.rev, "-s", self.sector[self.ad.kind], "-o", out])
        return read(out)

    def export(self, cfg_path, seal=False, sf=(), rot=None):
        out = fresh(self.p("out.bin"))
        invoke(self.mod(), ["generate-binary", "-f", self.ad.family, "-c", cfg_path, "-o", out])      # (-f is demanded although the configuration names the family)
        return read(out)

    def parse(self, bin_path):
        out = fresh(self.p("parsed.yaml"))
        invoke(self.mod(), ["parse-binary", "-f", self.ad.family, "-r", self.ad.rev, "-s", self.sector[self.ad.kind], "-b", bin_path, "-o", out])
        return read(out)


class ImageTool(Tool):
    """nxpimage <group...> get-template(s) / export / parse - tools without a revision option work on the latest revision."""

    group = ()
    latest_only = True

    def mod(self):
        from spsdk.apps import nxpimage

        return nxpimage.main

    def template(self):
        out = fresh(self.p("tpl.yaml"))
        invoke(self.mod(), [*self.group, "get-template", "-f", self.ad.family, "-o", out])
        return read(out)

    def export(self, cfg_path, seal=False, sf=(), rot=None):
        out = fresh(self.p("out.bin"))
        invoke(self.mod(), [*self.group, "export", "-c", cfg_path, "-o", out])
        return read(out)

    def parse_args(self):
        return []

    def parse(self, bin_path):
        out = fresh(self.p("parsed.yaml"))
        invoke(self.mod(), [*self.group, "parse", "-f", self.ad.family, *self.parse_args(), "-b", bin_path, "-o", out])
        return read(out)


class BcaTool(ImageTool):
    group = ("bca",)


class FcfTool(ImageTool):
    group = ("fcf",)


class FcbTool(ImageTool):
    group = ("bootable-image", "fcb")

    def template(self):
        d = self.p("tpl")
        invoke(self.mod(), [*self.group, "get-templates", "-f", self.ad.family, "-o", d])
        return read(os.path.join(d, f"fcb_{self.ad.family}_{self.ad.sub}.yaml"))

    def parse_args(self):
        return ["-m", self.ad.sub]


class XmcdTool(ImageTool):
    group = ("bootable-image", "xmcd")

    def template(self):
        d = self.p("tpl")
        invoke(self.mod(), [*self.group, "get-templates", "-f", self.ad.family, "-o", d])
        return read(os.path.join(d, f"xmcd_{self.ad.family}_{self.ad.sub.replace('/', '_')}.yaml"))


class TzTool(ImageTool):
    group = ("tz",)
    has = ("template", "export")
    latest_only = False

    def template(self):
        out = fresh(self.p("tpl.yaml"))
        invoke(self.mod(), [*self.group, "get-template", "-f", self.ad.family, "-r", self.ad.rev, "-o", out])
        return read(out)

    def export(self, cfg_path, seal=False, sf=(), rot=None):
        with open(cfg_path, "r", encoding="utf-8") as f:
            name = yaml.safe_load(f).get("tzpOutputFile")          # the tool writes where the configuration says (relative to the configuration)
        out = fresh(os.path.join(os.path.dirname(cfg_path), str(name)))
        invoke(self.mod(), [*self.group, "export", "-c", cfg_path])
        return read(out, True)


class FusesTool(Tool):
    has = ("template",)

    def template(self):
        from spsdk.apps import nxpfuses

        out = fresh(self.p("tpl.yaml"))
        invoke(nxpfuses.main, ["get-template", "-f", self.ad.family, "-r", self.ad.rev, "-o", out])
        return read(out)


class MemcfgTool(Tool):
    latest_only = True

    def mod(self):
        from spsdk.apps import nxpmemcfg

        return nxpmemcfg.main

    def template(self):
        d = self.p("tpl")
        invoke(self.mod(), ["get-templates", "-f", self.ad.family, "-o", d])
        return read(os.path.join(d, f"ow_{self.ad.sub}.yaml"))

    def export(self, cfg_path, seal=False, sf=(), rot=None):
        out = invoke(self.mod(), ["export", "-c", cfg_path])
        m = re.search(r"Exported config options:\s*(.*)", out)
        if not m:
            raise ToolFailed(f"no option words in the output of the tool: {' '.join(out.split())[-160:]}")
        words = [int(w, 0) for w in re.findall(r"0[xX][0-9a-fA-F]+|\d+", m.group(1))]
        return struct.pack(f"<{len(words)}I", *words)           # the option words as the ROM reads them: little-endian 32-bit words

    def parse(self, bin_path):
        with open(bin_path, "rb") as f:
            data = f.read()
        if len(data) % 4 or not data:
            raise ToolFailed("the binary is no sequence of option words")
        out = fresh(self.p("parsed.yaml"))
        args = ["parse", "-f", self.ad.family, "-p", self.ad.sub]
        for (w,) in struct.iter_unpack("<I", data):
            args += ["-w", f"0x{w:08X}"]
        invoke(self.mod(), args + ["-o", out])
        return read(out)


TOOLS = {"cmpa": CmpaTool, "cfpa": PfrTool, "romcfg": IfrTool, "cmactable": IfrTool, "bca": BcaTool, "fcf": FcfTool, "fcb": FcbTool, "xmcd": XmcdTool, "tz": TzTool,
         "fuses": FusesTool, "memcfg": MemcfgTool}


def tool_for(ad, workdir):
    return TOOLS[ad.kind](ad, workdir)


def needs_latest(kind):
    return bool(getattr(TOOLS[kind], "latest_only", False))


def spell(value, how):
    """The spelling of a `type` value: as SPSDK's own templates / parsed configurations spell it, lower case, upper case."""
    return {"asis": value, "lower": str(value).lower(), "upper": str(value).upper()}[how]


def write_config(tool, cfg, how, name="cfg.yaml"):
    """The configuration dictionary as a YAML file for the tool (the `type` key respelled)."""
    cfg = dict(cfg)
    if tool.type_key and tool.type_key in cfg:
        cfg[tool.type_key] = spell(cfg[tool.type_key], how)
    path = tool.p(name)
    with open(path, "w", encoding="utf-8") as f:
        yaml.safe_dump(cfg, f, sort_keys=False, default_flow_style=False, width=4096)
    return path


def write_rot_config(tool, files, how):
    """A Root of Trust source for `-e`: a certificate-block configuration (rootCertificate<i>File), or an MBI configuration that points to one."""
    cb = tool.p("certblock.yaml")
    with open(cb, "w", encoding="utf-8") as f:
        yaml.safe_dump({f"rootCertificate{i}File": p for i, p in enumerate(files)} | {"mainRootCertId": 0}, f, sort_keys=False)
    if how == "rotcfg":
        return cb
    mbi = tool.p("mbi.yaml")
    with open(mbi, "w", encoding="utf-8") as f:
        yaml.safe_dump({"family": tool.ad.family, "certBlock": "certblock.yaml"}, f, sort_keys=False)
    return mbi
